#!/bin/sh
# Offline setup: warm the build caches (native replay binary, MIR dump). Checks rebuild from
# /repo's current tree on every run regardless; this only makes the first run faster.
set -e
cd "$(dirname "$0")"
export CARGO_NET_OFFLINE=true
mkdir -p .cache evidence
/opt/veriftools/pyvenv/bin/python - <<'PY'
import sys
sys.path.insert(0, "lib")
import common
common.build_replay()
p, s, hit = common.mir_dump()
print("mir:", p, s, hit)
PY
echo setup done
