// harnesses
