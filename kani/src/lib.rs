//! Kani proof harnesses for mamba's lexer (`/repo/src/parse/lex`) and two name tables.
//!
//! Run one harness (`/verif/lib/kani_runner.py` does this, in parallel, and parses the output):
//!
//! ```text
//! cd /verif/kani && CARGO_NET_OFFLINE=true cargo kani --harness harnesses::<name> --exact \
//!     --target-dir <dir outside /verif and /repo> --no-memory-safety-checks -Z stubbing \
//!     [-Z unstable-options --cbmc-args --max-field-sensitivity-array-size 1024]   # state_order_*
//! ```
//!
//! (`--exact`: the plain `--harness` filter is a substring match. `-Z stubbing`: `step_other_char`.
//! The CBMC option is REQUIRED for `state_order_*`, see `order_summary`.)
//!
//! Families
//!  A. `step2_*` / `step3_*` : one call of the real `into_tokens` with a concrete first character and
//!     K = 2 / 3 symbolic ASCII look-ahead bytes (effective length n <= K symbolic).
//!     `step_other_char`     : any first character that starts no arm, symbolic.
//!  B. `state_token_pass`, `state_token_comment`, `state_token_nl`, `state_space` : one call of one
//!     `State` method from a fully symbolic state (length of the result + state afterwards).
//!     `state_flush`, `state_order_pass_cNN_kK`, `state_order_comment_cNN` : content and order of
//!     the returned tokens; indentation widths / pending count enumerated, caret + flag symbolic.
//!  C. `table_*` : `concrete_to_python` and `as_op_or_id` against hand-written tables.
//!
//! Everything a harness assumes is a `kani::assume` in this file (grep for it); every bound is a
//! `const` or a macro argument in this file.
#![allow(dead_code)]
#![allow(unused_imports)]
#![allow(clippy::all)]

#[cfg(kani)]
mod harnesses {
    use core::mem::forget;

    use mamba::check::context::clss::concrete_to_python;
    use mamba::common::position::{CaretPos, Position};
    use mamba::parse::verif_hooks::{
        verif_as_op_or_id, verif_into_tokens, Lex, LexErr, LexResult, Token, VerifState,
    };

    // ------------------------------------------------------------------------------------------
    // Token kinds the harnesses talk about (own fieldless enum: comparing it never touches the
    // String / Vec payloads of `Token`, and no `Token` value has to be built and dropped).
    // ------------------------------------------------------------------------------------------
    #[derive(Clone, Copy, PartialEq, Eq, Debug)]
    pub enum K {
        // punctuation / operators produced by the fixed-width arms
        Comma,
        DoublePoint,
        Assign,
        Slice,
        SliceIncl,
        LRBrack,
        RRBrack,
        LSBrack,
        RSBrack,
        LCBrack,
        RCBrack,
        Ver,
        Point,
        Range,
        RangeIncl,
        Le,
        Leq,
        BLShift,
        BLShiftAssign,
        Ge,
        Geq,
        BRShift,
        BRShiftAssign,
        Add,
        AddAssign,
        Sub,
        SubAssign,
        To,
        Mul,
        MulAssign,
        Div,
        DivAssign,
        FDiv,
        BSlash,
        Pow,
        PowAssign,
        Eq,
        BTo,
        Neq,
        Question,
        // layout
        NL,
        Indent,
        Dedent,
        // keywords (as_op_or_id)
        Underscore,
        From,
        Type,
        Class,
        Pure,
        As,
        Import,
        Forward,
        Vararg,
        Def,
        Fin,
        And,
        Or,
        Not,
        Is,
        IsA,
        Mod,
        Sqrt,
        While,
        For,
        BAnd,
        BOr,
        BXOr,
        BOneCmpl,
        If,
        Else,
        Match,
        Continue,
        Break,
        Ret,
        Then,
        Do,
        With,
        In,
        Raise,
        Handle,
        When,
        Pass,
        // payload carrying
        Id,
        Comment,
        // anything else (Real, Int, ENum, Str, DocStr, Eof)
        Other,
        // "no token" marker used by the step harness result
        NoTok,
    }

    pub fn kind_of(t: &Token) -> K {
        match t {
            Token::Comma => K::Comma,
            Token::DoublePoint => K::DoublePoint,
            Token::Assign => K::Assign,
            Token::Slice => K::Slice,
            Token::SliceIncl => K::SliceIncl,
            Token::LRBrack => K::LRBrack,
            Token::RRBrack => K::RRBrack,
            Token::LSBrack => K::LSBrack,
            Token::RSBrack => K::RSBrack,
            Token::LCBrack => K::LCBrack,
            Token::RCBrack => K::RCBrack,
            Token::Ver => K::Ver,
            Token::Point => K::Point,
            Token::Range => K::Range,
            Token::RangeIncl => K::RangeIncl,
            Token::Le => K::Le,
            Token::Leq => K::Leq,
            Token::BLShift => K::BLShift,
            Token::BLShiftAssign => K::BLShiftAssign,
            Token::Ge => K::Ge,
            Token::Geq => K::Geq,
            Token::BRShift => K::BRShift,
            Token::BRShiftAssign => K::BRShiftAssign,
            Token::Add => K::Add,
            Token::AddAssign => K::AddAssign,
            Token::Sub => K::Sub,
            Token::SubAssign => K::SubAssign,
            Token::To => K::To,
            Token::Mul => K::Mul,
            Token::MulAssign => K::MulAssign,
            Token::Div => K::Div,
            Token::DivAssign => K::DivAssign,
            Token::FDiv => K::FDiv,
            Token::BSlash => K::BSlash,
            Token::Pow => K::Pow,
            Token::PowAssign => K::PowAssign,
            Token::Eq => K::Eq,
            Token::BTo => K::BTo,
            Token::Neq => K::Neq,
            Token::Question => K::Question,
            Token::NL => K::NL,
            Token::Indent => K::Indent,
            Token::Dedent => K::Dedent,
            Token::Underscore => K::Underscore,
            Token::From => K::From,
            Token::Type => K::Type,
            Token::Class => K::Class,
            Token::Pure => K::Pure,
            Token::As => K::As,
            Token::Import => K::Import,
            Token::Forward => K::Forward,
            Token::Vararg => K::Vararg,
            Token::Def => K::Def,
            Token::Fin => K::Fin,
            Token::And => K::And,
            Token::Or => K::Or,
            Token::Not => K::Not,
            Token::Is => K::Is,
            Token::IsA => K::IsA,
            Token::Mod => K::Mod,
            Token::Sqrt => K::Sqrt,
            Token::While => K::While,
            Token::For => K::For,
            Token::BAnd => K::BAnd,
            Token::BOr => K::BOr,
            Token::BXOr => K::BXOr,
            Token::BOneCmpl => K::BOneCmpl,
            Token::If => K::If,
            Token::Else => K::Else,
            Token::Match => K::Match,
            Token::Continue => K::Continue,
            Token::Break => K::Break,
            Token::Ret => K::Ret,
            Token::Then => K::Then,
            Token::Do => K::Do,
            Token::With => K::With,
            Token::In => K::In,
            Token::Raise => K::Raise,
            Token::Handle => K::Handle,
            Token::When => K::When,
            Token::Pass => K::Pass,
            Token::Id(_) => K::Id,
            Token::Comment(_) => K::Comment,
            Token::Real(_)
            | Token::Int(_)
            | Token::ENum(..)
            | Token::Str(..)
            | Token::DocStr(_)
            | Token::Eof => K::Other,
        }
    }

    // ==========================================================================================
    // A. one lexer step, fixed-width arms
    // ==========================================================================================

    /// What one step from first character `c` must do, as a function of the look-ahead only.
    /// Written from the canonical spellings (`Display for Token`, docs/spec), longest match first;
    /// NOT transcribed from `into_tokens`.
    #[derive(Clone, Copy, PartialEq, Eq)]
    pub enum Exp {
        /// exactly one token of this kind; length of its canonical spelling (a) written by hand,
        /// (b) as computed by `Token::width()` (= `to_string().len()`) on a fresh token of that kind
        Tok(K, usize, usize),
        /// a blank: no token, caret one column to the right
        Space,
        /// a line break spelled with this many characters: no token, caret to (line + 1, 1)
        Newline(usize),
        /// lexing error
        Err,
    }

    /// `Token::width()` is evaluated on a fresh, concrete token of the expected kind, not on the token
    /// that comes back out of the `Vec` (its discriminant is symbolic for CBMC, and `Display for
    /// Token` starts with `self.clone()`, whose `Str(_, Vec<Vec<Lex>>)` arm is a recursive clone:
    /// measured > 7 min / > 12 GB even for ','). Together with "kind == expected kind" this is the
    /// same statement.
    fn tok(k: K, hand_width: usize, canonical: Token) -> Exp {
        let display_width = canonical.width();
        forget(canonical);
        Exp::Tok(k, hand_width, display_width)
    }

    fn is(x: Option<u8>, ch: u8) -> bool {
        x == Some(ch)
    }

    /// `a`, `b`: first and second look-ahead character (None = end of input).
    pub fn expect(c: char, a: Option<u8>, b: Option<u8>) -> Exp {
        match c {
            ',' => tok(K::Comma, 1, Token::Comma),
            '(' => tok(K::LRBrack, 1, Token::LRBrack),
            ')' => tok(K::RRBrack, 1, Token::RRBrack),
            '[' => tok(K::LSBrack, 1, Token::LSBrack),
            ']' => tok(K::RSBrack, 1, Token::RSBrack),
            '{' => tok(K::LCBrack, 1, Token::LCBrack),
            '}' => tok(K::RCBrack, 1, Token::RCBrack),
            '|' => tok(K::Ver, 1, Token::Ver),
            '\\' => tok(K::BSlash, 1, Token::BSlash),
            '?' => tok(K::Question, 1, Token::Question),
            ':' => {
                if is(a, b':') && is(b, b'=') {
                    tok(K::SliceIncl, 3, Token::SliceIncl) // "::="
                } else if is(a, b':') {
                    tok(K::Slice, 2, Token::Slice) // "::"
                } else if is(a, b'=') {
                    tok(K::Assign, 2, Token::Assign) // ":="
                } else {
                    tok(K::DoublePoint, 1, Token::DoublePoint) // ":"
                }
            }
            '.' => {
                if is(a, b'.') && is(b, b'=') {
                    tok(K::RangeIncl, 3, Token::RangeIncl) // "..="
                } else if is(a, b'.') {
                    tok(K::Range, 2, Token::Range) // ".."
                } else {
                    tok(K::Point, 1, Token::Point) // "."
                }
            }
            '<' => {
                if is(a, b'<') && is(b, b'=') {
                    tok(K::BLShiftAssign, 3, Token::BLShiftAssign) // "<<="
                } else if is(a, b'<') {
                    tok(K::BLShift, 2, Token::BLShift) // "<<"
                } else if is(a, b'=') {
                    tok(K::Leq, 2, Token::Leq) // "<="
                } else {
                    tok(K::Le, 1, Token::Le) // "<"
                }
            }
            '>' => {
                if is(a, b'>') && is(b, b'=') {
                    tok(K::BRShiftAssign, 3, Token::BRShiftAssign) // ">>="
                } else if is(a, b'>') {
                    tok(K::BRShift, 2, Token::BRShift) // ">>"
                } else if is(a, b'=') {
                    tok(K::Geq, 2, Token::Geq) // ">="
                } else {
                    tok(K::Ge, 1, Token::Ge) // ">"
                }
            }
            '+' => {
                if is(a, b'=') {
                    tok(K::AddAssign, 2, Token::AddAssign) // "+="
                } else {
                    tok(K::Add, 1, Token::Add)
                }
            }
            '-' => {
                if is(a, b'=') {
                    tok(K::SubAssign, 2, Token::SubAssign) // "-="
                } else if is(a, b'>') {
                    tok(K::To, 2, Token::To) // "->"
                } else {
                    tok(K::Sub, 1, Token::Sub)
                }
            }
            '*' => {
                if is(a, b'=') {
                    tok(K::MulAssign, 2, Token::MulAssign) // "*="
                } else {
                    tok(K::Mul, 1, Token::Mul)
                }
            }
            '/' => {
                if is(a, b'=') {
                    tok(K::DivAssign, 2, Token::DivAssign) // "/="
                } else if is(a, b'/') {
                    tok(K::FDiv, 2, Token::FDiv) // "//"
                } else {
                    tok(K::Div, 1, Token::Div)
                }
            }
            '^' => {
                if is(a, b'=') {
                    tok(K::PowAssign, 2, Token::PowAssign) // "^="
                } else {
                    tok(K::Pow, 1, Token::Pow)
                }
            }
            '=' => {
                if is(a, b'>') {
                    tok(K::BTo, 2, Token::BTo) // "=>"
                } else {
                    tok(K::Eq, 1, Token::Eq)
                }
            }
            '!' => {
                if is(a, b'=') {
                    tok(K::Neq, 2, Token::Neq) // "!="
                } else {
                    Exp::Err // '!' alone is not a token
                }
            }
            ' ' => Exp::Space,
            '\n' => Exp::Newline(1),
            '\r' => {
                if is(a, b'\n') {
                    Exp::Newline(2)
                } else {
                    Exp::Err // lone carriage return
                }
            }
            _ => Exp::Err,
        }
    }

    /// What the macro-generated harness wants to put covers on.
    pub struct StepOut {
        pub ok: bool,
        pub kind: K,
        pub n: usize,
    }

    /// One call of the real `into_tokens` with concrete first character `c`, `LA` symbolic ASCII
    /// look-ahead bytes of which the first `n` (symbolic, 0..=LA) are the rest of the input.
    pub fn step_check<const LA: usize>(c: char) -> StepOut {
        // ---- inputs --------------------------------------------------------------------------
        let bytes: [u8; LA] = kani::any();
        let mut i = 0;
        while i < LA {
            kani::assume(bytes[i] < 128); // ASSUMPTION A1: look-ahead is ASCII
            i += 1;
        }
        let n: usize = kani::any();
        kani::assume(n <= LA); // A2: effective rest-of-input length 0..=LA
        let rest: &[u8] = &bytes[..n];
        // ASCII bytes are valid UTF-8 (A1); the checked constructor costs a large validation loop.
        let s: &str = unsafe { core::str::from_utf8_unchecked(rest) };
        let mut it = s.chars().peekable();

        let token_this_line: bool = kani::any();
        let p: usize = kani::any();
        kani::assume(p >= 1 && p <= 1000); // A3: caret column 1..=1000, line 1
        let before = CaretPos::new(1, p);
        // A4 (by construction): no pending newlines, cur_indent == line_indent == 1
        let mut state = VerifState::verif_new(Vec::new(), 1, 1, token_this_line, before);

        let a = if n > 0 { Some(bytes[0]) } else { None };
        let b = if n > 1 { Some(bytes[1]) } else { None };
        let exp = expect(c, a, b);

        // ---- the step ------------------------------------------------------------------------
        let res: LexResult<Vec<Lex>> = verif_into_tokens(c, &mut it, &mut state);

        // characters left in the iterator (a peeked character is handed out again by next())
        let mut left: usize = 0;
        let mut j = 0;
        while j < LA {
            if it.next().is_some() {
                left += 1;
            }
            j += 1;
        }
        assert!(left <= n, "step: iterator yields more characters than it was given");
        let consumed = 1 + (n - left);
        let (cur_indent, line_indent, ttl_after, pending) = state.verif_view();

        let mut out = StepOut { ok: false, kind: K::NoTok, n };
        match &res {
            Ok(tokens) => {
                out.ok = true;
                assert!(consumed >= 1, "step: progress");
                match exp {
                    Exp::Err => {
                        assert!(false, "step: Ok returned where an error is required");
                    }
                    Exp::Space => {
                        assert!(tokens.len() == 0, "step(space): no token returned");
                        assert!(consumed == 1, "step(space): consumes exactly the blank");
                        assert!(
                            state.pos.line == 1 && state.pos.pos == p + 1,
                            "step(space): caret one column right"
                        );
                        assert!(pending == 0, "step(space): pending newlines unchanged");
                        assert!(cur_indent == 1, "step(space): cur_indent unchanged");
                        assert!(
                            line_indent == 1 + (!token_this_line) as i32,
                            "step(space): line_indent grows iff no token on this line yet"
                        );
                        assert!(
                            ttl_after == token_this_line,
                            "step(space): token_this_line unchanged"
                        );
                    }
                    Exp::Newline(w) => {
                        assert!(tokens.len() == 0, "step(newline): no token returned");
                        assert!(
                            consumed == w,
                            "step(newline): consumes exactly the line break"
                        );
                        assert!(
                            state.pos.line == 2 && state.pos.pos == 1,
                            "step(newline): caret at start of next line"
                        );
                        assert!(pending == 1, "step(newline): one pending newline");
                        assert!(
                            cur_indent == 1 && line_indent == 1,
                            "step(newline): indents"
                        );
                        assert!(!ttl_after, "step(newline): token_this_line reset");
                    }
                    Exp::Tok(k, w, dw) => {
                        assert!(tokens.len() == 1, "step: exactly one token returned");
                        let lex = &tokens[0];
                        let got = kind_of(&lex.token);
                        out.kind = got;
                        assert!(
                            got == k,
                            "step: token kind is the longest canonical spelling at the caret"
                        );
                        assert!(
                            lex.pos.start.line == 1 && lex.pos.start.pos == p,
                            "step: token starts at the caret"
                        );
                        assert!(lex.pos.end.line == 1, "step: token ends on the same line");
                        assert!(
                            lex.pos.end.pos >= lex.pos.start.pos
                                && lex.pos.end.pos - lex.pos.start.pos == consumed,
                            "step: token position width == characters consumed"
                        );
                        assert!(
                            state.pos.line == 1 && state.pos.pos == p + consumed,
                            "step: caret advanced by characters consumed"
                        );
                        assert!(
                            w == consumed,
                            "step: characters consumed == length of canonical spelling (table)"
                        );
                        assert!(
                            dw == consumed,
                            "step: characters consumed == Token::width() (Display round trip)"
                        );
                        assert!(pending == 0, "step: no pending newlines");
                        assert!(cur_indent == 1 && line_indent == 1, "step: indents unchanged");
                        assert!(ttl_after, "step: token_this_line set");
                    }
                }
            }
            Err(e) => {
                assert!(
                    exp == Exp::Err,
                    "step: Err returned where a token / blank / newline is required"
                );
                assert!(
                    e.pos.line == 1 && e.pos.pos == p,
                    "step(err): error reported at the caret"
                );
                assert!(
                    state.pos.line == 1 && state.pos.pos == p,
                    "step(err): caret unchanged"
                );
            }
        }
        // drop glue of Token::Str(_, Vec<Vec<Lex>>) is recursive and very expensive to encode
        forget(res);
        forget(state);
        out
    }

    macro_rules! step_harness {
        ($name:ident, $la:tt, $unw:tt, $c:expr, [$($kind:ident),*], $ok:tt, $err:tt) => {
            #[kani::proof]
            #[kani::unwind($unw)]
            fn $name() {
                let out = step_check::<$la>($c);
                step_harness!(@ok $ok, out);
                step_harness!(@err $err, out);
                // (kani::cover! wants a literal message; without one it prints the condition)
                $( kani::cover!(out.kind == K::$kind); )*
                kani::cover!(out.n == 0, "cover: end of input right after first character (n == 0)");
                kani::cover!(out.n == $la, "cover: full look-ahead (n == K)");
            }
        };
        (@ok yes, $out:ident) => { kani::cover!($out.ok, "cover: Ok reached"); };
        (@ok no, $out:ident) => {};
        (@err yes, $out:ident) => { kani::cover!(!$out.ok, "cover: Err reached"); };
        (@err no, $out:ident) => {};
    }

    /// `name2 name3 : first char => [token kinds the arm can produce] ok? err?`
    macro_rules! step_family {
        ($( $n2:ident $n3:ident : $c:expr => [$($kind:ident),*] $ok:tt $err:tt ; )*) => {
            $(
                step_harness!($n2, 2, 4, $c, [$($kind),*], $ok, $err);
                step_harness!($n3, 3, 5, $c, [$($kind),*], $ok, $err);
            )*
        };
    }

    step_family! {
        step2_comma    step3_comma    : ','  => [Comma] yes no;
        step2_colon    step3_colon    : ':'  => [DoublePoint, Assign, Slice, SliceIncl] yes no;
        step2_lparen   step3_lparen   : '('  => [LRBrack] yes no;
        step2_rparen   step3_rparen   : ')'  => [RRBrack] yes no;
        step2_lbrack   step3_lbrack   : '['  => [LSBrack] yes no;
        step2_rbrack   step3_rbrack   : ']'  => [RSBrack] yes no;
        step2_lbrace   step3_lbrace   : '{'  => [LCBrack] yes no;
        step2_rbrace   step3_rbrace   : '}'  => [RCBrack] yes no;
        step2_bar      step3_bar      : '|'  => [Ver] yes no;
        step2_dot      step3_dot      : '.'  => [Point, Range, RangeIncl] yes no;
        step2_lt       step3_lt       : '<'  => [Le, Leq, BLShift, BLShiftAssign] yes no;
        step2_gt       step3_gt       : '>'  => [Ge, Geq, BRShift, BRShiftAssign] yes no;
        step2_plus     step3_plus     : '+'  => [Add, AddAssign] yes no;
        step2_minus    step3_minus    : '-'  => [Sub, SubAssign, To] yes no;
        step2_star     step3_star     : '*'  => [Mul, MulAssign] yes no;
        step2_slash    step3_slash    : '/'  => [Div, DivAssign, FDiv] yes no;
        step2_bslash   step3_bslash   : '\\' => [BSlash] yes no;
        step2_caret    step3_caret    : '^'  => [Pow, PowAssign] yes no;
        step2_eq       step3_eq       : '='  => [Eq, BTo] yes no;
        step2_bang     step3_bang     : '!'  => [Neq] yes yes;
        step2_question step3_question : '?'  => [Question] yes no;
        step2_space    step3_space    : ' '  => [] yes no;
        step2_nl       step3_nl       : '\n' => [] yes no;
        step2_cr       step3_cr       : '\r' => [] yes yes;
    }

    /// Characters that start some arm of `into_tokens`.
    fn handled_first_char(c: char) -> bool {
        matches!(
            c,
            'a'..='z'
                | 'A'..='Z'
                | '0'..='9'
                | '_'
                | '"'
                | '#'
                | ' '
                | '\n'
                | '\r'
                | ','
                | ':'
                | '('
                | ')'
                | '['
                | ']'
                | '{'
                | '}'
                | '|'
                | '.'
                | '<'
                | '>'
                | '+'
                | '-'
                | '*'
                | '/'
                | '\\'
                | '^'
                | '='
                | '!'
                | '?'
        )
    }

    // Stubs for `step_other_char` (needs `-Z stubbing`). A symbolic first character makes CBMC
    // encode every arm of `into_tokens`, and the identifier / number / string / comment arms are
    // what makes that infeasible (> 10 min, > 10 GB). Under assumption A5 none of these arms may be
    // taken, so none may ever create a token or lex an f-string expression: the two functions they
    // all end in are replaced by stubs that FAIL when reached. A successful run therefore shows the
    // stubs are never called, i.e. the real code behaves identically.
    fn stub_state_token(_state: &mut VerifState, token: Token) -> Vec<Lex> {
        assert!(false, "step_other_char: State::token reached for an unhandled first character");
        forget(token);
        Vec::new()
    }

    fn stub_tokenize_direct(_input: &str) -> LexResult<Vec<Lex>> {
        assert!(false, "step_other_char: tokenize_direct reached for an unhandled first character");
        Ok(Vec::new())
    }

    fn stub_format(_args: core::fmt::Arguments<'_>) -> String {
        String::new()
    }

    /// Any other first character (any Unicode scalar value) at end of input: Err, no panic.
    #[kani::proof]
    #[kani::unwind(6)]
    #[kani::stub(std::fmt::format, stub_format)]
    #[kani::stub(mamba::parse::lex::state::State::token, stub_state_token)]
    #[kani::stub(mamba::parse::lex::tokenize_direct, stub_tokenize_direct)]
    fn step_other_char() {
        let c: char = kani::any();
        kani::assume(!handled_first_char(c)); // A5: c starts no arm
        let mut it = "".chars().peekable();
        let mut state = VerifState::new();
        let res = verif_into_tokens(c, &mut it, &mut state);
        assert!(res.is_err(), "step_other_char: unrecognised character is an error");
        if let Err(e) = &res {
            assert!(
                e.pos.line == 1 && e.pos.pos == 1,
                "step_other_char: error reported at the caret"
            );
        }
        assert!(
            state.pos.line == 1 && state.pos.pos == 1,
            "step_other_char: caret unchanged"
        );
        kani::cover!(c as u32 > 127, "cover: non-ASCII character");
        kani::cover!(c as u32 > 0xffff, "cover: character outside the BMP");
        kani::cover!((c as u32) < 32, "cover: control character");
        kani::cover!(c == ';', "cover: ';'");
        forget(res);
        forget(state);
    }

    // ==========================================================================================
    // B. State one-step summaries
    // ==========================================================================================
    //
    // Shape of these harnesses (measured): as soon as the *content* of the returned Vec<Lex> is
    // read, symbolic indentation widths make every `vec![lex; amount]` / `append` an allocation of
    // symbolic size; CBMC then models the buffers with its array theory and runs out of 12 GB in
    // post-processing (also with --solver z3), even for one symbolic read index and no pending
    // newlines. (Length-and-state-only assertions on symbolic widths do go through, 55-80 s, but
    // say nothing about order.) Therefore cur_indent, line_indent and the number of pending
    // newlines are ENUMERATED by concrete loops inside the harness - every value of the bound,
    // D levels, arbitrary (not multiple-of-4) widths - while caret line/column and
    // token_this_line stay symbolic. Every loop iteration is exactly one call from a fresh state.

    /// Maximum block depth considered: indentation widths range over [1, 4*D + 1].
    pub const D: usize = 3;
    pub const MAX_INDENT: i32 = 4 * (D as i32) + 1;
    /// Pending newlines considered: 0..=MAX_PENDING.
    pub const MAX_PENDING: usize = 2;
    /// Largest possible result of `State::token`: pending + D (in|de)dents + 1 NL + 1 token.
    pub const MAX_RES: usize = MAX_PENDING + D + 1 + 1;
    /// Line numbers of the pre-seeded pending newlines: distinct from each other and from any
    /// caret line (<= 1000), so their order in the result can be told apart.
    pub const PENDING_LINE: usize = 2000;

    /// State before the call.
    #[derive(Clone, Copy)]
    pub struct Pre {
        pub c: i32,
        pub l: i32,
        pub ttl: bool,
        pub k: usize,
        pub pos: CaretPos,
    }

    fn pending_nl(i: usize) -> Lex {
        let at = CaretPos::new(PENDING_LINE + i, 1);
        Lex {
            pos: Position { start: at, end: at },
            token: Token::NL,
        }
    }

    /// Symbolic part of the start state: caret anywhere in 1000 x 1000, token_this_line free.
    pub fn any_caret_and_flag() -> (CaretPos, bool) {
        let line: usize = kani::any();
        let col: usize = kani::any();
        kani::assume(line >= 1 && line <= 1000); // B1
        kani::assume(col >= 1 && col <= 1000); // B2
        let ttl: bool = kani::any();
        (CaretPos::new(line, col), ttl)
    }

    /// The state described by `pre`; pending newline i sits at (PENDING_LINE + i, 1).
    pub fn mk_state(pre: &Pre) -> VerifState {
        let mut newlines: Vec<Lex> = Vec::with_capacity(MAX_PENDING + 1);
        // no loop here: with a symbolic k a loop costs minutes (measured), an if-chain does not
        if pre.k >= 1 {
            newlines.push(pending_nl(0));
        }
        if pre.k >= 2 {
            newlines.push(pending_nl(1));
        }
        assert!(pre.k <= 2 && MAX_PENDING == 2, "mk_state: if-chain matches MAX_PENDING");
        VerifState::verif_new(newlines, pre.c, pre.l, pre.ttl, pre.pos)
    }

    /// Nesting level of a 1-based indentation width: 1..=4 -> 0, 5..=8 -> 1, ...
    fn level(w: i32) -> usize {
        ((w - 1) / 4) as usize
    }

    fn at(lex: &Lex, p: CaretPos) -> bool {
        lex.pos.start.line == p.line && lex.pos.start.pos == p.pos
    }

    fn is_pending(lex: &Lex, i: usize) -> bool {
        kind_of(&lex.token) == K::NL
            && lex.pos.start.line == PENDING_LINE + i
            && lex.pos.start.pos == 1
    }

    /// Post-condition of `State::token(t)` for a non-NL token `t` of kind `kind` and width `w`.
    ///
    /// Result layout (state.rs): [last pending NL]? ++ (Indent^a | Dedent^a ++ NL) ++
    /// [remaining pending NLs in order] ++ [t], where a = |level(l) - level(c)|,
    /// level(w) = (w - 1) / 4.
    fn check_token_post(res: &Vec<Lex>, state: &VerifState, pre: &Pre, kind: K, w: usize) {
        let up = pre.l >= pre.c;
        let amount: usize = if up {
            level(pre.l) - level(pre.c)
        } else {
            level(pre.c) - level(pre.l)
        };
        let extra_nl: usize = if up { 0 } else { 1 };
        let first: usize = if pre.k >= 1 { 1 } else { 0 }; // the popped newline
        let remaining: usize = pre.k - first;
        let expected_len = pre.k + amount + extra_nl + 1;
        assert!(res.len() == expected_len, "token: number of tokens returned");
        assert!(res.len() <= MAX_RES, "token: result length within bound");

        let mut indents: usize = 0;
        let mut dedents: usize = 0;
        let mut i: usize = 0;
        // (bound by expected_len == res.len(): a value CBMC knows to be concrete)
        while i < expected_len {
            let lex = &res[i];
            let kd = kind_of(&lex.token);
            if kd == K::Indent {
                indents += 1;
            }
            if kd == K::Dedent {
                dedents += 1;
            }
            if i < first {
                assert!(
                    is_pending(lex, pre.k - 1),
                    "token: first the most recent pending newline"
                );
            } else if i < first + amount {
                assert!(
                    kd == (if up { K::Indent } else { K::Dedent }),
                    "token: then |level(l)-level(c)| Indent (l >= c) or Dedent (l < c)"
                );
                assert!(at(lex, pre.pos), "token: Indent/Dedent positioned at the caret");
            } else if i < first + amount + extra_nl {
                assert!(
                    kd == K::NL && at(lex, pre.pos),
                    "token: a newline at the caret closes the dedents"
                );
            } else if i < first + amount + extra_nl + remaining {
                assert!(
                    is_pending(lex, i - (first + amount + extra_nl)),
                    "token: then the remaining pending newlines in order"
                );
            } else {
                assert!(i + 1 == res.len(), "token: the token itself is last");
                assert!(kd == kind, "token: kind of the token itself");
                assert!(at(lex, pre.pos), "token: token starts at the caret");
                assert!(
                    lex.pos.end.line == pre.pos.line && lex.pos.end.pos == pre.pos.pos + w,
                    "token: token ends width columns further"
                );
            }
            i += 1;
        }
        assert!(
            indents == if up { amount } else { 0 },
            "token: number of Indent tokens == level(l)-level(c) if l >= c else 0"
        );
        assert!(
            dedents == if up { 0 } else { amount },
            "token: number of Dedent tokens == level(c)-level(l) if l < c else 0"
        );

        let (c2, l2, ttl2, pending2) = state.verif_view();
        assert!(c2 == pre.l, "token: cur_indent becomes line_indent");
        assert!(l2 == pre.l, "token: line_indent unchanged");
        assert!(ttl2, "token: token_this_line set");
        assert!(pending2 == 0, "token: pending newlines flushed");
        assert!(
            state.pos.line == pre.pos.line && state.pos.pos == pre.pos.pos + w,
            "token: caret advanced by token width on the same line"
        );

        // No kani::cover! here: the callers enumerate concrete cases, so reachability is by
        // construction, and CBMC builds one trace per satisfied cover instance over the whole
        // unrolled program (measured: 104 instances = +140 s per harness).
    }

    /// Content and order of what `State::token` returns, for one concrete cur_indent `c` and one
    /// concrete number `k` of pending newlines: every line_indent of the bound (enumerated) x
    /// symbolic caret / flag, one `State::token(mk())` from a fresh state each.
    ///
    /// Measured (per case ~90k symex steps, ~6 s, ~0.2 GB): all 13 x 13 x 3 cases in one harness
    /// and 13 x 3 cases in one harness both ran out of 12 GB; 13 cases per harness fit.
    /// These harnesses need `--cbmc-args --max-field-sensitivity-array-size 1024`: a Vec<Lex>
    /// buffer is a byte array of 88 * capacity bytes, CBMC's default field sensitivity stops at
    /// 64 elements, constants stop propagating through the buffer (e.g. the Option discriminant of
    /// the popped newline), allocation sizes turn symbolic and one single case with k > 0 runs the
    /// solver out of memory; with the option the same case takes 6 s.
    fn order_summary<F: Fn() -> Token>(c: i32, k: usize, mk: F, kind: K, w: usize) {
        let (pos, ttl) = any_caret_and_flag();
        let mut l: i32 = 1;
        while l <= MAX_INDENT {
            let pre = Pre { c, l, ttl, k, pos };
            let mut state = mk_state(&pre);
            let res = state.token(mk());
            check_token_post(&res, &state, &pre, kind, w);
            forget(res);
            forget(state);
            l += 1;
        }
    }

    macro_rules! order_summaries {
        ($( $c:literal : $k0:ident $k1:ident $k2:ident $( + $comment:ident )? ; )*) => {
            $(
                #[kani::proof]
                #[kani::unwind(15)]
                fn $k0() {
                    order_summary($c, 0, || Token::Pass, K::Pass, 4);
                }

                #[kani::proof]
                #[kani::unwind(15)]
                fn $k1() {
                    order_summary($c, 1, || Token::Pass, K::Pass, 4);
                }

                #[kani::proof]
                #[kani::unwind(15)]
                fn $k2() {
                    order_summary($c, 2, || Token::Pass, K::Pass, 4);
                }

                $(
                    /// token with a payload; the order logic does not depend on the token, so
                    /// only the most general pending count (one popped + one remaining newline)
                    /// and only three cur_indent values (lowest, a non-multiple of 4, highest)
                    #[kani::proof]
                    #[kani::unwind(15)]
                    fn $comment() {
                        order_summary($c, 2, || Token::Comment(String::from("c")), K::Comment, 2);
                    }
                )?
            )*
            /// the macro rows are exactly 1..=MAX_INDENT (checked in `state_token_pass`)
            const ORDER_SUMMARY_ROWS: &[i32] = &[$($c),*];
        };
    }

    order_summaries! {
        1  : state_order_pass_c01_k0 state_order_pass_c01_k1 state_order_pass_c01_k2 + state_order_comment_c01;
        2  : state_order_pass_c02_k0 state_order_pass_c02_k1 state_order_pass_c02_k2;
        3  : state_order_pass_c03_k0 state_order_pass_c03_k1 state_order_pass_c03_k2;
        4  : state_order_pass_c04_k0 state_order_pass_c04_k1 state_order_pass_c04_k2;
        5  : state_order_pass_c05_k0 state_order_pass_c05_k1 state_order_pass_c05_k2;
        6  : state_order_pass_c06_k0 state_order_pass_c06_k1 state_order_pass_c06_k2 + state_order_comment_c06;
        7  : state_order_pass_c07_k0 state_order_pass_c07_k1 state_order_pass_c07_k2;
        8  : state_order_pass_c08_k0 state_order_pass_c08_k1 state_order_pass_c08_k2;
        9  : state_order_pass_c09_k0 state_order_pass_c09_k1 state_order_pass_c09_k2;
        10 : state_order_pass_c10_k0 state_order_pass_c10_k1 state_order_pass_c10_k2;
        11 : state_order_pass_c11_k0 state_order_pass_c11_k1 state_order_pass_c11_k2;
        12 : state_order_pass_c12_k0 state_order_pass_c12_k1 state_order_pass_c12_k2;
        13 : state_order_pass_c13_k0 state_order_pass_c13_k1 state_order_pass_c13_k2 + state_order_comment_c13;
    }

    /// `State::token(Pass)` from a fully symbolic state (cur_indent, line_indent, pending, caret,
    /// flag all symbolic): number of tokens returned and the state afterwards only - the arithmetic
    /// of the level formula over the whole bound in one query. Content and order of the returned
    /// tokens: `state_order_pass_cNN_kK`.
    #[kani::proof]
    #[kani::unwind(5)]
    fn state_token_pass() {
        assert!(
            ORDER_SUMMARY_ROWS.len() == MAX_INDENT as usize
                && ORDER_SUMMARY_ROWS[0] == 1
                && ORDER_SUMMARY_ROWS[MAX_INDENT as usize - 1] == MAX_INDENT,
            "state_order_* harnesses cover cur_indent 1..=MAX_INDENT"
        );
        let (mut state, pre) = any_state();
        let res = state.token(Token::Pass);
        check_token_len_and_state(&res, &state, &pre, 4);
        forget(res);
        forget(state);
    }

    /// Same for a token with a payload (`Comment("c")`, spelled `#c`, width 2).
    #[kani::proof]
    #[kani::unwind(5)]
    fn state_token_comment() {
        let (mut state, pre) = any_state();
        let res = state.token(Token::Comment(String::from("c")));
        check_token_len_and_state(&res, &state, &pre, 2);
        forget(res);
        forget(state);
    }

    fn check_token_len_and_state(res: &Vec<Lex>, state: &VerifState, pre: &Pre, w: usize) {
        let up = pre.l >= pre.c;
        let amount: usize = if up {
            level(pre.l) - level(pre.c)
        } else {
            level(pre.c) - level(pre.l)
        };
        let extra_nl: usize = if up { 0 } else { 1 };
        assert!(
            res.len() == pre.k + amount + extra_nl + 1,
            "token: number of tokens returned"
        );
        let (c2, l2, ttl2, pending2) = state.verif_view();
        assert!(c2 == pre.l, "token: cur_indent becomes line_indent");
        assert!(l2 == pre.l, "token: line_indent unchanged");
        assert!(ttl2, "token: token_this_line set");
        assert!(pending2 == 0, "token: pending newlines flushed");
        assert!(
            state.pos.line == pre.pos.line && state.pos.pos == pre.pos.pos + w,
            "token: caret advanced by token width on the same line"
        );
        kani::cover!(pre.l > pre.c, "cover: l > c");
        kani::cover!(pre.l < pre.c, "cover: l < c");
        kani::cover!(pre.l == pre.c, "cover: l == c");
        kani::cover!(pre.k == MAX_PENDING, "cover: k == 2");
        kani::cover!(up && amount == D, "cover: D indents at once");
        kani::cover!(!up && amount == D, "cover: D dedents at once");
        kani::cover!(res.len() == MAX_RES, "cover: longest result");
    }


    /// Symbolic state for the summaries that never read vector contents.
    pub fn any_state() -> (VerifState, Pre) {
        let c: i32 = kani::any();
        let l: i32 = kani::any();
        kani::assume(c >= 1 && c <= MAX_INDENT); // B3: 1 <= cur_indent <= 4*D+1
        kani::assume(l >= 1 && l <= MAX_INDENT); // B4: 1 <= line_indent <= 4*D+1
        let k: usize = kani::any();
        kani::assume(k <= MAX_PENDING); // B5: 0..=2 pending newlines
        let (pos, ttl) = any_caret_and_flag();
        let pre = Pre { c, l, ttl, k, pos };
        (mk_state(&pre), pre)
    }

    #[kani::proof]
    #[kani::unwind(5)]
    fn state_token_nl() {
        let (mut state, pre) = any_state();
        let res = state.token(Token::NL);
        assert!(res.len() == 0, "token(NL): nothing returned");
        let (c2, l2, ttl2, pending2) = state.verif_view();
        assert!(pending2 == pre.k + 1, "token(NL): one more pending newline");
        assert!(l2 == 1, "token(NL): line_indent reset to 1");
        assert!(!ttl2, "token(NL): token_this_line reset");
        assert!(c2 == pre.c, "token(NL): cur_indent unchanged");
        assert!(
            state.pos.line == pre.pos.line + 1 && state.pos.pos == 1,
            "token(NL): caret at start of next line"
        );
        kani::cover!(pre.k == MAX_PENDING, "cover: k == 2");
        kani::cover!(pre.k == 0, "cover: k == 0");
        kani::cover!(pre.ttl, "cover: token_this_line before");
        kani::cover!(pre.l > pre.c, "cover: l > c");
        kani::cover!(pre.l < pre.c, "cover: l < c");
        forget(res);
        forget(state);
    }

    #[kani::proof]
    #[kani::unwind(5)]
    fn state_space() {
        let (mut state, pre) = any_state();
        state.space();
        let (c2, l2, ttl2, pending2) = state.verif_view();
        assert!(
            state.pos.line == pre.pos.line && state.pos.pos == pre.pos.pos + 1,
            "space: caret one column right"
        );
        assert!(
            l2 == pre.l + (!pre.ttl) as i32,
            "space: line_indent grows iff no token on this line yet"
        );
        assert!(c2 == pre.c, "space: cur_indent unchanged");
        assert!(ttl2 == pre.ttl, "space: token_this_line unchanged");
        assert!(pending2 == pre.k, "space: pending newlines unchanged");
        kani::cover!(pre.ttl, "cover: token_this_line");
        kani::cover!(!pre.ttl, "cover: !token_this_line");
        kani::cover!(pre.k == MAX_PENDING, "cover: k == 2");
        kani::cover!(pre.l > pre.c, "cover: l > c");
        kani::cover!(pre.l < pre.c, "cover: l < c");
        forget(state);
    }

    /// `flush_indents` from every cur_indent of the bound (enumerated, see above), the rest of the
    /// state symbolic.
    #[kani::proof]
    #[kani::unwind(15)]
    fn state_flush() {
        let (pos, ttl) = any_caret_and_flag();
        let l: i32 = kani::any();
        kani::assume(l >= 1 && l <= MAX_INDENT); // B4
        let k: usize = kani::any();
        kani::assume(k <= MAX_PENDING); // B5
        let mut c: i32 = 1;
        while c <= MAX_INDENT {
            let pre = Pre { c, l, ttl, k, pos };
            let mut state = mk_state(&pre);
            let res = state.flush_indents();
            let amount = level(c);
            assert!(res.len() == amount, "flush: level(cur_indent) Dedent tokens returned");
            let mut i = 0;
            while i < res.len() {
                let lex = &res[i];
                assert!(
                    kind_of(&lex.token) == K::Dedent && at(lex, pos),
                    "flush: every token is a Dedent at the caret"
                );
                assert!(
                    lex.pos.end.line == pos.line && lex.pos.end.pos == pos.pos,
                    "flush: Dedent has zero width"
                );
                i += 1;
            }
            let (c2, l2, ttl2, pending2) = state.verif_view();
            assert!(c2 == 1, "flush: cur_indent becomes 1");
            assert!(l2 == l, "flush: line_indent unchanged");
            assert!(ttl2 == ttl, "flush: token_this_line unchanged");
            assert!(pending2 == k, "flush: pending newlines unchanged");
            assert!(
                state.pos.line == pos.line && state.pos.pos == pos.pos,
                "flush: caret unchanged"
            );
            forget(res);
            forget(state);
            c += 1;
        }
        kani::cover!(k == MAX_PENDING && l == MAX_INDENT, "cover: k == 2, l == max");
    }

    // ==========================================================================================
    // C. name tables
    // ==========================================================================================

    /// Maximum identifier length of `table_as_op_or_id` (6: ~2.5 min; the two longer keywords
    /// `forward`, `continue` are checked concretely in `table_long_names`).
    pub const ID_MAX: usize = 6;
    /// Maximum identifier length of `table_concrete_to_python`: the longest table entry,
    /// "Collection".
    pub const PY_ID_MAX: usize = 10;

    fn ident_byte(b: u8) -> bool {
        (b >= b'a' && b <= b'z') || (b >= b'A' && b <= b'Z') || (b >= b'0' && b <= b'9') || b == b'_'
    }

    /// Symbolic identifier-like string: n <= N bytes out of [A-Za-z0-9_].
    fn any_ident<const N: usize>(bytes: &mut [u8; N]) -> &str {
        let mut i = 0;
        while i < N {
            let b: u8 = kani::any();
            kani::assume(ident_byte(b)); // C1: identifier characters only
            bytes[i] = b;
            i += 1;
        }
        let n: usize = kani::any();
        kani::assume(n <= N); // C2: length 0..=N
        unsafe { core::str::from_utf8_unchecked(&bytes[..n]) }
    }

    /// Mamba type name -> Python name. Hand-written. /repo/docs contains no Mamba->Python name
    /// table (docs only *use* Int, Float, Bool, Complex, Set, List, Tuple, None, Exception, and say
    /// `String` where the implementation says `Str`), so the left column is taken from the
    /// constants in src/check/context/clss/mod.rs and the right column is the Python built-in /
    /// `typing` name one has to write in Python source for it.
    macro_rules! python_name_table {
        ($s:ident; $( $mamba:literal => $py:literal ),* $(,)?) => {
            $( if $s.as_bytes() == $mamba.as_bytes() { Some($py) } else )* { None }
        };
    }

    fn expected_python_name(s: &str) -> Option<&'static str> {
        python_name_table!(s;
            "Int" => "int",
            "Float" => "float",
            "Str" => "str",
            "Bool" => "bool",
            "Enum" => "enum",
            "Complex" => "complex",
            "Collection" => "collection",
            "Range" => "range",
            "Slice" => "slice",
            "Set" => "set",
            "List" => "list",
            "Dict" => "dict",
            "Tuple" => "Tuple",
            "Callable" => "Callable",
            "Union" => "Union",
            "Any" => "Any",
            "None" => "None",
            "Exception" => "Exception",
        )
    }

    #[kani::proof]
    #[kani::unwind(12)]
    fn table_concrete_to_python() {
        let mut bytes = [0u8; PY_ID_MAX];
        let s = any_ident::<PY_ID_MAX>(&mut bytes);
        let r = concrete_to_python(s);
        match expected_python_name(s) {
            Some(py) => {
                assert!(
                    r.as_bytes() == py.as_bytes(),
                    "concrete_to_python: Mamba built-in name maps to its Python name"
                );
            }
            None => {
                assert!(
                    r.as_bytes() == s.as_bytes(),
                    "concrete_to_python: any other name is unchanged"
                );
            }
        }
        kani::cover!(s.as_bytes() == b"Int", "cover: Int");
        kani::cover!(s.as_bytes() == b"Float", "cover: Float");
        kani::cover!(s.as_bytes() == b"Tuple", "cover: Tuple");
        kani::cover!(s.as_bytes() == b"Collection", "cover: Collection");
        kani::cover!(s.len() == PY_ID_MAX, "cover: longest identifier");
        kani::cover!(s.len() == 0, "cover: empty");
        forget(r);
    }

    /// Keyword spelling -> token kind. Hand-written from docs/spec/keywords.md; entries marked
    /// `impl` are not in that document and come from tokenize.rs `as_op_or_id`.
    macro_rules! keyword_table {
        ($s:ident; $( $kw:literal => $kind:ident ),* $(,)?) => {
            $( if $s.as_bytes() == $kw.as_bytes() {
                // width() on a fresh concrete token of that kind, see `tok` above
                let t = Token::$kind;
                let w = t.width();
                forget(t);
                Some((K::$kind, w))
            } else )* { None }
        };
    }

    /// keyword spelling -> (token kind, `Token::width()` of that kind)
    fn expected_keyword(s: &str) -> Option<(K, usize)> {
        keyword_table!(s;
            "from" => From,
            "import" => Import,
            "as" => As,
            "type" => Type,
            "class" => Class,
            "isa" => IsA,
            "when" => When,
            "forward" => Forward,
            "def" => Def,
            "fin" => Fin,
            "pure" => Pure,
            "vararg" => Vararg,
            "not" => Not,
            "and" => And,
            "or" => Or,
            "is" => Is,
            "_and_" => BAnd,
            "_or_" => BOr,
            "_xor_" => BXOr,
            "_not_" => BOneCmpl,
            "mod" => Mod,
            "sqrt" => Sqrt,
            "if" => If,
            "then" => Then,
            "else" => Else,
            "match" => Match,
            "while" => While,
            "for" => For,
            "in" => In,
            "do" => Do,
            "continue" => Continue,
            "break" => Break,
            "return" => Ret,
            "pass" => Pass,
            "handle" => Handle,
            "raise" => Raise,
            "with" => With,      // impl
            "_" => Underscore,   // impl
        )
    }

    #[kani::proof]
    #[kani::unwind(8)]
    fn table_as_op_or_id() {
        let mut bytes = [0u8; ID_MAX];
        let s = any_ident::<ID_MAX>(&mut bytes);
        let tok = verif_as_op_or_id(String::from(s));
        let got = kind_of(&tok);
        match expected_keyword(s) {
            Some((k, width)) => {
                assert!(got == k, "as_op_or_id: keyword spelling gives its keyword token");
                assert!(
                    width == s.len(),
                    "as_op_or_id: keyword token's canonical spelling has the input's length"
                );
            }
            None => {
                assert!(got == K::Id, "as_op_or_id: anything else is an identifier");
                if let Token::Id(id) = &tok {
                    assert!(
                        id.as_bytes() == s.as_bytes(),
                        "as_op_or_id: identifier text unchanged"
                    );
                }
            }
        }
        kani::cover!(got == K::Id, "cover: identifier");
        kani::cover!(got == K::Underscore, "cover: _");
        kani::cover!(got == K::Import, "cover: import (6 characters)");
        kani::cover!(got == K::BXOr, "cover: _xor_");
        kani::cover!(got == K::As, "cover: as");
        kani::cover!(s.len() == 0, "cover: empty");
        forget(tok);
    }

    /// The table entries longer than ID_MAX, concretely (keywords `forward`, `continue`).
    #[kani::proof]
    #[kani::unwind(10)]
    fn table_long_names() {
        let t = verif_as_op_or_id(String::from("forward"));
        assert!(kind_of(&t) == K::Forward, "as_op_or_id: forward");
        assert!(expected_keyword("forward") == Some((K::Forward, 7)), "table: forward, width 7");
        forget(t);
        let t = verif_as_op_or_id(String::from("continue"));
        assert!(kind_of(&t) == K::Continue, "as_op_or_id: continue");
        assert!(expected_keyword("continue") == Some((K::Continue, 8)), "table: continue, width 8");
        forget(t);
        // one character more or less is an identifier again
        let t = verif_as_op_or_id(String::from("forwards"));
        assert!(kind_of(&t) == K::Id, "as_op_or_id: forwards is an identifier");
        forget(t);
        let t = verif_as_op_or_id(String::from("continu"));
        assert!(kind_of(&t) == K::Id, "as_op_or_id: continu is an identifier");
        forget(t);
    }
}
