"""Shared E2 encodings of the position / diagnostic-rendering kernels (used by C19, C03, C18)."""
import re
import z3

import e2
from e2 import conj, disj
from mirsym import Exec, State, Opq, Agg, Ref, StrC, Val, Unsupported, Fork, _deref_val

RESULT_RS = "src/common/result.rs"
POSITION_RS = "src/common/position.rs"
LEXRESULT_RS = "src/parse/lex/result.rs"

MAXC = (1 << 31) - 2       # bound on line / column values
MAXL = 1 << 20             # bound on number of source lines


def m_lines_nth(ex, st, fr, callee, args, argtys, dty):
    """<Lines as Iterator>::nth(i): Some(line i) iff i < number of lines (documented contract)."""
    it = ex.to_val(st, args[0])
    idx = args[1]
    L = ex.uf("linecount", Val, z3.BitVecSort(64))(it)
    line = ex.uf("line_at", Val, z3.BitVecSort(64), Val)(it, idx)
    st.events.append({"callee": callee, "name": "Iterator::nth", "args": args,
                      "argvals": [it, ex.to_val(st, idx)], "ret": None, "idx": idx, "lines": it,
                      "in": ex.canon_item(fr.fn), "depth": len(st.frames), "ncond": len(st.cond)})
    return Fork([(z3.ULT(idx, L), Agg("Option", "Some", [Opq(line, "&str")])),
                 (z3.Not(z3.ULT(idx, L)), Agg("Option", "None", []))])


def m_from_utf8(ex, st, fr, callee, args, argtys, dty):
    return Agg("Result", "Ok", [Opq(ex.uf("utf8", Val, Val)(ex.to_val(st, args[0])), "String")])


POS_MODELS = [
    (r"^<std::str::Lines<'_> as Iterator>::nth$", m_lines_nth),
    (r"^std::string::String::from_utf8$", m_from_utf8),
]

POS_INLINE = [r"Position::invisible$", r"Position::get_width$", r"CaretPos::new$", r"Position::new$",
              r"<position::Position as PartialEq>::eq$", r"<CaretPos as PartialEq>::eq$",
              r"<(common::)?position::Position as PartialEq>::(eq|ne)$", r"<(common::position::)?CaretPos as PartialEq>::(eq|ne)$"]


def sym_pos(tag):
    v = [z3.BitVec(f"{tag}.{n}", 64) for n in ("start.line", "start.pos", "end.line", "end.pos")]
    return Agg("Position", None, [Agg("CaretPos", None, v[0:2]), Agg("CaretPos", None, v[2:4])]), v


def valid_pos(v, maxc=MAXC):
    sl, sp, el, ep = v
    inv = z3.And(sl == 0, sp == 0, el == 0, ep == 0)
    rng = z3.And(*[z3.And(z3.UGE(x, 1), z3.ULE(x, maxc)) for x in v])
    return z3.Or(inv, rng)


def linecount_of(ex, st, src_ref_or_val):
    """Term for the number of lines of `source` as the nth-model sees it."""
    return None


def run_format_location(run, mir, with_src=True):
    fn = e2.find1(mir, file=RESULT_RS, name="format_location")
    ex = Exec(mir, inline=POS_INLINE, models=POS_MODELS, max_paths=20000)
    st = State()
    pos, v = sym_pos("pos")
    f = Ref(ex.new_cell(st, Opq(z3.Const("f", Val), "Formatter")))
    off = z3.BitVec("offset", 64)
    msg = Opq(z3.Const("msg", Val), "Option<&str>")
    srcs = Opq(z3.Const("source.text", Val), "String")
    src_some = z3.Bool("source.is_some")
    srcv = Opq(z3.Const("source", Val), "Option<String>",
               {("d",): z3.If(src_some, z3.IntVal(1), z3.IntVal(0)),
                ("v", "Some"): Agg("Option", "Some", [srcs])})
    src = Ref(ex.new_cell(st, srcv))
    ends = e2.run_kernel(run, ex, fn, [f, off, msg, pos, src], st)
    return ex, st, ends, dict(pos=v, offset=off, src_some=src_some, srcs=srcs)


def lines_term(ex, st, srcs):
    return ex.app("lines", [srcs], "Lines", st)
