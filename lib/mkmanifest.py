#!/opt/veriftools/pyvenv/bin/python
"""Regenerates MANIFEST.json from the table below (keeps it valid and consistent)."""
import json
import os

V = os.path.dirname(os.path.dirname(os.path.abspath(__file__)))

CHECKS = {
    "C06": dict(
        engine="E2 mirsym (MIR -> z3)", technique="symbolic execution of rustc MIR, SMT (z3) validity queries, native replay of models",
        text="Bounded symbolic model checking of the nullable-comparison kernels: every acyclic MIR path of "
             "TrueName::is_superset_of (accessors inlined), as_nullable, Name::is_nullable/is_null and their "
             "closures, Name::union and its filter closure is executed symbolically; the documented nullable rule "
             "is asserted for all values of the flags and callee results; the `?` operator demands a left operand that admits None and "
             "the None literal is constrained as undefined; z3 answers unsat or gives a model that is "
             "replayed through the natively built transpiler before it is reported.",
        note="Kernels only: that every consuming position of the language reaches this comparison is outside the "
             "claim. Uninterpreted: StringName-level tests, HashSet and iterator adaptors. Clone = identity. "
             "Trusted: rustc's MIR dump, mirsym's MIR semantics, z3.",
        design="§4 C06"),
}

CHECKS["C19"] = dict(
    engine="E2 mirsym (MIR -> z3)", technique="symbolic execution of rustc MIR (overflow checks on), SMT (z3) queries over 64-bit bit-vectors, native replay",
    text="Bounded symbolic model checking of the diagnostic rendering kernel: format_location with its three closures, "
         "Position::get_width/invisible inlined, LexErr::fmt and Position::union are executed path by path with the "
         "position, offset and number of source lines as free bit-vectors; z3 decides panic-freedom, that the quoted "
         "line is line pos.start.line printed with that number, the caret run, containment of union, and the CaretPos "
         "re-basing arithmetic that places interpolation tokens inside their string.",
    note="Bounds: coordinates <= 2^31-2 and >= 1 (or invisible), <= 2^20 source lines, offset <= 1. str::lines().nth "
         "and String::from_utf8 are contract stubs; fmt machinery uninterpreted. Not claimed: fault-line localisation (whole checker); errors built "
         "outside mamba_to_python's three stages (Context::try_from carries no file).",
    design="§4 C19")
CHECKS["C18"] = dict(
    engine="E2 mirsym (MIR -> z3) + E1 kani", technique="symbolic execution of rustc MIR + z3 (State summaries, inductive loop invariants, one symbolic lexer step over an arbitrary ASCII stream); Kani/CBMC harnesses for the fixed-width lexer steps, State methods and keyword table",
    text="Bounded symbolic model checking of the lexer kernels: State::token/newline/space/flush_indents, Lex::new and "
         "CaretPos arithmetic from MIR over the whole integer range (<= 2^20 coordinates) with an abstract sequence "
         "model for Vec; one call of into_tokens with the first character symbolic over an arbitrary ASCII stream "
         "(scanning loops by inductive invariants): span = characters consumed, caret advanced by exactly those; "
         "Indent/Dedent balance by an inductive step over the extracted counts (any number of lines, any widths); "
         "Kani decides the same step facts on the compiled code for the fixed-width token starts.",
    note="Token::width comes from the source-extracted Display templates; the iterator and String are contract models "
         "(ASCII: bytes = chars). Whole-tokenize runs, the Eof rule, re-lexing of interpolations, the doc-string pass, "
         "the column after a multi-line string and consumers of positions are outside the claim.",
    design="§4 C18")

CHECKS["C03"] = dict(
    engine="E2 mirsym (MIR -> z3) + E1 kani", technique="symbolic execution of rustc MIR with overflow checks, z3 unreachability of every panic path (incl. the whole lexer step over an arbitrary ASCII stream); Kani/CBMC harnesses for lexer steps",
    text="Bounded symbolic model checking of panic-freedom for the position, lexer-state and diagnostic rendering "
         "kernels: every overflow assert, unwrap/expect and cast of format_location (+closures), format_err, "
         "State::token/space/flush_indents, Lex::new, Position::get_width and of one whole lexer step (into_tokens, first character symbolic) is a path end; z3 shows all of them "
         "unreachable for every valid position / lexer state within the bounds, or returns values that are replayed natively. "
         "Unifier kernels: the queue arithmetic of unify_link / unify_type / link::reinsert has no panic path for any queue length, "
         "Constraints::reinsert refuses exactly flagged constraints and Constraint::flag sets the flag (a constraint re-enters the queue "
         "at most once); parser kernels: peek_while_fn / eat_while go round only on a non-Eof token with a successful body.",
    note="RESTRICTED claim: lexing kernels, rendering arithmetic, the unifier's queue / re-insertion kernels and the parser's generic loops. "
         "Parser functions, context builder, constraint generation, the rest of unification, generation, stack depth and time bounds are outside (not executable by Kani, not loop-free integer "
         "facts). Bounds: coordinates <= 2^31-2, lexer state <= 2^20, <= 2^20 lines.",
    design="§4 C03")
CHECKS["C14"] = dict(
    engine="E2 mirsym (MIR -> z3)", technique="symbolic execution of rustc MIR, z3 non-interference (2-safety by substitution) lemmas over extracted State summaries",
    text="Bounded symbolic model checking at token-stream level: z3 proves over the summaries extracted from the MIR of "
         "State::token/newline/space/flush_indents that layout emission is independent of line number, pending newlines "
         "and token kind, that a newline resets (line_indent, token_this_line, column), that spaces after a token only "
         "move the column, that equal indentation emits no layout, that flush depends on cur_indent only, that the "
         "parser's filter closure drops exactly Comment tokens, that parse_block and parse_statements skip runs of NL tokens, and that the "
         "lexer step on CR LF leaves exactly the state of the step on LF (CR followed by anything else is an error).",
    note="Token-stream level only: that the parser is insensitive to the NUMBER of consecutive NL tokens is outside the "
         "claim (observed counterexample: a blank line directly before `else` is rejected, DESIGN §8 O1). "
         "Redundant parentheses belong to C10.",
    design="§4 C14")

CHECKS["C10"] = dict(
    engine="E3 srcsym (source templates) + E2 mirsym (MIR -> z3)", technique="source-extracted printer templates + symbolic execution of the parenthesisation decision from MIR; z3 query over all (parent, slot, child); Python's ast as grouping oracle; native replay",
    text="Bounded model checking over the complete operator set: the templates of the expression arms of to_py are "
         "extracted from the current source and validated byte-for-byte against the real Display on every run; "
         "needs_parens/precedence are executed symbolically from MIR with parent kind, child kind and side free; for "
         "every (parent, slot, child) Python's own parser says whether the undelimited text regroups; z3 decides that "
         "no such triple is left undelimited and every model is replayed through the real printer and ast.parse.",
    note="Depth-2 trees (all pairs) exhaustively; deeper trees only by the context-freeness of Python's expression "
         "grammar (assumed). 12 known findings (same-precedence right operands, int-literal attribute access) are "
         "listed in known_findings.json. Statement-level layout is not part of C10.",
    design="§4 C10")

CHECKS["C01"] = dict(
    engine="E2 mirsym (MIR -> z3) + E3 srcsym", technique="symbolic execution of rustc MIR of the AST->typed AST->Core operator arms, source-extracted printer templates, z3 finite-domain and linear-integer queries, native replay through python3",
    text="Bounded model checking of the operator and range kernels: NodeTy::from and convert_node are executed from MIR "
         "for every documented operator kind (recursive conversions uninterpreted), the printed Python operator comes "
         "from the to_py templates; z3 compares operator and operand order with the documented meaning. The Range arm "
         "of convert_range_slice is executed from MIR and its argument terms are compared with Python's range "
         "semantics for all a, b in [-8, 8], step in [1, 4], inclusive/exclusive, with/without step. append_ret / "
         "append_assign are executed from MIR: applied to exactly the tail positions of if/else, match, try/except and "
         "blocks. The printer obligations of C10 (grouping is meaning) are part of this check.",
    note="RESTRICTED claim (operator, range, tail-position and printer kernels): handle -> try/except construction, class "
         "constructors, slices, negative steps, annotate interplay (see C11) and execution of whole programs are outside. "
         "The parser stage (token -> node) is only covered by the replay programs. Shares the 12 known findings of C10.",
    design="§4 C01")

CHECKS["C11"] = dict(
    engine="E2 mirsym (MIR -> z3)", technique="symbolic execution of rustc MIR, 2-safety (non-interference) by substitution of the flag, z3, native replay with both settings",
    text="Bounded symbolic model checking of non-interference: the readers of State::annotate are enumerated from the "
         "MIR on every run; convert_def (all 225 paths, State setters inlined), convert_class and any further reader "
         "with the converter signature are executed with every input free and the observable behaviour (Result "
         "discriminant, non-annotation fields of the Core node, sequence and arguments of all recursive conversions, "
         "directly registered imports) under annotate=true is compared with annotate=false by z3. Second channel: the "
         "readers of the annotation slots of Core are enumerated; class.rs init is shown independent of the slot by "
         "self-composition.",
    note="Inductive hypothesis: recursive conversions are themselves inert (their State argument is compared with the "
         "annotate field erased); Imports is a write-only accumulator for what Name::to_py registers; ToPy callees only "
         "return annotations. A new reader of the flag or of an annotation slot without an obligation makes the check "
         "inconclusive. Python evaluating annotations at definition time (forward references, DESIGN §8 O8) is outside.",
    design="§4 C11")

CHECKS["C05"] = dict(
    engine="E2 mirsym (MIR -> z3)", technique="symbolic execution of rustc MIR (loop bodies from havocked loop states), z3 validity queries over uninterpreted constructor terms, native replay",
    text="Bounded symbolic model checking of the signature-enforcement kernels: one iteration of call_parameters' "
         "formal/actual zip from an arbitrary loop state (arity rule; constraint parent = declared parameter type with "
         "its nullable flag, child = argument), the Return arm of gen_stmt, the annotated arms of id_from_var, the FunDef "
         "arm of gen_def (body constrained against the declared return type whatever the raises clause is), unify_fun_arg "
         "(method / operator calls), function_access / field_access (direction of result and field constraints), the shadow renaming "
         "tables of Expected::map_exp, the operator typing table of gen_op / gen_magic, the truthy / branch constraints of gen_flow and the "
         "decision block of unify_type (receiver/argument order of the superset test, error propagation, Any).",
    note="Kernels only: loops are cut at their headers (one-step semantics); that a violation is still caught in every "
         "nesting context and the accepted-exactly-when direction for whole programs are outside. Context::class / "
         "Name::from resolution is trusted to denote the declared type.",
    design="§4 C05")

CHECKS["C07"] = dict(
    engine="E2 mirsym (MIR -> z3)", technique="symbolic execution of rustc MIR with bounded symbolic collections (closures executed from their own MIR), z3, native replay",
    text="Bounded symbolic model checking of the mutability kernels: check_iden_mut's per-field closure with the "
         "environment look-up returning an arbitrary set of <= 2 (is_mut, type) entries — error iff the field is "
         "immutable, the name undefined (unless self in a class) or some visible definition immutable; check_iden_mut "
         "reports exactly the collected errors; gen_call's Reassign arm checks before it constrains; id_from_var "
         "records `mutable && field-mutable` at every insert_var site; branch and loop scopes do not leak a shadowing "
         "re-definition (flow obligations shared with C09); check_reassignable builds the identifier chain receiver-first.",
    note="<= 2 definitions per name; loops cut at headers. Outside: shadowing offsets (var_mapping), tuple destructuring "
         "through match_name, fin self / fin fields in the unifier (observed: assignment to a `fin` class field through an "
         "instance is accepted — outside the encoded kernels, DESIGN §8).",
    design="§4 C07")

CHECKS["C08"] = dict(
    engine="E2 mirsym (MIR -> z3)", technique="symbolic execution of rustc MIR with bounded symbolic sets and inlined Environment setters, z3, native replay",
    text="Bounded symbolic model checking of the raise kernels: check_raises_caught with its closures over <= 2 raised "
         "and <= 2 caught names (class look-up and ancestor test free) returns Err iff inside a function some raised class "
         "is unknown or has no caught ancestor; the Handle arm of gen_flow passes before ∪ arms to the guarded "
         "expression and exactly the previous set to the arms and everything after; raise statements and context "
         "function calls consult the check with the current environment; the environment returned by a handle keeps every "
         "other field; Class::has_parent(&Name) (used for `raise [E]` declarations) is true iff some parent answers true; gen_def lets the "
         "loop over a raises clause go on only for known descendants of Exception and generates the body with the declared raises added to "
         "the caught set; convert_handle turns every arm into `except C [as id]` with its own class and body.",
    note="<= 2 names per set; hierarchy depth, the try/except translation (converter) and raises of methods resolved in "
         "the unifier are outside.",
    design="§4 C08")

CHECKS["C09"] = dict(
    engine="E2 mirsym (MIR -> z3)", technique="symbolic execution of rustc MIR (loop bodies from havocked loop states, inlined setters), z3 term-equality queries, native replay",
    text="Bounded symbolic model checking of the definite-assignment kernels: match_id's look-up decision; gen_vec's "
         "sequencing (statement i+1 in the environment returned by statement i, loop-carried variable tracked through "
         "the havocked loop state); the IfElse/While/For arms of gen_flow (branches and bodies from the incoming "
         "environment, result incoming ∩ (then ∪ else) / incoming); Environment::union/intersection keep the receiver's "
         "variables; reading an unassigned self field is an error; identifiers are renamed to their current shadow with the "
         "scope-local table first (Expected::map_exp).",
    note="Outside: forward references between top-level definitions, comprehension variables, class scopes, the match-arm "
         "loop of constrain_cases, the constructor's final unassigned test. Observed (by design of the checker, not "
         "claimed): a name defined in BOTH branches is still rejected afterwards.",
    design="§4 C09")

CHECKS["C20"] = dict(
    engine="E2 mirsym (MIR -> z3)", technique="symbolic execution of rustc MIR with bounded symbolic sets, z3 (EUF + integers) validity queries, native replay",
    text="Bounded symbolic model checking of the assignability kernels: Class::has_parent (reflexive, Any top, ancestor "
         "search over <= 2 declared parents with error propagation), TrueName::is_superset_of (nullable rules, shared with "
         "C06), the generics loops keep a conjunction, Class::has_parent(&Name), the loop body of Name::is_superset_of over "
         "<= 3 members (member-wise union rule, accumulator), Ord for TrueName (total order consistent with equality, "
         "under axioms for the derived StringName order), the None-absorbing Name::union (looks at the merged set) and the direction of "
         "StringName / TrueName::is_superset_of (the class looked up is OTHER's, asked whether SELF is an ancestor).",
    note="Outside: transitivity, inheritance chains beyond one inductive step, associativity / idempotence of union "
         "(HashSet operations).",
    design="§4 C20")
CHECKS["C16"] = dict(
    engine="E2 mirsym (MIR -> z3)", technique="symbolic execution of rustc MIR, z3 queries over call-event terms and a bounded symbolic accumulator, native replay through python3 ast",
    text="Bounded symbolic model checking of the import kernels: in the three ToPy implementations every Core::Type carrying "
         "a typing name has been registered by add_from_import(\"typing\", name) earlier on the same path; Core::Sqrt "
         "only after add_import(\"math\"); the abstractmethod decorator only after its abc import; add_import on an "
         "accumulator with <= 2 arbitrary entries is idempotent; gen_arguments places the collected imports first.",
    note="add_from_import's BTreeMap merge and the NewType / ABC sites of convert_class are not encoded (uninterpreted / "
         "outside); free-name analysis of whole outputs is outside.",
    design="§4 C16")

CHECKS["C15"] = dict(
    engine="E1 kani + E2 mirsym (MIR -> z3)", technique="Kani/CBMC harnesses over symbolic ASCII identifiers for the spelling tables; symbolic execution of rustc MIR for the generator's name special cases; z3; native replay by renaming",
    text="Bounded model checking of the name tables: Kani decides concrete_to_python (identifiers <= 10 bytes) and "
         "as_op_or_id (<= 6 bytes, longer keywords concretely) against the documented lists; mirsym executes the FunDef "
         "arm of convert_def and the Id arm of convert_node with the identifier free and z3 decides that a function "
         "keeps its name unless it is the documented constructor name (and nothing else becomes that name), that identifiers are only "
         "changed by the table, and (lexer-step kernel) that the identifier scanning loop is left only before a character outside "
         "[A-Za-z0-9_] and the number loop never before a digit (maximal munch).",
    note="Name tables and generator special cases only; commutation of the whole pipeline with renaming (unbounded "
         "names, x@1 shadow encoding) is outside. Known finding: `size` -> `__size__`.",
    design="§4 C15")

CHECKS["C12"] = dict(
    engine="E2 mirsym (MIR -> z3)", technique="symbolic execution of rustc MIR (position arithmetic of the class-body re-ordering closures), z3 bit-vector distinctness query, replay in fresh processes (fresh hash seeds)",
    text="Bounded model checking of the generator's two hash-order escape routes: the positions extract_class records for class-body "
         "statements (and computes for the synthesised constructor) are extracted from the MIR of its closures and z3 decides that no two "
         "can be equal for statement indices below 2^20 - equal positions would let the HashMap's iteration order through the stable "
         "sort; Name::to_py / StringName::to_py render union members from sorted(); Hash for Name feeds its members in the order of a key "
         "that is the member's whole variant. A collision is replayed by transpiling a class of "
         "that shape in 12 fresh processes and comparing the bytes.",
    note="RESTRICTED claim: hash-order iteration inside the generator only. Hash-ordered iteration in the checker (order of "
         "diagnostics, is_temporary / args() on the first element of a set), duplicate keys in the class-body map, threads, time and "
         "earlier runs are outside: Kani models neither RandomState nor concurrency.",
    design="§4 C12")

CHECKS["C17"] = dict(
    engine="E2 mirsym (MIR -> z3)", technique="symbolic execution of rustc MIR of the signature-building kernels, z3 term-equality and finite-domain queries, native replay by calling the generated module from Python",
    text="Bounded symbolic model checking of the signature kernels: convert_def (parameters converted in source order, variadic marker, "
         "defaults; the function keeps its name), the operator table (CoreFunOp::from recognises exactly the documented dunder names "
         "and Display prints them back), class.rs init (constructor parameters = the user's or the class arguments, self first), and "
         "the closures of extract_class that build the inheritance list and key body statements by their own name.",
    note="RESTRICTED claim (signature kernels): the HashMap through which class bodies are re-ordered is only covered through its keys "
         "and sort positions (C12); the printer's parameter rendering is replayed, not encoded. Known finding shared with C15: a "
         "function named `size` is emitted as `__size__`.",
    design="§4 C17")

CHECKS["C13"] = dict(
    engine="E2 mirsym (MIR -> z3)", technique="symbolic execution of rustc MIR of the project driver with the file system and pipeline stages as recorded uninterpreted calls; z3 entailment queries over path conditions and data-flow terms; native replay on real directories through transpile_dir",
    text="Bounded symbolic model checking of the project driver kernels: on every path of transpile_dir a file is written only if the path "
         "condition entails that mamba_to_python (called once with all sources) returned Ok; the i-th generated source goes to "
         "out_dir.join(i-th relative path).with_extension(py), input and output paths being images of the same relative_files result; "
         "mamba_to_python returns Ok only when the error sides of its three partitions are empty, builds one context from all parsed "
         "files and runs every stage over all files through order-preserving adaptors only; write_source opens with write + create + "
         "truncate at exactly the given path; diagnostics name a file by its whole path below the source directory.",
    note="RESTRICTED claim (driver kernels): that checking a file is independent of the order of the others and of unrelated files is the "
         "whole checker and only exercised by the replay scenarios; I/O failures during the write loop, the glob crate and non-UTF-8 "
         "paths are outside.",
    design="§4 C13")

CHECKS["C02"] = dict(
    engine="E2 mirsym (MIR -> z3) with a text model of format!", technique="symbolic execution of rustc MIR of every printer arm (format! decoded from the compiler's template constants, symbolic indentation level), z3 bit-vector proofs of the indentation arithmetic, z3 string/regex query for integer literals, bounded composition of the extracted templates judged by CPython's parser, native replay through the real printer",
    text="Bounded model checking of the emitter: every MIR path of generate::ast::to_py and its layout helpers yields a template whose "
         "indentation pieces are proved to be exactly 4*(ind+k) spaces for every level <= 2^20; the templates are composed on every "
         "statement tree up to the nesting bound (3 296 trees, every path of every arm) and the text must parse - to the Python AST the "
         "Core tree means - and equal the real printer's bytes; the converter never hands over an empty body (convert_def, extract_class, "
         "init); integer literals are emitted as valid Python decimal integers (z3 strings over all digit strings <= 8 digits).",
    note="RESTRICTED claim (printer statements, empty bodies, integer literals): expression delimiting is C10; the content of string "
         "literals, comprehension / dictionary printing, whole files and both annotate settings end to end are outside. Nesting bound: 2 "
         "compound statements deep (quick), 3 (thorough); blocks are assumed non-empty (the parser builds none).",
    design="§4 C02")

CHECKS["C04"] = dict(
    engine="E2 mirsym (MIR -> z3)", technique="symbolic execution of rustc MIR of the typing kernels the property is anchored in, z3 validity queries over constructor terms and finite tables, native replay with execution of the emitted Python",
    text="Bounded symbolic model checking of the kernels that turn an ill-typed use into a compile-time error: operators are typed as the "
         "documented method of the left operand (gen_op / gen_magic table), method and field accesses constrain result and arguments in the "
         "documented direction (function_access, field_access, unify_fun_arg), two concrete types unify by the superset test with parent "
         "and child in order (unify_type), call arity (call_parameters) and identifier look-up (match_id).",
    note="RESTRICTED claim (anchored kernels, shared with C05 / C09): the whole-program guarantee - soundness of the constraint solver as a "
         "whole - is not claimed; built-in signatures loaded from Python stub files, collections and comprehensions are outside.",
    design="§4 C04")

NOT_APPLICABLE = {
}

PENDING = {}


# ---- additions of rounds 5-6 (kept separate so that the base texts above stay readable)
ADDED = {
    "C05": " Added: the zip of unify_function for calls of function-typed values; the `call >= declared result` constraint of gen_call; and the scope "
           "family - which shadow table each side of a constraint is renamed with (function body, if-branch, match arm, initialiser of a definition), "
           "recognising both ConstrBuilder::add(.., env) and per-side map_exp + add_constr_map. Four genuine defects of the pinned tree were found this "
           "way (three repaired, one known finding that the repository's own suite enshrines).",
    "C09": " Added: gen_builder (comprehensions: iterable from the incoming environment, element and conditions from the defining one, the variable does "
           "not escape) and frame conditions of the Environment's copying methods over vars / var_mapping / unassigned with the shadow-offset rule of insert_var / get_var.",
    "C11": " Added: self-composition of gen_arguments over GenArguments::annotate (same calls, same arguments, same assembly of imports and statements) and, on the "
           "printer's text model, template(with annotation) minus `: ty` / ` -> ty` = template(without) for VarDef / FunArg / FunDef under every compatible setting of the other fields.",
    "C12": " Added: Class::inherit keeps a parent's member only when all own members differ in a key that is at least as coarse as what Class::field / Class::fun "
           "`find` by (z3, structural PartialEq), and StringName::substitute builds Union[..] from a sorted iteration (violated on the pinned tree: verdict of "
           "`def a := [1, \"a\"]; print(a)` changed from process to process; repaired).",
    "C15": " Added: CoreFunOp::from (the table that sends a function NAME down the operator branch) is decided over every spelling it compares its argument with, "
           "extracted from the path conditions of a run on a symbolic name; an undocumented key is replayed with a function of that name.",
    "C16": " Added: imports-threaded - on every path of every converter arm (about 60 arms) each call that takes an import accumulator is handed the arm's own `imp` "
           "(cell identity in the symbolic store), never a fresh or different Imports value.",
    "C17": " Added: the operator name table is decided over every spelling CoreFunOp::from compares with (see C15).",
    "C19": " Added: every closure of mamba_to_python that decorates errors with a (source, path) pair runs its stage itself on the item it received with that pair and "
           "decorates exactly the errors of that call (map_err and closure calls inlined); the Eof token is placed after the END of the last token of tokens ++ pending dedents, never at the lexer's cursor.",
}
ADDED["C03"] = (" Added: the class look-up that inherits from recursively looked-up parents carries and extends the list of classes below and refuses a class in it "
                "(ranking argument; `class A: A` overflowed the stack on the pinned tree, repaired); id_from_var and Expected::map_exp have no reachable panic! / expect "
                "(empty tuple of variables, comment-only block).")
ADDED["C14"] = (" Added: parser kernels for newline runs and block ends - else after a newline run, cases of match / handle and condition lists (before and behind the "
                "Indent, after each element), empty return leaves its newline, imports stop at Dedent / Eof, block position anchored before the Indent; six of them were "
                "violated on the pinned tree and are repaired.")
ADDED["C04"] = (" Added: the checker's desugaring table of compound assignments (x op= e is typed through the same operator), the comparison of generic arguments one by one, "
                "and a known finding: bitwise and shift operators are typed with Any.")
ADDED["C06"] = (" Added: field_access queues a field constraint only for a non-nullable member of the receiver's type; TrueName::substitute keeps the nullability of what "
                "replaces a placeholder (both violated on the pinned tree, repaired).")
ADDED["C07"] = (" Added: every parameter, `self` included, is recorded with the mutable flag of its own FunArg; known finding: `fin` class fields can be reassigned through an "
                "instance or self (field_access never looks at Field::mutable).")
ADDED["C02"] = (" Added: interpolated expressions must go through the converter (known finding: they are copied verbatim into the f-string); six printer / converter edges that were "
                "violated on the pinned tree and are repaired (comment-only body -> pass, `return pass`, multi-line string literal, Callable without arguments, annotated tuple "
                "target, class argument without default behind one with a default); the lexer's brace counter in interpolated strings; the structure of the control-flow arms.")
ADDED["C08"] = " Added: function_access must look at the exceptions a resolved method declares (known finding: raises of methods are never checked at their call sites)."
ADDED["C20"] = " Added: a nullable member of a generic argument only counts as a subtype when the other argument admits None (violated on the pinned tree, repaired)."
ADDED["C01"] = " Added: interpolated expressions keep their Mamba meaning (known finding, as C02: `{a ^ 2}` is emitted as xor)."
ROUND9 = {
    "C05": " Round 9: the recorded parameter (ClassArgument / GenericFunctionArg::try_from) has has_default exactly when the declaration carries a default, with its own "
           "mutable / vararg flags and name; every operand of a range or slice gets `Int >= operand` and is generated in the incoming environment (violated on the "
           "pinned tree: a Float / Int? bound was accepted; repaired); known finding: the constructor call behind `raise` is never generated; gen_class hands the class arguments to constraint generation (violated on the pinned tree: defaults of class arguments were unchecked; repaired).",
    "C04": " Round 9: range / slice operands are Ints and all visited; the assigned-field kernels of C09 (a field that stays the class-level None) are decided here too.",
    "C06": " Round 9: the per-member nullable test is replayed with a partly nullable union receiver; in `with r as a[: T]` the resource-alias link is added on every "
           "path and the resource is never equated with Any (violated on the pinned tree: `with f() as y: Int` passed whatever f returns; repaired).",
    "C09": " Round 9: the value of `target := value` is generated before the target counts as assigned, and a lambda body is generated in use mode (both violated on the "
           "pinned tree - `self.z := self.z + 1` as first assignment, `\\x: Int => x + zz` - and repaired); every operand of a range / slice is visited.",
    "C16": " Round 9: the Import arm of the printer reproduces the user's line - `as` exactly when there are aliases, however many - on the printer's text templates, replayed through the pipeline.",
    "C17": " Round 9: every TypeDef / TypeAlias node parse_type_def builds carries the parsed parent (inheritance of abstract types starts there); vararg class arguments are replayed from Python.",
}
for _k, _v in ROUND9.items():
    ADDED[_k] = ADDED.get(_k, "") + _v
for _k, _v in ADDED.items():
    CHECKS[_k]["text"] += _v


def main():
    props = [json.loads(l)["id"] for l in open(os.path.join(V, "properties.jsonl"))]
    checks = []
    for pid in props:
        c = CHECKS.get(pid)
        if not c:
            continue
        checks.append({
            "property_id": pid,
            "quick_cmd": f"./check {pid} --tier quick",
            "thorough_cmd": f"./check {pid} --tier thorough",
            "evidence_file": f"/verif/evidence/{pid}.json",
            "replay_cmd_template": f"./check {pid} --replay {{path}}",
            "engine": c["engine"],
            "level_claimed": {"category": c.get("category", "model_checking"), "text": c["text"],
                              "design_ref": c["design"]},
            "level_note": c["note"],
            "technique": c["technique"],
        })
    na = []
    for pid in props:
        if pid in CHECKS:
            continue
        reason = NOT_APPLICABLE.get(pid) or PENDING.get(pid) or \
            "check not built yet in this session (planned, DESIGN §4); not claimed until it exists"
        na.append({"property_id": pid, "reason": reason})
    man = {
        "version": 1,
        "setup_cmd": "./setup.sh",
        "hooks": {
            "guard": "cfg(any(kani, mamba_verif))",
            "enable": "RUSTFLAGS='--cfg mamba_verif' for the native replay binary; cargo kani sets cfg(kani) for the dependency",
            "baseline_off_cmd": "cd /repo && PYENV_VERSION=3.10.13:3.11.7 cargo test --workspace --no-fail-fast --offline",
            "source_commits": ["655fb0b"],
            "add_only": True,
        },
        "engines": [
            {"name": "E1 kani", "path": "/verif/kani", "serves_properties": [p for p in props if "E1" in CHECKS.get(p, {}).get("engine", "")],
             "kind_free_text": "Kani 0.68 / CBMC 6.11 proof harnesses over the real lexer and name tables (external crate, path dependency on /repo)"},
            {"name": "E2 mirsym", "path": "/verif/lib/mirsym.py", "serves_properties": [p for p in props if "E2" in CHECKS.get(p, {}).get("engine", "")],
             "kind_free_text": "symbolic executor for rustc's MIR dump of /repo's current tree producing z3 queries (bit-vectors, uninterpreted callees, loop havoc)"},
            {"name": "E3 srcsym", "path": "/verif/lib/srcsym.py", "serves_properties": [p for p in props if "E3" in CHECKS.get(p, {}).get("engine", "")],
             "kind_free_text": "source -> SMT encoder for the structural match tables (to_py, convert_node operator arms, Display for Token)"},
        ],
        "checks": checks,
        "not_applicable": na,
        "notes": "All checks are solver-based (Kani/CBMC or z3 over encodings regenerated from /repo's working tree); "
                 "exit 0 = all obligations discharged, 1 = VIOLATION (replayed natively), 2 = inconclusive.",
    }
    with open(os.path.join(V, "MANIFEST.json"), "w") as fh:
        json.dump(man, fh, indent=1)
    print(f"MANIFEST.json: {len(checks)} checks, {len(na)} not_applicable")


if __name__ == "__main__":
    main()
