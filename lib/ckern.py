"""Shared builders for the constraint-generation kernels (C05, C07, C08, C09)."""
import z3

import common
import e2
from e2 import conj, disj, opq, sym_option, mk_struct, mk_variant, calls, result_kind
from mirsym import Exec, State, Opq, Agg, Ref, StrC, Seq, Val, Unsupported

AST_RS = "src/parse/ast/mod.rs"
NODE_RS = "src/parse/ast/node.rs"
ENV_RS = "src/check/constrain/generate/env.rs"
ARG_RS = "src/check/context/arg/mod.rs"
GEN = "src/check/constrain/generate/"

ENV_SETTERS = r"Environment::(in_class|in_loop|in_fun|is_expr|is_def_mode|is_destruct_mode|return_type|raises_caught|with_unassigned|assigned_to|define_mode|destruct_mode)$"


def node_enum():
    # the Node enum lives in parse/ast/mod.rs or node.rs depending on the version of the tree
    for rel in (AST_RS, NODE_RS):
        try:
            return rel, e2.rust_enum(rel, "Node")
        except Unsupported:
            continue
    raise Unsupported("enum Node not found")


def mk_node(variant, values):
    rel, _ = node_enum()
    return mk_variant(rel, "Node", variant, values)


def mk_ast(name, node):
    pos = opq(name + ".pos", "Position")
    return mk_struct(AST_RS, "AST", {"pos": pos, "node": node}), pos


def sym_env(ex, st, tag="env", **fixed):
    """Environment with free flags; returns (Ref, dict of field values)."""
    vals = {}
    for f in e2.rust_struct(ENV_RS, "Environment"):
        if f in fixed:
            vals[f] = fixed[f]
        elif f in ("in_loop", "in_fun", "is_expr", "is_def_mode", "is_destruct_mode"):
            vals[f] = z3.Bool(f"{tag}.{f}")
        else:
            vals[f] = opq(f"{tag}.{f}", f)
    env = mk_struct(ENV_RS, "Environment", vals)
    return Ref(ex.new_cell(st, env)), vals


def refs(ex, st, *names):
    return [Ref(ex.new_cell(st, opq(n, n))) for n in names]


class Family(e2.Family):
    pass
