"""mirsym: symbolic executor for rustc MIR (text dump) producing z3 terms.

Semantics (see DESIGN §3.2): integers are bit-vectors of their width, bool is Bool, everything
without a scalar sort is either a structured Python value (Agg) or an opaque term of the
uninterpreted sort Val, projected lazily by typed uninterpreted functions. Calls are inlined from
the same dump when asked for, modelled when a std model exists, and uninterpreted otherwise (same
callee + same arguments => same result). Overflow/assert terminators become panic path ends.
Loops: at a loop header every local assigned inside the loop is havocked, execution stops at the
back edge (one-step semantics). Unwind edges are not followed."""
import re
import z3

import mirparse
from mirparse import MirFile, split_top, match_paren


class Unsupported(Exception):
    pass


Val = z3.DeclareSort("Val")

INT_W = {"u8": 8, "i8": 8, "u16": 16, "i16": 16, "u32": 32, "i32": 32, "u64": 64, "i64": 64,
         "u128": 128, "i128": 128, "usize": 64, "isize": 64, "char": 32}


def is_signed(ty):
    return ty in ("i8", "i16", "i32", "i64", "i128", "isize")


def strip_ref(ty):
    ty = ty.strip()
    m = re.match(r"^&(?:'\w+ )?(?:mut )?(.*)$", ty, re.S)
    if m:
        return m.group(1).strip()
    m = re.match(r"^\*(?:const|mut) (.*)$", ty, re.S)
    if m:
        return m.group(1).strip()
    m = re.match(r"^(?:std::boxed::)?Box<(.*)>$", ty, re.S)
    if m:
        return split_top(m.group(1))[0]
    return ty


def is_mut_ref(ty):
    return bool(re.match(r"^&(?:'\w+ )?mut ", ty.strip()))


def ty_head(ty):
    """Last path segment of the head of a type: 'std::option::Option<T>' -> 'Option'."""
    ty = ty.strip()
    i = 0
    while i < len(ty) and ty[i] not in "<":
        i += 1
    head = ty[:i]
    return head.split("::")[-1]


class Opq:
    """Opaque symbolic value: a term of sort Val plus functional overrides of projections."""
    __slots__ = ("term", "ty", "over")

    def __init__(self, term, ty=None, over=None):
        self.term, self.ty, self.over = term, ty, over or {}

    def __repr__(self):
        return f"Opq({self.term}{'+' + str(list(self.over)) if self.over else ''})"


class Agg:
    __slots__ = ("ty", "variant", "fields", "names")

    def __init__(self, ty, variant, fields, names=None):
        self.ty, self.variant, self.fields, self.names = ty, variant, tuple(fields), names

    def __repr__(self):
        v = f"::{self.variant}" if self.variant else ""
        return f"{self.ty}{v}{list(self.fields)}"


class Ref:
    __slots__ = ("cell", "proj")

    def __init__(self, cell, proj=()):
        self.cell, self.proj = cell, tuple(proj)

    def __repr__(self):
        return f"Ref({self.cell}{list(self.proj) if self.proj else ''})"


class StrC:
    __slots__ = ("s",)

    def __init__(self, s):
        self.s = s

    def __repr__(self):
        return f"StrC({self.s!r})"


class FnItem:
    __slots__ = ("text",)

    def __init__(self, text):
        self.text = text

    def __repr__(self):
        return f"Fn({self.text[:40]})"


class Seq:
    """Abstract Vec: concatenation of parts ('item', v) | ('rep', v, n: BV64) | ('opq', term, len: BV64)."""
    __slots__ = ("parts",)

    def __init__(self, parts=()):
        self.parts = tuple(parts)

    def __repr__(self):
        return "Seq[" + ", ".join(p[0] + ":" + str(p[1])[:40] for p in self.parts) + "]"

    def length(self):
        n = z3.BitVecVal(0, 64)
        for p in self.parts:
            n = n + (z3.BitVecVal(1, 64) if p[0] == "item" else p[2])
        return z3.simplify(n)


class SymColl:
    """Bounded symbolic collection / iterator: slots (present: Bool, value). Used for HashSet / Vec /
    slice contents whose elements matter (filter / map / any / all / is_empty pipelines)."""
    __slots__ = ("items", "kind")

    def __init__(self, items, kind="coll"):
        self.items, self.kind = tuple(items), kind

    def __repr__(self):
        return f"SymColl[{len(self.items)} slots]"


UNIT = Agg("tuple", None, ())

BUILTIN_ENUMS = {
    "Option": ["None", "Some"],
    "Result": ["Ok", "Err"],
    "ControlFlow": ["Continue", "Break"],
    "EitherOrBoth": ["Both", "Left", "Right"],
    "Ordering": ["Less", "Equal", "Greater"],
    "Cow": ["Borrowed", "Owned"],
}
ENUM_DISCR = {"Ordering": {"Less": -1, "Equal": 0, "Greater": 1}}


def scan_enums(repo):
    """enum name -> [variants] from the current source text; ambiguous names map to None."""
    import os
    enums = {}
    for root, _d, names in os.walk(os.path.join(repo, "src")):
        for n in names:
            if not n.endswith(".rs"):
                continue
            txt = open(os.path.join(root, n), encoding="utf-8").read()
            for m in re.finditer(r"\benum\s+([A-Za-z_][A-Za-z0-9_]*)\s*(?:<[^>{]*>)?\s*\{", txt):
                name = m.group(1)
                e = match_paren(txt, m.end() - 1)
                body = txt[m.end():e]
                body = re.sub(r"//[^\n]*", "", body)
                body = re.sub(r"#\[[^\]]*\]", "", body)
                vs = []
                for it in split_top(body):
                    it = it.strip()
                    vm = re.match(r"^([A-Za-z_][A-Za-z0-9_]*)", it)
                    if vm:
                        vs.append(vm.group(1))
                if name in enums and enums[name] != vs:
                    enums[name] = None
                else:
                    enums[name] = vs
    return enums


def scan_str_consts(repo):
    """{'NAME': value-or-None-if-ambiguous, 'mod::path::NAME': value}: &str and small integer consts."""
    import os
    consts = {}
    base = os.path.join(repo, "src")
    for root, _d, names in os.walk(base):
        for n in names:
            if not n.endswith(".rs"):
                continue
            rel = os.path.relpath(os.path.join(root, n), base)[:-3]
            mod = "::".join(x for x in rel.split(os.sep) if x not in ("mod", "lib"))
            txt = open(os.path.join(root, n), encoding="utf-8").read()
            found = []
            for m in re.finditer(r"\bconst\s+([A-Z_][A-Z0-9_]*)\s*:\s*&(?:'static\s+)?str\s*=\s*\"((?:[^\"\\]|\\.)*)\"", txt):
                found.append((m.group(1), bytes(m.group(2), "utf-8").decode("unicode_escape")))
            for m in re.finditer(r"\bconst\s+([A-Z_][A-Z0-9_]*)\s*:\s*(usize|i32|u32|i64|u64)\s*=\s*(\d+)\s*;", txt):
                found.append((m.group(1), (m.group(2), int(m.group(3)))))
            for k, v in found:
                consts[mod + "::" + k] = v
                if k in consts and consts[k] != v:
                    consts[k] = None
                else:
                    consts[k] = v
    return consts


def lookup_const(consts, path):
    """Resolve a const path as printed in MIR (possibly shortened) against the scanned table."""
    segs = path.split("::")
    name = segs[-1]
    if not re.fullmatch(r"[A-Z_][A-Z0-9_]*", name):
        return None
    for i in range(len(segs) - 1):
        k = "::".join(segs[i:])
        cands = [v for kk, v in consts.items() if kk == k or kk.endswith("::" + k)]
        if cands and all(c == cands[0] for c in cands):
            return cands[0]
    return consts.get(name)


class AxiomList(list):
    """List of background axioms without duplicates (by z3 AST identity)."""

    def __init__(self):
        super().__init__()
        self._ids = set()

    def append(self, a):
        k = a.get_id()
        if k in self._ids:
            return
        self._ids.add(k)
        super().append(a)

    def fresh_since(self, n):
        return self[n:]


class PathEnd:
    def __init__(self, kind, cond, ret, events, st, detail=""):
        self.kind, self.cond, self.ret, self.events, self.state, self.detail = \
            kind, cond, ret, events, st, detail

    def __repr__(self):
        return f"<{self.kind} ret={self.ret} |cond|={len(self.cond)} ev={len(self.events)} {self.detail}>"


class Frame:
    __slots__ = ("fn", "locals", "bb", "dest", "retbb", "visited", "havocked", "wrap")

    def __init__(self, fn):
        self.fn = fn
        self.locals = {}
        self.bb = 0
        self.dest = None
        self.retbb = None
        self.visited = ()
        self.havocked = frozenset()
        self.wrap = None

    def copy(self):
        f = Frame(self.fn)
        f.locals = dict(self.locals)
        f.bb, f.dest, f.retbb = self.bb, self.dest, self.retbb
        f.visited, f.havocked = self.visited, self.havocked
        f.wrap = self.wrap
        return f


class State:
    __slots__ = ("cells", "frames", "cond", "events", "ncell", "trace")

    def __init__(self):
        self.cells, self.frames, self.cond, self.events = {}, [], [], []
        self.trace = []

    def fork(self):
        s = State()
        s.cells = dict(self.cells)
        s.frames = [f.copy() for f in self.frames]
        s.cond = list(self.cond)
        s.events = list(self.events)
        s.trace = list(self.trace)
        return s


class Exec:
    def __init__(self, mir, repo="/repo", inline=(), models=None, havoc_loops=True,
                 max_paths=4000, max_depth=4, prune=True):
        self.mir = mir
        self.repo = repo
        self.inline = [re.compile(p) for p in inline]
        self.models = list(models or [])
        self.havoc_loops = havoc_loops
        self.max_paths = max_paths
        self.max_depth = max_depth
        self.prune = prune
        self.enums = getattr(mir, "_enums", None)
        if self.enums is None:
            self.enums = mir._enums = scan_enums(repo)
            mir._consts = scan_str_consts(repo)
        self.consts = mir._consts
        self.ncell = 0
        self.nfresh = 0
        self.ufs = {}
        self.strs = {}
        self.axioms = AxiomList()
        self._ax_done = 0
        self._strs_done = 0
        self.solver = z3.Solver()
        self.solver.set("timeout", 20000)
        self.stats = {"paths": 0, "blocks": 0, "forks": 0, "pruned": 0, "uf_calls": 0,
                      "inlined": 0}
        self._impl_index = None
        self.loopinfo = {}
        self.loop_passed = {}

    # ------------------------------------------------------------------ z3 helpers
    def uf(self, name, *sorts):
        key = (name,) + tuple(str(s) for s in sorts)
        f = self.ufs.get(key)
        if f is None:
            f = z3.Function(name, *sorts)
            self.ufs[key] = f
        return f

    def fresh(self, base, sort):
        self.nfresh += 1
        return z3.Const(f"{base}!{self.nfresh}", sort)

    def sort_of_ty(self, ty):
        ty = ty.strip()
        if ty == "bool":
            return z3.BoolSort()
        if ty in INT_W:
            return z3.BitVecSort(INT_W[ty])
        return None

    def strc(self, s):
        t = self.strs.get(s)
        if t is None:
            t = z3.Const("str:" + s, Val)
            self.strs[s] = t
        return t

    def background(self):
        ax = list(self.axioms)
        if len(self.strs) > 1:
            ax.append(z3.Distinct(*self.strs.values()))
        return ax

    def to_val(self, st, v):
        """Any value -> term of sort Val (used as argument of uninterpreted functions)."""
        hook = getattr(self, "val_hook", None)
        if hook is not None:
            r = hook(self, st, v)
            if r is not None:
                return r
        if isinstance(v, Opq):
            t = v.term
            for k in sorted(v.over, key=str):
                t = self.uf("upd:" + str(k), Val, Val, Val)(t, self.to_val(st, v.over[k]))
            return t
        if isinstance(v, z3.ExprRef):
            s = v.sort()
            if s == Val:
                return v
            return self.uf("inj:" + str(s), s, Val)(v)
        if isinstance(v, Ref):
            return self.to_val(st, self.read_ref(st, v))
        if isinstance(v, StrC):
            return self.strc(v.s)
        if isinstance(v, Seq):
            t = z3.Const("seq:nil", Val)
            for p_ in v.parts:
                if p_[0] == "item":
                    t = self.uf("seq:snoc", Val, Val, Val)(t, self.to_val(st, p_[1]))
                elif p_[0] == "rep":
                    t = self.uf("seq:cat", Val, Val, Val)(
                        t, self.uf("seq:rep", Val, z3.BitVecSort(64), Val)(self.to_val(st, p_[1]), p_[2]))
                else:
                    t = self.uf("seq:cat", Val, Val, Val)(t, p_[1])
            return t
        if isinstance(v, SymColl):
            t = z3.Const("coll:nil", Val)
            for pres, val in v.items:
                t = self.uf("coll:add", Val, z3.BoolSort(), Val, Val)(t, pres, self.to_val(st, val))
            return t
        if isinstance(v, FnItem):
            return z3.Const("fn:" + self.canon_fn(v.text), Val)
        if isinstance(v, Agg):
            name = "mk:" + (("closure:" + self.canon_fn(v.variant)) if v.ty == "closure" and v.variant
                            else str(v.ty) + ("::" + v.variant if v.variant else ""))
            if v.names:
                name += "{" + ",".join(v.names) + "}"
            args = [self.to_val(st, f) for f in v.fields]
            if not args:
                return z3.Const(name, Val)
            return self.uf(name + "/" + str(len(args)), *([Val] * len(args) + [Val]))(*args)
        if v is None:
            return z3.Const("uninit", Val)
        if hasattr(v, "as_val"):
            return v.as_val(self, st)         # value classes of client kernels (e.g. printkern.Txt)
        raise Unsupported(f"to_val of {type(v)}")

    def canon_fn(self, text):
        """Stable name of a function item / closure type used as a value."""
        text = text.strip()
        m = re.match(r"^\{closure@([^}]*)\}$", text)
        if m:
            cm = getattr(self.mir, "_closure_names", None)
            if cm is None:
                cm = self.mir._closure_names = {}
                for fname, fn in self.mir.fns.items():
                    if "{closure#" in fname and fn.args:
                        t = fn.args[0][1]
                        k = re.search(r"\{closure@([^}]*)\}", t)
                        if k:
                            cm[k.group(1)] = self.canon_item(fn)
            return cm.get(m.group(1), text)
        return normalize_callee(text)

    def canon_item(self, fn):
        """Stable name of a MIR item: Type.Trait::method{closure#k} via the impl header."""
        idx = self._impl_index
        if idx is None:
            idx = self._impl_index = self._build_index()
        rev = getattr(self.mir, "_canon_rev", None)
        if rev is None:
            rev = self.mir._canon_rev = {}
            for key, fns in idx.items():
                ty, tr, name = key[0], key[1], key[2]
                tail = "".join(key[3:])
                if ty is None:
                    cn = name + tail
                elif tr is None:
                    cn = f"{ty}::{name}{tail}"
                elif tr in DROP_SELF_TRAITS:
                    cn = f"{tr}::{name}{tail}"
                else:
                    cn = f"{ty}.{tr}::{name}{tail}"
                for f in fns:
                    rev[f.name] = cn
        return rev.get(fn.name, fn.name)

    def app(self, name, args, ty="?", st=None):
        """Application of the uninterpreted function that models callee `name` (canonical
        name) — the same term a call site of that callee produces."""
        vals = [a if isinstance(a, z3.ExprRef) and a.sort() == Val else self.to_val(st, a) for a in args]

        def mk(sort):
            if not vals:
                return z3.Const("call:" + name, sort)
            return self.uf("call:" + name + "/" + str(len(vals)), *([Val] * len(vals) + [sort]))(*vals)
        return self.from_uf(mk, ty)

    def fnval(self, canon):
        return z3.Const("fn:" + canon, Val)

    def from_uf(self, term_fn, ty):
        """Build a value of declared type ty from an uninterpreted application builder
        term_fn(sort) -> z3 term."""
        s = self.sort_of_ty(ty)
        if s is not None:
            return term_fn(s)
        if ty.strip() == "()":
            return UNIT
        return Opq(term_fn(Val), ty)

    def sym(self, name, ty, st=None):
        """Fresh symbolic input of the given declared type."""
        ty = ty.strip()
        s = self.sort_of_ty(ty)
        if s is not None:
            return z3.Const(name, s)
        if ty.startswith("&") and st is not None:
            inner = strip_ref(ty)
            c = self.new_cell(st, self.sym(name + "*", inner, st))
            return Ref(c)
        if ty.startswith("(") and ty.endswith(")") and st is not None:
            items = [x for x in split_top(ty[1:-1]) if x]
            return Agg("tuple", None, [self.sym(f"{name}.{i}", t, st) for i, t in enumerate(items)])
        return Opq(z3.Const(name, Val), ty)

    # ------------------------------------------------------------------ memory
    def new_cell(self, st, v):
        self.ncell += 1
        st.cells[self.ncell] = v
        return self.ncell

    def project(self, st, v, pe, ty=None):
        kind = pe[0]
        if isinstance(v, Ref) and kind == "f":
            # field of a pointer-like wrapper (Box/Unique/NonNull): transparent
            return v
        if kind == "f":
            k = pe[1]
            if isinstance(v, Agg):
                if k < len(v.fields):
                    return v.fields[k]
                raise Unsupported(f"field {k} of {v}")
            if isinstance(v, Opq):
                if pe in v.over:
                    return v.over[pe]
                if ty is None:
                    ty = "?"
                return self.from_uf(lambda s: self.uf(f"p{k}:{s}", Val, s)(v.term), ty)
            if v is None:
                raise Unsupported("read of uninitialised field")
            raise Unsupported(f"field of {type(v).__name__}")
        if kind == "v":
            if isinstance(v, Agg):
                return v
            if isinstance(v, Opq):
                if pe in v.over:
                    return v.over[pe]
                return Opq(self.uf("as:" + pe[1], Val, Val)(v.term), (v.ty or "") + "::" + pe[1])
            raise Unsupported(f"downcast of {type(v).__name__}")
        if kind == "i":
            idx = pe[1]
            if isinstance(v, Agg) and isinstance(idx, int):
                return v.fields[idx]
            if isinstance(v, Opq):
                it = self.to_val(st, idx) if not isinstance(idx, int) else z3.Const(f"idx{idx}", Val)
                return self.from_uf(lambda s: self.uf(f"at:{s}", Val, Val, s)(v.term, it), ty or "?")
            raise Unsupported("index")
        raise Unsupported(f"projection {pe}")

    def update(self, st, v, proj, new, tys=None):
        if not proj:
            return new
        pe = proj[0]
        if isinstance(v, Agg) and pe[0] == "f":
            fs = list(v.fields)
            while len(fs) <= pe[1]:
                fs.append(None)
            fs[pe[1]] = self.update(st, fs[pe[1]], proj[1:], new)
            return Agg(v.ty, v.variant, fs, v.names)
        if isinstance(v, Agg) and pe[0] == "v":
            return self.update(st, v, proj[1:], new)
        if isinstance(v, Agg) and pe[0] == "i" and isinstance(pe[1], int):
            fs = list(v.fields)
            fs[pe[1]] = self.update(st, fs[pe[1]], proj[1:], new)
            return Agg(v.ty, v.variant, fs, v.names)
        if isinstance(v, Opq):
            over = dict(v.over)
            cur = over.get(pe)
            if cur is None and len(proj) > 1:
                cur = self.project(st, v, pe)
            over[pe] = self.update(st, cur, proj[1:], new)
            return Opq(v.term, v.ty, over)
        if v is None:
            # building an aggregate field by field
            if pe[0] == "f":
                fs = [None] * (pe[1] + 1)
                fs[pe[1]] = self.update(st, None, proj[1:], new)
                return Agg("?", None, fs)
        if isinstance(v, Ref):
            # write through pointer wrapper
            return v
        raise Unsupported(f"update {pe} of {type(v).__name__}")

    def read_ref(self, st, r):
        v = st.cells[r.cell]
        for pe in r.proj:
            v = self.project(st, v, pe[:2], pe[2] if len(pe) > 2 else None)
        return v

    def write_ref(self, st, r, new):
        st.cells[r.cell] = self.update(st, st.cells[r.cell], [p[:2] for p in r.proj], new)

    # ------------------------------------------------------------------ places
    WRAP = ("std::mem::ManuallyDrop<", "std::mem::MaybeDangling<", "std::mem::MaybeUninit<",
            "std::ptr::Unique<", "std::ptr::NonNull<", "core::mem::ManuallyDrop<")

    def place_ty(self, fr, p):
        k = p[0]
        if k == "local":
            return fr.fn.locals.get(p[1], "?")
        if k == "field":
            return p[3]
        if k == "deref":
            return strip_ref(self.place_ty(fr, p[1]))
        if k == "downcast":
            return self.place_ty(fr, p[1])
        if k in ("index", "cindex"):
            t = self.place_ty(fr, p[1])
            m = re.match(r"^\[(.*?)(?:; [^\]]+)?\]$", t)
            return m.group(1) if m else "?"
        return "?"

    def lval(self, st, fr, p):
        """Place -> Ref (cell + projection)."""
        k = p[0]
        if k == "local":
            c = fr.locals.get(p[1])
            if c is None:
                c = self.new_cell(st, None)
                fr.locals[p[1]] = c
            return Ref(c)
        if k == "deref":
            base = self.lval(st, fr, p[1])
            v = self.read_ref(st, base)
            if isinstance(v, Ref):
                return v
            return base    # Box / String / Rc: transparent
        if k == "field":
            base = self.lval(st, fr, p[1])
            pty = self.place_ty(fr, p[1])
            if p[3].startswith(self.WRAP) or pty.startswith(self.WRAP) or \
                    strip_ref(pty).startswith(self.WRAP) and p[1][0] != "deref":
                return base
            bv = self.read_ref(st, base)
            if isinstance(bv, Ref):
                return base      # field of Box/Unique/NonNull
            return Ref(base.cell, base.proj + (("f", p[2], p[3]),))
        if k == "downcast":
            base = self.lval(st, fr, p[1])
            return Ref(base.cell, base.proj + (("v", p[2]),))
        if k == "index":
            base = self.lval(st, fr, p[1])
            iv = self.read_ref(st, self.lval(st, fr, ("local", p[2])))
            iv = z3.simplify(iv) if isinstance(iv, z3.ExprRef) else iv
            if isinstance(iv, z3.BitVecNumRef):
                iv = iv.as_long()
            return Ref(base.cell, base.proj + (("i", iv, self.place_ty(fr, p)),))
        if k == "cindex":
            base = self.lval(st, fr, p[1])
            if p[4]:
                raise Unsupported("cindex from end")
            return Ref(base.cell, base.proj + (("i", p[2], self.place_ty(fr, p)),))
        raise Unsupported(f"place {k}")

    def read_place(self, st, fr, p):
        v = self.read_ref(st, self.lval(st, fr, p))
        if v is None:
            # uninitialised: materialise a symbolic value of the declared type (havoc)
            ty = self.place_ty(fr, p)
            v = self.sym(f"uninit_{fr.fn.name.split('::')[-1]}_{self.nfresh}", ty)
            self.nfresh += 1
        return v

    # ------------------------------------------------------------------ operands / rvalues
    def const(self, fr, text, want_ty=None):
        t = text.strip()
        if t in ("true", "false"):
            return z3.BoolVal(t == "true")
        m = re.fullmatch(r"(-?\d+)_([iu](?:8|16|32|64|128|size))", t)
        if m:
            return z3.BitVecVal(int(m.group(1)), INT_W[m.group(2)])
        m = re.fullmatch(r"(-?\d+)_?(f32|f64)?", t)
        if m and want_ty in INT_W:
            return z3.BitVecVal(int(m.group(1)), INT_W[want_ty])
        if t.startswith('"') and t.endswith('"'):
            try:
                return StrC(bytes(t[1:-1], "utf-8").decode("unicode_escape").encode("latin-1").decode("utf-8"))
            except Exception:
                return StrC(t[1:-1])
        if t.startswith("'") and t.endswith("'") and len(t) >= 3:
            body = t[1:-1]
            if body.startswith("\\"):
                esc = {"\\n": "\n", "\\r": "\r", "\\t": "\t", "\\\\": "\\", "\\'": "'", '\\"': '"',
                       "\\0": "\0"}
                if body in esc:
                    ch = esc[body]
                else:
                    um = re.fullmatch(r"\\u\{([0-9a-fA-F]+)\}", body)
                    if not um:
                        raise Unsupported("char const " + t)
                    ch = chr(int(um.group(1), 16))
            else:
                ch = body
            return z3.BitVecVal(ord(ch), 32)
        m = re.fullmatch(r"(?:core|std)::num::<impl ([iu](?:8|16|32|64|128|size))>::(MAX|MIN)", t)
        if m:
            ty, w = m.group(1), INT_W[m.group(1)]
            if is_signed(ty):
                v = (1 << (w - 1)) - 1 if m.group(2) == "MAX" else -(1 << (w - 1))
            else:
                v = (1 << w) - 1 if m.group(2) == "MAX" else 0
            return z3.BitVecVal(v, w)
        m = re.fullmatch(r"([iu](?:8|16|32|64|128|size))::(MAX|MIN)", t)
        if m:
            ty, w = m.group(1), INT_W[m.group(1)]
            if is_signed(ty):
                v = (1 << (w - 1)) - 1 if m.group(2) == "MAX" else -(1 << (w - 1))
            else:
                v = (1 << w) - 1 if m.group(2) == "MAX" else 0
            return z3.BitVecVal(v, w)
        if t.startswith("ZeroSized: "):
            return FnItem(t[len("ZeroSized: "):])
        if t == "()":
            return UNIT
        if t.startswith('b"'):
            return StrC(t)
        m = re.fullmatch(r"(.*)::promoted\[(\d+)\]", t)
        if m:
            name = t
            fn = self.mir.fns.get(name)
            if fn is None:
                fn = self.mir.fns.get(f"{fr.fn.name}::promoted[{m.group(2)}]")
            if fn is None:
                cands = [n for n in self.mir.fns if n.endswith(name) or name.endswith(n)]
                fn = self.mir.fns[cands[0]] if len(cands) == 1 else None
            if fn is None:
                raise Unsupported("promoted const not found: " + t)
            return ("promoted", fn)
        c = lookup_const(self.consts, t)
        if c is not None:
            if isinstance(c, tuple):
                return z3.BitVecVal(c[1], INT_W[c[0]])
            return StrC(c)
        # constant ADT value, e.g. `Result::<Infallible, fmt::Error>::Err(std::fmt::Error)`, `Token::Comma`
        if re.match(r"^[A-Za-z_<]", t) and (t.endswith(")") or re.search(r"::[A-Z]\w*$", t)):
            try:
                rv = mirparse.parse_rvalue(t)
            except mirparse.ParseError:
                rv = None
            if rv and rv[0] == "agg" and rv[1] == "adt":
                segs = [x for x in mirparse._split_path(rv[2]) if not x.startswith("<")]
                clean = [re.sub(r"<.*>$", "", x) for x in segs]
                if len(clean) >= 2 and self.enum_variants(clean[-2]) and clean[-1] in self.enum_variants(clean[-2]):
                    vals = [self.const(fr, f[1]) if f[0] == "const" else None for f in rv[3]]
                    if all(v is not None for v in vals):
                        return Agg(clean[-2], clean[-1], vals)
        return FnItem(t)

    def operand(self, st, fr, op, want_ty=None):
        k = op[0]
        if k in ("copy", "move"):
            return self.read_place(st, fr, op[1])
        v = self.const(fr, op[1], want_ty)
        if isinstance(v, tuple) and v[0] == "promoted":
            return self.eval_promoted(st, v[1])
        return v

    def eval_promoted(self, st, fn):
        sub = Exec.__new__(Exec)
        sub.__dict__.update(self.__dict__)
        s2 = State()
        s2.cells = st.cells   # share heap so that returned refs stay valid
        fr = Frame(fn)
        s2.frames = [fr]
        ends = self._run_state(s2, single=True)
        if len(ends) != 1 or ends[0].kind != "return":
            raise Unsupported("promoted const with control flow")
        st.cells.update(ends[0].state.cells)
        return ends[0].ret

    def op_ty(self, fr, op):
        if op[0] in ("copy", "move"):
            return self.place_ty(fr, op[1])
        m = re.search(r"_([iu](?:8|16|32|64|128|size))$", op[1])
        if m:
            return m.group(1)
        if op[1] in ("true", "false"):
            return "bool"
        if op[1].startswith("'"):
            return "char"
        return "?"

    def rvalue(self, st, fr, rv, dest_ty):
        k = rv[0]
        if k == "use":
            return self.operand(st, fr, rv[1], dest_ty)
        if k in ("ref", "refmut", "addr"):
            return self.lval(st, fr, rv[1])
        if k == "discr":
            v = self.read_place(st, fr, rv[1])
            return self.discr(st, v, self.place_ty(fr, rv[1]))
        if k == "cast":
            v = self.operand(st, fr, rv[1])
            kind = rv[3]
            tgt = rv[2].strip()
            if kind.startswith("IntToInt"):
                sty = self.op_ty(fr, rv[1])
                if sty == "bool" or z3.is_bool(v):
                    w = INT_W[tgt]
                    return z3.If(v, z3.BitVecVal(1, w), z3.BitVecVal(0, w))
                if not z3.is_bv(v):
                    # discriminant (Int) cast
                    if z3.is_int(v):
                        return z3.Int2BV(v, INT_W[tgt])
                    raise Unsupported("IntToInt of non-bv")
                w0, w1 = v.size(), INT_W[tgt]
                if w1 == w0:
                    return v
                if w1 < w0:
                    return z3.Extract(w1 - 1, 0, v)
                return z3.SignExt(w1 - w0, v) if is_signed(sty) else z3.ZeroExt(w1 - w0, v)
            if kind in ("Transmute", "PtrToPtr", "MutToConstPointer") or kind.startswith("PointerCoercion"):
                return v
            raise Unsupported("cast kind " + kind)
        if k == "binop":
            op = rv[1]
            aty = self.op_ty(fr, rv[2])
            bty = self.op_ty(fr, rv[3])
            a = self.operand(st, fr, rv[2], bty if bty != "?" else None)
            b = self.operand(st, fr, rv[3], aty if aty != "?" else None)
            return self.binop(op, a, b, aty if aty != "?" else bty)
        if k == "unop":
            a = self.operand(st, fr, rv[2])
            if rv[1] == "Not":
                if z3.is_bool(a):
                    return z3.Not(a)
                if z3.is_bv(a):
                    return ~a
            if rv[1] == "Neg" and z3.is_bv(a):
                return -a
            if rv[1] == "PtrMetadata":
                # length of a slice behind a (fat) reference
                v = self.read_ref(st, a) if isinstance(a, Ref) else a
                if isinstance(v, Seq):
                    return v.length()
                if isinstance(v, Agg) and v.ty == "array":
                    return z3.BitVecVal(len(v.fields), 64)
                return self.uf("len", Val, z3.BitVecSort(64))(self.to_val(st, v))
            raise Unsupported("unop " + rv[1])
        if k == "agg":
            _, akind, path, fields, names = rv
            vals = [self.operand(st, fr, f) for f in fields]
            if akind in ("tuple", "array"):
                return Agg(akind, None, vals)
            if akind == "closure":
                return Agg("closure", path, vals, names)
            return self.adt(path, vals, names, dest_ty)
        if k == "repeat":
            v = self.operand(st, fr, rv[1])
            n = rv[2]
            m = re.fullmatch(r"(?:const )?(\d+)_usize", n)
            if m and int(m.group(1)) <= 16:
                return Agg("array", None, [v] * int(m.group(1)))
            return Opq(self.uf("repeat", Val, Val, Val)(self.to_val(st, v), z3.Const("n:" + n, Val)), dest_ty)
        if k == "len":
            v = self.read_place(st, fr, rv[1])
            if isinstance(v, Agg):
                return z3.BitVecVal(len(v.fields), 64)
            return self.uf("len", Val, z3.BitVecSort(64))(self.to_val(st, v))
        raise Unsupported("rvalue " + str(rv)[:100])

    def adt(self, path, vals, names, dest_ty):
        # path like 'Result::<bool, Vec<TypeErr>>::Ok' / 'position::Position' / 'Core::Id'
        segs = mirparse._split_path(path)
        segs = [s for s in segs if not s.startswith("<") or s.endswith(">") and " as " in s]
        segs = [s for s in segs if not (s.startswith("<") and " as " not in s)]
        clean = [re.sub(r"<.*>$", "", s) for s in segs]
        last = clean[-1] if clean else path
        enum = clean[-2] if len(clean) >= 2 else None
        if enum is not None and self.enum_variants(enum) and last in self.enum_variants(enum):
            return Agg(enum, last, vals, names)
        # struct (or enum variant whose enum we do not know)
        dh = ty_head(dest_ty) if dest_ty else None
        if dh and self.enum_variants(dh) and last in self.enum_variants(dh):
            return Agg(dh, last, vals, names)
        return Agg(last, None, vals, names)

    def enum_variants(self, name):
        if name in BUILTIN_ENUMS:
            return BUILTIN_ENUMS[name]
        return self.enums.get(name)

    def discr_of_variant(self, enum, variant):
        if enum in ENUM_DISCR:
            return ENUM_DISCR[enum][variant]
        vs = self.enum_variants(enum)
        if not vs or variant not in vs:
            raise Unsupported(f"unknown variant {enum}::{variant}")
        return vs.index(variant)

    def discr(self, st, v, ty):
        if isinstance(v, Agg):
            if v.variant is None:
                raise Unsupported(f"discriminant of struct {v}")
            return z3.IntVal(self.discr_of_variant(v.ty, v.variant))
        if isinstance(v, Opq):
            if ("d",) in v.over:
                return v.over[("d",)]
            d = self.uf("discr", Val, z3.IntSort())(v.term)
            vs = self.enum_variants(ty_head(ty)) if ty else None
            if vs:
                if ty_head(ty) in ENUM_DISCR:
                    vals = list(ENUM_DISCR[ty_head(ty)].values())
                    self.axioms.append(z3.And(d >= min(vals), d <= max(vals)))
                else:
                    self.axioms.append(z3.And(d >= 0, d < len(vs)))
            return d
        if isinstance(v, Ref):
            return self.discr(st, self.read_ref(st, v), strip_ref(ty))
        raise Unsupported(f"discriminant of {type(v).__name__}")

    def binop(self, op, a, b, ty):
        sg = is_signed(ty)
        if z3.is_bool(a) and z3.is_bool(b):
            if op == "Eq":
                return a == b
            if op == "Ne":
                return a != b
            if op == "BitAnd":
                return z3.And(a, b)
            if op == "BitOr":
                return z3.Or(a, b)
            if op == "BitXor":
                return z3.Xor(a, b)
            raise Unsupported("bool binop " + op)
        if z3.is_int(a) or z3.is_int(b):
            if z3.is_bv(a):
                a = z3.BV2Int(a, True)
            if z3.is_bv(b):
                b = z3.BV2Int(b, True)
            return {"Eq": a == b, "Ne": a != b, "Lt": a < b, "Le": a <= b, "Gt": a > b,
                    "Ge": a >= b}[op]
        if not (z3.is_bv(a) and z3.is_bv(b)):
            raise Unsupported(f"binop {op} on {type(a).__name__},{type(b).__name__}")
        if op in ("Add", "AddUnchecked"):
            return a + b
        if op in ("Sub", "SubUnchecked"):
            return a - b
        if op in ("Mul", "MulUnchecked"):
            return a * b
        if op == "Div":
            return a / b if sg else z3.UDiv(a, b)
        if op == "Rem":
            return z3.SRem(a, b) if sg else z3.URem(a, b)
        if op == "BitAnd":
            return a & b
        if op == "BitOr":
            return a | b
        if op == "BitXor":
            return a ^ b
        if op in ("Shl", "ShlUnchecked"):
            return a << b
        if op in ("Shr", "ShrUnchecked"):
            return a >> b if sg else z3.LShR(a, b)
        if op == "Eq":
            return a == b
        if op == "Ne":
            return a != b
        if op == "Lt":
            return a < b if sg else z3.ULT(a, b)
        if op == "Le":
            return a <= b if sg else z3.ULE(a, b)
        if op == "Gt":
            return a > b if sg else z3.UGT(a, b)
        if op == "Ge":
            return a >= b if sg else z3.UGE(a, b)
        w = a.size()
        if op == "AddWithOverflow":
            r = a + b
            if sg:
                ov = z3.Or(z3.Not(z3.BVAddNoOverflow(a, b, True)), z3.Not(z3.BVAddNoUnderflow(a, b)))
            else:
                ov = z3.Not(z3.BVAddNoOverflow(a, b, False))
            return Agg("tuple", None, [r, ov])
        if op == "SubWithOverflow":
            r = a - b
            if sg:
                ov = z3.Or(z3.Not(z3.BVSubNoOverflow(a, b)), z3.Not(z3.BVSubNoUnderflow(a, b, True)))
            else:
                ov = z3.ULT(a, b)
            return Agg("tuple", None, [r, ov])
        if op == "MulWithOverflow":
            r = a * b
            ov = z3.Or(z3.Not(z3.BVMulNoOverflow(a, b, sg)),
                       z3.Not(z3.BVMulNoUnderflow(a, b)) if sg else z3.BoolVal(False))
            return Agg("tuple", None, [r, ov])
        if op == "Cmp":
            lt = (a < b) if sg else z3.ULT(a, b)
            return Opq(z3.Const("cmp", Val), "Ordering",
                       {("d",): z3.If(lt, z3.IntVal(-1), z3.If(a == b, z3.IntVal(0), z3.IntVal(1)))})
        raise Unsupported("binop " + op)

    # ------------------------------------------------------------------ feasibility
    def feasible(self, cond):
        if not self.prune:
            return True
        # background axioms are asserted once (incrementally) at the base level of the solver
        ax = self.axioms
        if isinstance(ax, AxiomList):
            new = ax.fresh_since(self._ax_done)
            self._ax_done = len(ax)
        else:
            new = ax[self._ax_done:]
            self._ax_done = len(ax)
        for a in new:
            self.solver.add(a)
        if len(self.strs) > self._strs_done and len(self.strs) > 1:
            self.solver.add(z3.Distinct(*self.strs.values()))
            self._strs_done = len(self.strs)
        self.solver.push()
        try:
            for c in cond:
                self.solver.add(c)
            r = self.solver.check()
        finally:
            self.solver.pop()
        return r != z3.unsat

    # ------------------------------------------------------------------ loops
    def loops(self, fn):
        info = self.loopinfo.get(fn.name)
        if info is not None:
            return info
        # back edges by iterative DFS over non-cleanup blocks
        color, back = {}, set()
        stack = [(0, iter(fn.succs(0)))]
        color[0] = 1
        while stack:
            b, it = stack[-1]
            adv = False
            for s in it:
                if s not in fn.blocks:
                    continue
                c = color.get(s, 0)
                if c == 0:
                    color[s] = 1
                    stack.append((s, iter(fn.succs(s))))
                    adv = True
                    break
                if c == 1:
                    back.add((b, s))
            if not adv:
                color[b] = 2
                stack.pop()
        headers = {}
        preds = {}
        for b in fn.blocks:
            for s in fn.succs(b):
                preds.setdefault(s, []).append(b)
        for (tail, head) in back:
            body = headers.setdefault(head, {head})
            work = [tail]
            while work:
                x = work.pop()
                if x in body:
                    continue
                body.add(x)
                work.extend(preds.get(x, []))
        assigned = {}
        for head, body in headers.items():
            locs = set()
            passed = set()
            for b in body:
                blk = fn.blocks[b]
                for s in blk.stmts:
                    if s[0] == "assign":
                        locs.add(_root_local(s[1]))
                        if s[2][0] in ("refmut", "addr"):
                            locs.add(_root_local(s[2][1]))
                    elif s[0] == "setdiscr":
                        locs.add(_root_local(s[1]))
                t = blk.term
                if t and t[0] == "call" and t[1] is not None:
                    locs.add(_root_local(t[1]))
                if t and t[0] == "call":
                    for a in t[3]:
                        if a[0] in ("copy", "move") and a[1][0] == "local" and is_mut_ref(fn.locals.get(a[1][1], "")):
                            if a[1][1] not in locs:
                                passed.add(a[1][1])
            # a `&mut` local that is only handed to calls in the loop (never re-assigned) keeps pointing at the same object:
            # its pointee is havocked, the reference is not
            self.loop_passed.setdefault(fn.name, {})[head] = {n for n in passed if n not in locs}
            locs |= passed
            assigned[head] = locs
        info = (headers, assigned, back)
        self.loopinfo[fn.name] = info
        return info

    # ------------------------------------------------------------------ running
    def run(self, fn, args, st=None, pre=None):
        """Execute fn from its entry with the given argument values. Returns [PathEnd]."""
        st = st.fork() if st is not None else State()     # the caller's state object is left untouched
        fr = Frame(fn)
        for (n, _ty), v in zip(fn.args, args):
            fr.locals[n] = self.new_cell(st, v)
        st.frames = [fr]
        if pre:
            st.cond.extend(pre)
        return self._run_state(st)

    def _run_state(self, st0, single=False):
        ends = []
        work = [st0]
        while work:
            st = work.pop()
            try:
                self._exec_path(st, work, ends)
            except RecursionError:
                raise Unsupported("recursion limit")
            if len(ends) + len(work) > self.max_paths:
                raise Unsupported(f"path limit {self.max_paths} exceeded")
        self.stats["paths"] += len(ends)
        return ends

    def _end(self, ends, kind, st, ret=None, detail=""):
        ends.append(PathEnd(kind, list(st.cond), ret, list(st.events), st, detail))

    def _exec_path(self, st, work, ends):
        while True:
            fr = st.frames[-1]
            fn = fr.fn
            blk = fn.blocks.get(fr.bb)
            if blk is None:
                raise Unsupported(f"missing bb{fr.bb} in {fn.name}")
            depth = len(st.frames)
            # loop handling
            headers, assigned, _back = self.loops(fn)
            if fr.bb in headers:
                if fr.bb in fr.visited:
                    if depth > 1:
                        raise Unsupported(f"loop inside inlined callee {fn.name}")
                    self._end(ends, "loop_back", st, detail=f"bb{fr.bb}")
                    return
                if self.havoc_loops and fr.bb not in fr.havocked:
                    fr.havocked = fr.havocked | {fr.bb}
                    hook = getattr(self, "loop_hook", None)
                    if hook is not None:
                        hook("pre", self, st, fr, fr.bb, sorted(x for x in assigned[fr.bb] if x))
                    for n in sorted(assigned[fr.bb]):
                        if n is None or n == 0:
                            continue
                        ty = fn.locals.get(n, "?")
                        c = fr.locals.get(n)
                        base = f"h{fr.bb}_{n}_{self.nfresh}"
                        self.nfresh += 1
                        old = st.cells.get(c) if c is not None else None
                        if isinstance(old, Ref) and (getattr(self, "havoc_pointees", False) or n in self.loop_passed.get(fn.name, {}).get(fr.bb, ())):
                            # a reference held in a local that is (re)borrowed mutably in the loop: havoc the pointee
                            tgt = self.read_ref(st, old)
                            self.write_ref(st, old, self.havoc_like(st, tgt, base, strip_ref(ty)))
                            continue
                        if old is not None and getattr(self, "havoc_shape", False) and isinstance(old, Agg):
                            nv = self.havoc_like(st, old, base, ty)
                        else:
                            nv = self.sym(base, ty, st)
                        if c is None:
                            fr.locals[n] = self.new_cell(st, nv)
                        else:
                            st.cells[c] = nv
                    if hook is not None:
                        hook("post", self, st, fr, fr.bb, sorted(x for x in assigned[fr.bb] if x))
            elif fr.bb in fr.visited:
                raise Unsupported(f"irreducible revisit bb{fr.bb} in {fn.name}")
            fr.visited = fr.visited + (fr.bb,)
            st.trace.append((depth, fr.bb))
            self.stats["blocks"] += 1
            for s in blk.stmts:
                self.stmt(st, fr, s)
            t = blk.term
            if t is None:
                raise Unsupported("block without terminator")
            k = t[0]
            if k == "goto":
                fr.bb = t[1]
                continue
            if k == "return":
                rv = None
                c0 = fr.locals.get(0)
                if c0 is not None:
                    rv = st.cells[c0]
                elif fn.ret.strip() == "()":
                    rv = UNIT
                if len(st.frames) == 1:
                    self._end(ends, "return", st, rv)
                    return
                st.frames.pop()
                caller = st.frames[-1]
                if fr.wrap is not None:
                    rv = fr.wrap(rv)
                if fr.dest is not None:
                    self.write_ref(st, self.lval(st, caller, fr.dest), rv)
                if fr.retbb is None:
                    self._end(ends, "diverge", st)
                    return
                caller.bb = fr.retbb
                continue
            if k == "unreachable":
                return      # infeasible by construction
            if k in ("resume", "abort", "terminate"):
                self._end(ends, "unwind", st)
                return
            if k == "drop":
                if t[2] is None:
                    self._end(ends, "diverge", st)
                    return
                fr.bb = t[2]
                continue
            if k == "assert":
                c = self.operand(st, fr, t[1])
                if not z3.is_bool(c):
                    raise Unsupported("assert on non-bool")
                ok = c if t[2] else z3.Not(c)
                bad = z3.simplify(z3.Not(ok))
                if not z3.is_false(bad):
                    sp = st.fork()
                    sp.cond.append(bad)
                    if self.feasible(sp.cond):
                        self._end(ends, "panic", sp, detail=f"{fn.name.split('::')[-1]} bb{fr.bb}: {t[3][:80]}")
                st.cond.append(ok)
                if t[5] is None:
                    return
                fr.bb = t[5]
                continue
            if k == "switch":
                v = self.operand(st, fr, t[1])
                targets = []
                if z3.is_bool(v):
                    for val, bb in t[2]:
                        targets.append((v if val != 0 else z3.Not(v), bb))
                    if t[3] is not None:
                        seen = {val != 0 for val, _ in t[2]}
                        if True not in seen and False in seen:
                            targets.append((v, t[3]))
                        elif False not in seen and True in seen:
                            targets.append((z3.Not(v), t[3]))
                        elif not seen:
                            targets.append((z3.BoolVal(True), t[3]))
                elif z3.is_bv(v):
                    w = v.size()
                    for val, bb in t[2]:
                        targets.append((v == z3.BitVecVal(val, w), bb))
                    if t[3] is not None:
                        targets.append((z3.And(*[v != z3.BitVecVal(val, w) for val, _ in t[2]]) if t[2] else z3.BoolVal(True), t[3]))
                elif z3.is_int(v):
                    for val, bb in t[2]:
                        targets.append((v == val, bb))
                    if t[3] is not None:
                        targets.append((z3.And(*[v != val for val, _ in t[2]]) if t[2] else z3.BoolVal(True), t[3]))
                else:
                    raise Unsupported(f"switchInt on {type(v).__name__}")
                live = []
                for c, bb in targets:
                    c = z3.simplify(c)
                    if z3.is_false(c):
                        continue
                    if z3.is_true(c):
                        live = [(None, bb)]
                        break
                    live.append((c, bb))
                # skip targets that are plain `unreachable`
                live = [(c, bb) for c, bb in live
                        if not (fn.blocks[bb].term and fn.blocks[bb].term[0] == "unreachable"
                                and not fn.blocks[bb].stmts)]
                feas = []
                for c, bb in live:
                    if c is None:
                        feas.append((c, bb))
                    elif len(live) == 1 or self.feasible(st.cond + [c]):
                        feas.append((c, bb))
                    else:
                        self.stats["pruned"] += 1
                if not feas:
                    return
                self.stats["forks"] += len(feas) - 1
                for c, bb in feas[1:]:
                    s2 = st.fork()
                    if c is not None:
                        s2.cond.append(c)
                    s2.frames[-1].bb = bb
                    work.append(s2)
                c, bb = feas[0]
                if c is not None:
                    st.cond.append(c)
                fr.bb = bb
                continue
            if k == "call":
                self.call(st, fr, t, work, ends)
                if st.frames is None:
                    return
                continue
            raise Unsupported(f"terminator {t}"[:200])

    def stmt(self, st, fr, s):
        k = s[0]
        if k == "nop":
            return
        if k == "assign":
            dty = self.place_ty(fr, s[1])
            v = self.rvalue(st, fr, s[2], dty)
            self.write_ref(st, self.lval(st, fr, s[1]), v)
            return
        if k == "setdiscr":
            raise Unsupported("SetDiscriminant")
        raise Unsupported("statement " + str(s)[:200])

    # ------------------------------------------------------------------ calls
    def resolve(self, callee):
        """Callee text at a call site -> MirFn (or None)."""
        idx = self._impl_index
        if idx is None:
            idx = self._impl_index = self._build_index()
        c = callee.strip()
        tail = []
        segs = mirparse._split_path(c)
        while segs and segs[-1].startswith("{closure#"):
            tail.insert(0, segs.pop())
        if not segs:
            return None
        # strip turbofish segments
        segs = [s for i, s in enumerate(segs) if i == 0 or not s.startswith("<")]
        name = re.sub(r"<.*>$", "", segs[-1])
        if segs[0].startswith("<") and " as " in segs[0]:
            inner = segs[0][1:-1]
            p = mirparse._split_last_top(inner, " as ")
            ty, tr = ty_head(p[0].lstrip("&").replace("mut ", "")), ty_head(p[1])
            key = (ty, tr, name) + tuple(tail)
            c1 = idx.get(key, [])
            return c1[0] if len(c1) == 1 else None
        if len(segs) >= 2:
            ty = re.sub(r"<.*>$", "", segs[-2]).split("::")[-1]
            key = (ty, None, name) + tuple(tail)
            c1 = idx.get(key, [])
            if len(c1) == 1:
                return c1[0]
        key = (None, None, name) + tuple(tail)
        c1 = idx.get(key, [])
        if len(c1) == 1:
            return c1[0]
        if len(c1) > 1:
            pre = "::".join(segs[:-1])
            c2 = [f for f in c1 if "::".join(mirparse._split_path(f.name)[:-1 - len(tail)]).endswith(pre)] if pre else []
            if len(c2) == 1:
                return c2[0]
        return None

    def _build_index(self):
        idx = {}
        srccache = {}
        for fname, fn in self.mir.fns.items():
            if fn.header.startswith(("const", "static")):
                continue
            segs = mirparse._split_path(fname)
            tail = []
            while segs and segs[-1].startswith("{closure#"):
                tail.insert(0, segs.pop())
            name = segs[-1]
            if fn.impl_at:
                f, line = fn.impl_at
                if f not in srccache:
                    try:
                        srccache[f] = open(f, encoding="utf-8").read().split("\n")
                    except OSError:
                        srccache[f] = []
                src = srccache[f]
                if line - 1 >= len(src):
                    continue
                hdr = src[line - 1]
                kk = line
                while "{" not in hdr and kk < len(src):
                    hdr += " " + src[kk].strip()
                    kk += 1
                if src[line - 1].lstrip().startswith("#[derive"):
                    cm = re.search(r"<impl at [^:>]+:(\d+):(\d+): (\d+):(\d+)>", fname)
                    tr = src[line - 1][int(cm.group(2)) - 1:int(cm.group(4)) - 1] if cm else None
                    ty = None
                    for k2 in range(line, min(line + 12, len(src))):
                        dm = re.match(r"^\s*(?:pub(?:\([^)]*\))?\s+)?(?:struct|enum)\s+([A-Za-z_][A-Za-z0-9_]*)", src[k2])
                        if dm:
                            ty = dm.group(1)
                            break
                    if tr and ty:
                        idx.setdefault((ty, tr, name) + tuple(tail), []).append(fn)
                    continue
                m = re.match(r"^\s*(?:unsafe\s+)?impl(?:<[^>]*>)?\s+(.*?)\s*(?:where.*)?\{", hdr)
                if not m:
                    continue
                h = m.group(1)
                p = mirparse._split_last_top(h, " for ")
                if p:
                    tr, ty = ty_head(p[0]), ty_head(p[1].lstrip("&").replace("mut ", ""))
                else:
                    tr, ty = None, ty_head(h)
                idx.setdefault((ty, tr, name) + tuple(tail), []).append(fn)
            else:
                idx.setdefault((None, None, name) + tuple(tail), []).append(fn)
        return idx

    def havoc_like(self, st, v, base, ty="?"):
        """Fresh symbolic value with the same shape as v (scalars -> fresh constants of the same sort)."""
        if isinstance(v, z3.ExprRef):
            self.nfresh += 1
            return z3.Const(f"{base}.{self.nfresh}", v.sort())
        if isinstance(v, Agg) and v.variant is None:
            return Agg(v.ty, None, [self.havoc_like(st, f, base + "." + (v.names[i] if v.names else str(i)))
                                    for i, f in enumerate(v.fields)], v.names)
        if isinstance(v, Seq):
            self.nfresh += 1
            t = z3.Const(f"{base}.seq{self.nfresh}", Val)
            return Seq([("opq", t, self.uf("seq:len", Val, z3.BitVecSort(64))(t))])
        self.nfresh += 1
        return self.sym(f"{base}.{self.nfresh}", ty if ty else "?", st)

    def subrun(self, st, fn, args):
        """Run MIR function fn on args from (a copy of) the current state; returns return-path ends whose
        .cond only contains the conditions added by the sub-run."""
        s2 = State()
        s2.cells = dict(st.cells)
        s2.cond = list(st.cond)
        s2.events = []
        fr = Frame(fn)
        for (n, _ty), v in zip(fn.args, args):
            fr.locals[n] = self.new_cell(s2, v)
        s2.frames = [fr]
        ends = self._run_state(s2)
        out = []
        k = len(st.cond)
        for p in ends:
            if p.kind == "panic":
                continue
            if p.kind != "return":
                raise Unsupported(f"closure {fn.name} ends with {p.kind}")
            p.cond = p.cond[k:]
            out.append(p)
        return out

    def closure_value(self, st, fv, params):
        """Evaluate a closure / fn item on params: merged scalar (If-chain) or the single-path value."""
        fn = fn_of_value(self, fv)
        if fn is None or not fn.blocks:
            return None
        if "{closure#" in fn.name:
            envty = fn.args[0][1].strip()
            env = Ref(self.new_cell(st, fv)) if envty.startswith("&") else fv
            args = [env] + list(params)
        else:
            args = list(params)
        ends = self.subrun(st, fn, args)
        if not ends:
            raise Unsupported(f"closure {fn.name} has no returning path")
        for p in ends:
            st.cells.update({c: v for c, v in p.state.cells.items() if c not in st.cells})
        if len(ends) == 1:
            return ends[0].ret
        alts = []
        for p in ends:
            c = z3.And(*p.cond) if len(p.cond) > 1 else (p.cond[0] if p.cond else z3.BoolVal(True))
            alts.append((c, p.ret, p.state))
        return self.merge_values(alts, fn.ret)

    def merge_values(self, alts, ty):
        """Merge alternative values [(cond, value, state)] of declared type ty into one value."""
        vals = [v for _c, v, _s in alts]
        if all(isinstance(v, z3.ExprRef) for v in vals) and len({str(v.sort()) for v in vals}) == 1:
            acc = vals[-1]
            for c, v, _s in reversed(alts[:-1]):
                acc = z3.If(c, v, acc)
            return acc
        head = ty_head(ty) if ty else None
        variants = self.enum_variants(head) if head else None
        if variants and head in ("Result", "Option"):
            d = None
            per_variant = {}
            for c, v, s_ in alts:
                dv = self.discr(s_, v, ty)
                d = dv if d is None else None
            # discriminant as an If-chain
            dterm = self.discr(alts[-1][2], alts[-1][1], ty)
            for c, v, s_ in reversed(alts[:-1]):
                dterm = z3.If(c, self.discr(s_, v, ty), dterm)
            over = {("d",): dterm}
            for k, var in enumerate(variants):
                pty = _generic_arg(ty, k if head == "Result" else 0)
                pl = []
                for c, v, s_ in alts:
                    pv = variant_payload(self, s_, _deref_val(self, s_, v), var, pty)
                    if pv is not None and not (isinstance(pv, Agg) and pv.ty == "tuple" and not pv.fields and var == "None"):
                        pl.append((c, pv, s_))
                if pl and var != "None":
                    over[("v", var)] = Agg(head, var, [self.merge_values(pl, pty) if len(pl) > 1 else pl[0][1]])
            return Opq(self.fresh("merged", Val), ty, over)
        acc = self.to_val(alts[-1][2], vals[-1])
        for c, v, s_ in reversed(alts[:-1]):
            acc = z3.If(c, self.to_val(s_, v), acc)
        return Opq(acc, ty)

    def call(self, st, fr, t, work, ends):
        _, dest, callee, argops, retbb = t
        dest_ty = self.place_ty(fr, dest) if dest is not None else "()"
        args = [self.operand(st, fr, a) for a in argops]
        argtys = [self.op_ty(fr, a) for a in argops]
        r = NotImplemented
        # 1. python models
        for pat, h in self.models + STD_MODELS:
            if re.search(pat, callee):
                r = h(self, st, fr, callee, args, argtys, dest_ty)
                if r is not NotImplemented:
                    break
        # 2. inlining
        if r is NotImplemented and any(p.search(callee) for p in self.inline):
            if len(st.frames) >= self.max_depth:
                raise Unsupported("inline depth exceeded at " + callee[:100])
            target = self.resolve(callee)
            wrap = None
            if target is None and callee.rstrip().endswith("::ne"):
                target = self.resolve(callee.rstrip()[:-2] + "eq")
                wrap = z3.Not
            if target is None or not target.blocks:
                raise Unsupported("cannot resolve callee to inline: " + callee[:120])
            r = Inline(target, args, wrap)
        # 3. uninterpreted
        if r is NotImplemented:
            r = self.uf_call(st, callee, args, argtys, dest_ty, fr=fr)
        outs = r.alts if isinstance(r, Fork) else [(None, r)]
        live = []
        for c, res in outs:
            if c is not None:
                c = z3.simplify(c)
                if z3.is_false(c):
                    continue
                if z3.is_true(c):
                    c = None
                elif not self.feasible(st.cond + [c]):
                    self.stats["pruned"] += 1
                    continue
            live.append((c, res))
        if not live:
            st.frames = None
            return
        states = [st] + [st.fork() for _ in live[1:]]
        for (c, res), s2 in zip(live, states):
            if c is not None:
                s2.cond.append(c)
            self._apply_result(s2, dest, retbb, res, callee, ends)
            if s2 is not st and s2.frames is not None:
                work.append(s2)

    def _apply_result(self, st, dest, retbb, r, callee, ends):
        fr = st.frames[-1]
        if isinstance(r, Panic):
            if r.cond is None:
                self._end(ends, "panic", st, detail=r.msg)
                st.frames = None
                return
            sp = st.fork()
            sp.cond.append(r.cond)
            if self.feasible(sp.cond):
                self._end(ends, "panic", sp, detail=r.msg)
            st.cond.append(z3.Not(r.cond))
            r = r.value
        if isinstance(r, Inline):
            nf = Frame(r.fn)
            for (n, _ty), v in zip(r.fn.args, r.args):
                nf.locals[n] = self.new_cell(st, v)
            nf.dest, nf.retbb = dest, retbb
            nf.wrap = r.wrap
            st.frames.append(nf)
            self.stats["inlined"] += 1
            return
        if dest is not None:
            self.write_ref(st, self.lval(st, fr, dest), r)
        if retbb is None:
            self._end(ends, "diverge", st, detail=callee[:80])
            st.frames = None
            return
        fr.bb = retbb

    def uf_call(self, st, callee, args, argtys, dest_ty, record=True, fr=None):
        name = normalize_callee(callee)
        vals = [self.to_val(st, a) for a in args]
        self.stats["uf_calls"] += 1

        def mk(sort):
            if not vals:
                return z3.Const("call:" + name, sort)
            return self.uf("call:" + name + "/" + str(len(vals)), *([Val] * len(vals) + [sort]))(*vals)
        r = self.from_uf(mk, dest_ty)
        ev = {"callee": callee, "name": name, "args": args, "argvals": vals, "ret": r,
              "ncond": len(st.cond), "in": self.canon_item(fr.fn) if fr is not None else None,
              "depth": len(st.frames)}
        # havoc pointees of &mut arguments
        for i, (a, ty) in enumerate(zip(args, argtys)):
            if isinstance(a, Ref) and is_mut_ref(ty):
                pre = self.read_ref(st, a)
                ev.setdefault("mut_pre", {})[i] = pre
                post = Opq(self.uf(f"post{i}:" + name + "/" + str(len(vals)), *([Val] * len(vals) + [Val]))(*vals),
                           strip_ref(ty))
                ev.setdefault("mut_post", {})[i] = post
                self.write_ref(st, a, post)
        if record:
            st.events.append(ev)
        return r


class Panic:
    def __init__(self, cond, msg, value=None):
        self.cond, self.msg, self.value = cond, msg, value


class Inline:
    """Model result: continue by executing MIR function fn with args (result goes to the call's destination)."""
    def __init__(self, fn, args, wrap=None):
        self.fn, self.args, self.wrap = fn, args, wrap


class Fork:
    """Model result: alternatives [(cond, value | Inline | Panic)]."""
    def __init__(self, alts):
        self.alts = alts


def _root_local(p):
    while p[0] != "local":
        p = p[1]
    return p[1]


DROP_SELF_TRAITS = {"Iterator", "IntoIterator", "FromIterator", "DoubleEndedIterator",
                    "ExactSizeIterator", "Itertools"}


def _strip_generics(seg):
    """'collect::<HashSet<T>>' -> 'collect'; 'HashSet<T>' -> 'HashSet'."""
    i = seg.find("<")
    return seg if i < 0 else seg[:i].rstrip(":")


def normalize_callee(c):
    """Canonical, generic-free name of a callee: '<T as Tr<X>>::m::<Y>' -> 'T.Tr::m',
    'Type::<X>::m' -> 'Type::m', 'path::to::f' -> 'f'. Closure suffixes are kept."""
    c = c.strip()
    try:
        segs = mirparse._split_path(c)
    except Exception:
        return c
    tail = []
    while segs and segs[-1].startswith("{closure#"):
        tail.insert(0, segs.pop())
    segs = [x for i, x in enumerate(segs) if i == 0 or not x.startswith("<")]
    if not segs:
        return c
    name = _strip_generics(segs[-1])
    if segs[0].startswith("<") and segs[0].endswith(">"):
        inner = segs[0][1:-1]
        p = mirparse._split_last_top(inner, " as ")
        if p:
            ty = ty_head(re.sub(r"^&(?:'\w+ )?(?:mut )?", "", p[0].strip()))
            tr = ty_head(p[1])
            base = f"{tr}::{name}" if tr in DROP_SELF_TRAITS else f"{ty}.{tr}::{name}"
        else:
            base = f"{ty_head(inner)}::{name}"
    elif len(segs) >= 2 and re.match(r"^[A-Z]", _strip_generics(segs[-2]) or "x"):
        base = f"{_strip_generics(segs[-2])}::{name}"
    else:
        base = name
    return base + "".join(tail)


# ------------------------------------------------------------------------------------------------
# std models: (regex on callee text, handler)


def _deref_val(ex, st, v):
    while isinstance(v, Ref):
        v = ex.read_ref(st, v)
    return v


def m_identity(ex, st, fr, callee, args, argtys, dty):
    return args[0]


def m_clone(ex, st, fr, callee, args, argtys, dty):
    return _deref_val(ex, st, args[0]) if not dty.strip().startswith("&") else args[0]


def m_max(ex, st, fr, callee, args, argtys, dty):
    a, b = args
    if not z3.is_bv(a):
        return NotImplemented
    sg = is_signed(dty.strip())
    ge = (a >= b) if sg else z3.UGE(a, b)   # max returns b when equal; same value
    return z3.If(ge, a, b) if "max" in callee else z3.If(ge, b, a)


def m_is_some(ex, st, fr, callee, args, argtys, dty):
    v = _deref_val(ex, st, args[0])
    d = ex.discr(st, v, strip_ref(argtys[0]))
    want = 1 if ("is_some" in callee or "is_err" in callee) else 0
    return d == want


def m_unwrap(ex, st, fr, callee, args, argtys, dty):
    v = _deref_val(ex, st, args[0])
    ety = strip_ref(argtys[0])
    d = ex.discr(st, v, ety)
    head = ty_head(ety)
    if head == "Option":
        good, var = 1, "Some"
    elif "unwrap_err" in callee or "expect_err" in callee:
        good, var = 1, "Err"
    else:
        good, var = 0, "Ok"
    payload = variant_payload(ex, st, v, var, dty)
    if payload is None:
        return Panic(None, f"{callee[:60]} on wrong variant")
    bad = z3.simplify(d != good)
    if z3.is_false(bad):
        return payload
    return Panic(bad, f"{callee[:60]} on wrong variant", payload)


def m_not_ref_bool(ex, st, fr, callee, args, argtys, dty):
    v = _deref_val(ex, st, args[0])
    if z3.is_bool(v):
        return z3.Not(v)
    return NotImplemented


def m_str_eq(ex, st, fr, callee, args, argtys, dty):
    a = ex.to_val(st, _deref_val(ex, st, args[0]))
    b = ex.to_val(st, _deref_val(ex, st, args[1]))
    r = a == b
    return z3.Not(r) if callee.rstrip().endswith("::ne") else r


def m_try_branch(ex, st, fr, callee, args, argtys, dty):
    """<Result<T,E> as Try>::branch / <Option<T> as Try>::branch."""
    v = _deref_val(ex, st, args[0])
    ety = argtys[0]
    head = ty_head(ety)
    d = ex.discr(st, v, ety)
    if head == "Result":
        okv = ex.project(st, ex.project(st, v, ("v", "Ok")), ("f", 0), _generic_arg(ety, 0))
        errv = ex.project(st, ex.project(st, v, ("v", "Err")), ("f", 0), _generic_arg(ety, 1))
        cont = Agg("ControlFlow", "Continue", [okv])
        brk = Agg("ControlFlow", "Break", [Agg("Result", "Err", [errv])])
        iscont = d == 0
    elif head == "Option":
        somev = ex.project(st, ex.project(st, v, ("v", "Some")), ("f", 0), _generic_arg(ety, 0))
        cont = Agg("ControlFlow", "Continue", [somev])
        brk = Agg("ControlFlow", "Break", [Agg("Option", "None", [])])
        iscont = d == 1
    else:
        return NotImplemented
    c = z3.simplify(iscont)
    if z3.is_true(c):
        return cont
    if z3.is_false(c):
        return brk
    return Opq(ex.fresh("branch", Val), "ControlFlow",
               {("d",): z3.If(iscont, z3.IntVal(0), z3.IntVal(1)),
                ("v", "Continue"): cont, ("v", "Break"): brk})


def _generic_arg(ty, i):
    m = re.search(r"<(.*)>$", ty.strip(), re.S)
    if not m:
        return "?"
    parts = split_top(m.group(1))
    return parts[i] if i < len(parts) else "?"


def m_from_residual(ex, st, fr, callee, args, argtys, dty):
    v = _deref_val(ex, st, args[0])
    head = ty_head(dty)
    if head == "Result":
        if isinstance(v, Agg) and v.variant == "Err":
            e = v.fields[0]
        else:
            e = ex.project(st, ex.project(st, v, ("v", "Err")), ("f", 0), "?")
        # error conversion (From) is identity when types agree; otherwise uninterpreted
        src_e = _generic_arg(argtys[0], 1)
        dst_e = _generic_arg(dty, 1)
        if src_e.strip() != dst_e.strip():
            e = Opq(ex.uf("from_err", Val, Val)(ex.to_val(st, e)), dst_e)
        return Agg("Result", "Err", [e])
    if head == "Option":
        return Agg("Option", "None", [])
    return NotImplemented


def m_vec_new(ex, st, fr, callee, args, argtys, dty):
    return Seq()


def m_int_from(ex, st, fr, callee, args, argtys, dty):
    """<iN as From<bool|uM|iM>>::from (lossless widening)."""
    v = args[0]
    w = INT_W.get(dty.strip())
    if w is None:
        return NotImplemented
    if z3.is_bool(v):
        return z3.If(v, z3.BitVecVal(1, w), z3.BitVecVal(0, w))
    if z3.is_bv(v) and v.size() <= w:
        if v.size() == w:
            return v
        return z3.SignExt(w - v.size(), v) if is_signed(argtys[0].strip()) else z3.ZeroExt(w - v.size(), v)
    return NotImplemented


def m_enum_eq_unit(ex, st, fr, callee, args, argtys, dty):
    """<Enum as PartialEq>::eq where one side is a concrete field-less variant."""
    a, b = _deref_val(ex, st, args[0]), _deref_val(ex, st, args[1])
    for x, y, ty in ((a, b, argtys[1]), (b, a, argtys[0])):
        if isinstance(x, Agg) and x.variant is not None and not x.fields:
            d = ex.discr(st, y, strip_ref(strip_ref(ty)))
            r = d == ex.discr_of_variant(x.ty, x.variant)
            return z3.Not(r) if callee.rstrip().endswith("::ne") else r
    return NotImplemented


def _as_seq(ex, st, v):
    v = _deref_val(ex, st, v)
    if isinstance(v, Seq):
        return v
    if isinstance(v, Agg) and v.ty in ("array", "vec"):
        return Seq([("item", f) for f in v.fields])
    if isinstance(v, Opq):
        t = ex.to_val(st, v)
        return Seq([("opq", t, ex.uf("seq:len", Val, z3.BitVecSort(64))(t))])
    raise Unsupported(f"not a vector: {type(v).__name__}")


def m_vec_push(ex, st, fr, callee, args, argtys, dty):
    if not isinstance(args[0], Ref):
        return NotImplemented
    cur = _deref_val(ex, st, args[0])
    if isinstance(cur, SymColl):
        ex.write_ref(st, args[0], SymColl(cur.items + ((z3.BoolVal(True), args[1]),), cur.kind))
        return UNIT
    v = _as_seq(ex, st, args[0])
    ex.write_ref(st, args[0], Seq(v.parts + (("item", args[1]),)))
    return UNIT


def m_vec_append(ex, st, fr, callee, args, argtys, dty):
    if not (isinstance(args[0], Ref) and isinstance(args[1], Ref)):
        return NotImplemented
    a, b = _as_seq(ex, st, args[0]), _as_seq(ex, st, args[1])
    ex.write_ref(st, args[0], Seq(a.parts + b.parts))
    ex.write_ref(st, args[1], Seq())
    return UNIT


def m_vec_from_elem(ex, st, fr, callee, args, argtys, dty):
    n = args[1]
    if not z3.is_bv(n):
        return NotImplemented
    st.events.append({"callee": callee, "name": "from_elem", "args": args,
                      "argvals": [ex.to_val(st, args[0]), ex.to_val(st, n)], "ret": None,
                      "in": ex.canon_item(fr.fn), "depth": len(st.frames), "ncond": len(st.cond)})
    return Seq([("rep", args[0], n)])


def m_vec_pop(ex, st, fr, callee, args, argtys, dty):
    if not isinstance(args[0], Ref):
        return NotImplemented
    v = _as_seq(ex, st, args[0])
    if not v.parts:
        return Agg("Option", "None", [])
    last = v.parts[-1]
    if last[0] == "item":
        ex.write_ref(st, args[0], Seq(v.parts[:-1]))
        return Agg("Option", "Some", [last[1]])
    if last[0] == "opq" and len(v.parts) == 1:
        t, n = last[1], last[2]
        init = ex.uf("seq:init", Val, Val)(t)
        lastv = Opq(ex.uf("seq:last", Val, Val)(t), _generic_arg(strip_ref(argtys[0]), 0))
        # the receiver is updated on the Some branch only; encode both outcomes through the length
        ex.write_ref(st, args[0], Seq([("opq", z3.If(n == 0, t, init), z3.If(n == 0, n, n - 1))]))
        return Fork([(n == 0, Agg("Option", "None", [])), (n != 0, Agg("Option", "Some", [lastv]))])
    raise Unsupported("pop from a vector whose last part is symbolic")


def m_vec_len(ex, st, fr, callee, args, argtys, dty):
    return _as_seq(ex, st, args[0]).length()


def m_vec_is_empty(ex, st, fr, callee, args, argtys, dty):
    return _as_seq(ex, st, args[0]).length() == 0


def m_box_uninit(ex, st, fr, callee, args, argtys, dty):
    return Ref(ex.new_cell(st, None))


def m_box_into_vec(ex, st, fr, callee, args, argtys, dty):
    v = _deref_val(ex, st, args[0])
    if isinstance(v, Agg) and v.ty == "array":
        return Seq([("item", f) for f in v.fields])
    return NotImplemented


def m_must_use(ex, st, fr, callee, args, argtys, dty):
    return args[0]


def m_bool_then_some(ex, st, fr, callee, args, argtys, dty):
    return NotImplemented


def fn_of_value(ex, v):
    """MIR function behind a closure / fn-item value (or None)."""
    if isinstance(v, Agg) and v.ty == "closure":
        text = v.variant
    elif isinstance(v, FnItem):
        text = v.text
    else:
        return None
    m = re.match(r"^\{closure@([^}]*)\}$", text.strip())
    if m:
        cm = getattr(ex.mir, "_closure_fns", None)
        if cm is None:
            cm = ex.mir._closure_fns = {}
            for fname, fn in ex.mir.fns.items():
                if "{closure#" in fname and fn.args:
                    k = re.search(r"\{closure@([^}]*)\}", fn.args[0][1])
                    if k:
                        cm[k.group(1)] = fn
        return cm.get(m.group(1))
    return ex.resolve(text)


def closure_call(ex, st, fv, params, wrap=None):
    """Inline call of a closure / fn item value with the given parameter values."""
    fn = fn_of_value(ex, fv)
    if fn is None or not fn.blocks:
        return None
    if "{closure#" in fn.name:
        envty = fn.args[0][1].strip()
        env = Ref(ex.new_cell(st, fv)) if envty.startswith("&") else fv
        args = [env] + list(params)
    else:
        args = list(params)
    return Inline(fn, args, wrap)


def variant_payload(ex, st, v, variant, ty):
    """Payload (field 0) of `variant` of enum value v, or None when v is concretely another variant."""
    if isinstance(v, Agg):
        if v.variant != variant:
            return None
        return v.fields[0] if v.fields else UNIT
    return ex.project(st, ex.project(st, v, ("v", variant)), ("f", 0), ty)


def m_option_map_or(ex, st, fr, callee, args, argtys, dty):
    opt, default, f = args
    v = _deref_val(ex, st, opt)
    d = ex.discr(st, v, argtys[0])
    alts = [(d == 0, default)]
    payload = variant_payload(ex, st, v, "Some", _generic_arg(argtys[0], 0))
    if payload is not None:
        inl = closure_call(ex, st, f, [payload])
        if inl is None:
            return NotImplemented
        alts.append((d == 1, inl))
    return Fork(alts)


def m_option_map(ex, st, fr, callee, args, argtys, dty):
    opt, f = args
    v = _deref_val(ex, st, opt)
    d = ex.discr(st, v, argtys[0])
    alts = [(d == 0, Agg("Option", "None", []))]
    payload = variant_payload(ex, st, v, "Some", _generic_arg(argtys[0], 0))
    if payload is not None:
        inl = closure_call(ex, st, f, [payload], wrap=lambda r: Agg("Option", "Some", [r]))
        if inl is None:
            return NotImplemented
        alts.append((d == 1, inl))
    return Fork(alts)


def m_ok_or_else(ex, st, fr, callee, args, argtys, dty):
    opt, f = args
    v = _deref_val(ex, st, opt)
    d = ex.discr(st, v, argtys[0])
    alts = []
    payload = variant_payload(ex, st, v, "Some", _generic_arg(argtys[0], 0))
    if payload is not None:
        alts.append((d == 1, Agg("Result", "Ok", [payload])))
    inl = closure_call(ex, st, f, [], wrap=lambda r: Agg("Result", "Err", [r]))
    if inl is None:
        return NotImplemented
    alts.append((d == 0, inl))
    return Fork(alts)


def m_ok_or(ex, st, fr, callee, args, argtys, dty):
    opt, e = args
    v = _deref_val(ex, st, opt)
    d = ex.discr(st, v, argtys[0])
    alts = [(d == 0, Agg("Result", "Err", [e]))]
    payload = variant_payload(ex, st, v, "Some", _generic_arg(argtys[0], 0))
    if payload is not None:
        alts.append((d == 1, Agg("Result", "Ok", [payload])))
    return Fork(alts)


def m_map_err(ex, st, fr, callee, args, argtys, dty):
    res, f = args
    v = _deref_val(ex, st, res)
    d = ex.discr(st, v, argtys[0])
    alts = []
    okp = variant_payload(ex, st, v, "Ok", _generic_arg(argtys[0], 0))
    if okp is not None:
        alts.append((d == 0, Agg("Result", "Ok", [okp])))
    errp = variant_payload(ex, st, v, "Err", _generic_arg(argtys[0], 1))
    if errp is not None:
        inl = closure_call(ex, st, f, [errp], wrap=lambda r: Agg("Result", "Err", [r]))
        if inl is None:
            return NotImplemented
        alts.append((d == 1, inl))
    return Fork(alts)


def m_unwrap_or(ex, st, fr, callee, args, argtys, dty):
    opt, dflt = args
    v = _deref_val(ex, st, opt)
    d = ex.discr(st, v, argtys[0])
    head = ty_head(argtys[0])
    var, good = ("Some", 1) if head == "Option" else ("Ok", 0)
    alts = [(d != good, dflt)]
    payload = variant_payload(ex, st, v, var, dty)
    if payload is not None:
        alts.append((d == good, payload))
    return Fork(alts)


def _coll(ex, st, v):
    v = _deref_val(ex, st, v)
    return v if isinstance(v, SymColl) else None


def m_coll_iter(ex, st, fr, callee, args, argtys, dty):
    c = _coll(ex, st, args[0])
    if c is None:
        return NotImplemented
    return SymColl(c.items, "iter")


def m_coll_filter(ex, st, fr, callee, args, argtys, dty):
    c = _coll(ex, st, args[0])
    if c is None:
        return NotImplemented
    out = []
    for pres, val in c.items:
        cell = Ref(ex.new_cell(st, val))
        keep = ex.closure_value(st, args[1], [Ref(ex.new_cell(st, cell))])
        if keep is None or not z3.is_bool(keep):
            return NotImplemented
        out.append((z3.And(pres, keep), val))
    return SymColl(out, "iter")


def m_coll_map(ex, st, fr, callee, args, argtys, dty):
    c = _coll(ex, st, args[0])
    if c is None:
        return NotImplemented
    out = []
    for pres, val in c.items:
        r = ex.closure_value(st, args[1], [Ref(ex.new_cell(st, val))])
        if r is None:
            # a function item that cannot be resolved to one MIR body: element-wise uninterpreted application
            f = args[1]
            if not isinstance(f, FnItem):
                return NotImplemented
            r = ex.app(normalize_callee(f.text), [val], _generic_arg(dty, 1) if False else "?", st)
        out.append((pres, r))
    return SymColl(out, "iter")


def m_coll_collect(ex, st, fr, callee, args, argtys, dty):
    c = _coll(ex, st, args[0])
    if c is None:
        return NotImplemented
    if ty_head(dty) == "Result":
        # collect::<Result<Vec<T>, E>>: Err of the first failing present element, else Ok of all payloads
        oks, payloads, first_err = [], [], None
        ety = _generic_arg(dty, 1)
        tty = _generic_arg(_generic_arg(dty, 0), 0)
        for pres, val in c.items:
            v = _deref_val(ex, st, val)
            d = ex.discr(st, v, "Result<%s, %s>" % (tty, ety))
            okp = variant_payload(ex, st, v, "Ok", tty)
            errp = variant_payload(ex, st, v, "Err", ety)
            is_ok = d == 0
            oks.append(z3.Implies(pres, is_ok))
            payloads.append((pres, okp if okp is not None else Opq(ex.fresh("nopayload", Val), tty)))
            if errp is not None:
                ev = ex.to_val(st, errp)
                first_err = ev if first_err is None else z3.If(z3.And(pres, z3.Not(is_ok)), ev, first_err)
        all_ok = z3.And(*oks) if oks else z3.BoolVal(True)
        errv = Opq(first_err if first_err is not None else ex.fresh("noerr", Val), ety)
        return Opq(ex.fresh("collected", Val), dty,
                   {("d",): z3.If(all_ok, z3.IntVal(0), z3.IntVal(1)),
                    ("v", "Ok"): Agg("Result", "Ok", [SymColl(payloads, "coll")]),
                    ("v", "Err"): Agg("Result", "Err", [errv])})
    return SymColl(c.items, "coll")


def m_bool_cmp(ex, st, fr, callee, args, argtys, dty):
    a, b = _deref_val(ex, st, args[0]), _deref_val(ex, st, args[1])
    if not (z3.is_bool(a) and z3.is_bool(b)):
        return NotImplemented
    d = z3.If(a == b, z3.IntVal(0), z3.If(z3.And(z3.Not(a), b), z3.IntVal(-1), z3.IntVal(1)))
    return Opq(ex.fresh("ord", Val), "Ordering", {("d",): d})


def m_coll_contains(ex, st, fr, callee, args, argtys, dty):
    c = _coll(ex, st, args[0])
    if c is None:
        return NotImplemented
    x = ex.to_val(st, _deref_val(ex, st, args[1]))
    return z3.Or(*[z3.And(p, ex.to_val(st, v) == x) for p, v in c.items]) if c.items else z3.BoolVal(False)


def m_coll_len(ex, st, fr, callee, args, argtys, dty):
    c = _coll(ex, st, args[0])
    if c is None:
        return NotImplemented
    n = z3.BitVecVal(0, 64)
    for p_, _v in c.items:
        n = n + z3.If(p_, z3.BitVecVal(1, 64), z3.BitVecVal(0, 64))
    return n


def m_coll_is_empty(ex, st, fr, callee, args, argtys, dty):
    c = _coll(ex, st, args[0])
    if c is None:
        return NotImplemented
    return z3.And(*[z3.Not(p) for p, _ in c.items]) if c.items else z3.BoolVal(True)


def m_coll_any_all(ex, st, fr, callee, args, argtys, dty):
    c = _coll(ex, st, args[0])
    if c is None:
        return NotImplemented
    vals = []
    for pres, val in c.items:
        r = ex.closure_value(st, args[1], [Ref(ex.new_cell(st, val))])
        if r is None or not z3.is_bool(r):
            return NotImplemented
        vals.append((pres, r))
    if "::any::<" in callee or callee.rstrip().endswith("::any"):
        return z3.Or(*[z3.And(p, r) for p, r in vals]) if vals else z3.BoolVal(False)
    return z3.And(*[z3.Implies(p, r) for p, r in vals]) if vals else z3.BoolVal(True)


def m_unwrap_or_default_bool(ex, st, fr, callee, args, argtys, dty):
    if dty.strip() != "bool":
        return NotImplemented
    v = _deref_val(ex, st, args[0])
    d = ex.discr(st, v, argtys[0])
    head = ty_head(argtys[0])
    var, good = ("Some", 1) if head == "Option" else ("Ok", 0)
    payload = variant_payload(ex, st, v, var, "bool")
    if payload is None:
        return z3.BoolVal(False)
    return z3.And(d == good, payload)


def m_closure_call(ex, st, fr, callee, args, argtys, dty):
    """<{closure} as Fn*<(A, B, ..)>>::call*(closure, (a, b, ..)): run the closure body on the tuple's components."""
    f, tup = args
    try:
        fv = _deref_val(ex, st, f)
    except Unsupported:
        fv = None
    tv = _deref_val(ex, st, tup)
    if not isinstance(tv, Agg):
        return NotImplemented
    if not (isinstance(fv, Agg) and fv.ty == "closure"):
        # a closure without captures is zero-sized and never assigned: its type alone names the body
        m = re.match(r"^<(\{closure@[^}]*\}) as Fn", callee)
        if fv is not None and not isinstance(fv, Opq) or not m:
            return NotImplemented
        fv = Agg("closure", m.group(1), [])
    inl = closure_call(ex, st, fv, list(tv.fields))
    if inl is None:
        return NotImplemented
    return inl


def m_str_is_empty(ex, st, fr, callee, args, argtys, dty):
    """String::is_empty / str::is_empty of a literal."""
    v = _deref_val(ex, st, args[0])
    if isinstance(v, StrC):
        return z3.BoolVal(len(v.s) == 0)
    return NotImplemented


STD_MODELS = [
    (r"^(std::string::)?String::is_empty$|^core::str::<impl str>::is_empty$|^str::is_empty$", m_str_is_empty),
    (r"^<\{closure@[^}]*\} as Fn(Mut|Once)?<.*>>::call(_mut|_once)?$", m_closure_call),
    (r"^<bool as (Ord|PartialOrd)>::cmp$", m_bool_cmp),
    (r"^(Option|Result)::<.*>::unwrap_or_default$", m_unwrap_or_default_bool),
    (r"^(HashSet|Vec|BTreeSet)::<.*>::iter$|^core::slice::<impl \[.*\]>::iter$", m_coll_iter),
    (r" as Iterator>::filter::<", m_coll_filter),
    (r" as Iterator>::map::<", m_coll_map),
    (r" as Iterator>::collect::<", m_coll_collect),
    (r" as Iterator>::(any|all)::<", m_coll_any_all),
    (r"^(HashSet|Vec)::<.*>::is_empty$", m_coll_is_empty),
    (r"^(HashSet|Vec)::<.*>::len$", m_coll_len),
    (r"^core::slice::<impl \[.*\]>::contains$|^(HashSet|Vec)::<.*>::contains(::<.*>)?$", m_coll_contains),
    (r"^Option::<.*>::ok_or_else::<", m_ok_or_else),
    (r"^Option::<.*>::ok_or::<", m_ok_or),
    (r"^Result::<.*>::map_err::<", m_map_err),
    (r"^(Option|Result)::<.*>::unwrap_or$", m_unwrap_or),
    (r"^Option::<.*>::map_or::<", m_option_map_or),
    (r"^Option::<.*>::map::<", m_option_map),
    (r"^<.* as Clone>::clone$", m_clone),
    (r"^<.* as (Deref|DerefMut)>::deref(_mut)?$", m_identity),
    (r"^<.* as AsRef<.*>>::as_ref$", m_identity),
    (r"^<.* as (Borrow|BorrowMut)<.*>>::borrow(_mut)?$", m_identity),
    (r"^<Box<.*> as From<.*>>::from$", m_identity),
    (r"^<std::string::String as From<&(mut )?(str|std::string::String)>>::from$", m_identity),
    (r"^<str as ToString>::to_string$", m_identity),
    (r"^<str as ToOwned>::to_owned$", m_identity),
    (r"^<std::string::String as ToString>::to_string$", m_identity),
    (r"^std::string::String::as_str$", m_identity),
    (r"^Box::<.*>::new$", m_identity),
    (r"^std::cmp::(max|min)::<", m_max),
    (r"^(Option|Result)::<.*>::(is_some|is_none|is_ok|is_err)$", m_is_some),
    (r"^(Option|Result)::<.*>::(unwrap|expect|unwrap_err|expect_err)$", m_unwrap),
    (r"^<&bool as (std::ops::)?Not>::not$", m_not_ref_bool),
    (r"^<(&?str|&?&?std::string::String|&&str|std::string::String) as PartialEq(<.*>)?>::(eq|ne)$", m_str_eq),
    (r"^<.* as (std::ops::)?Try>::branch$", m_try_branch),
    (r"^<.* as (std::ops::)?FromResidual<.*>>::from_residual$", m_from_residual),
    (r"^<(Token|NodeTy|Node|Core) as PartialEq>::(eq|ne)$", m_enum_eq_unit),
    (r"^<[iu](8|16|32|64|128|size) as From<(bool|[iu]\d+|char)>>::from$", m_int_from),
    (r"^Vec::<.*>::new$", m_vec_new),
    (r"^Vec::<.*>::push$", m_vec_push),
    (r"^Vec::<.*>::append$", m_vec_append),
    (r"^Vec::<.*>::pop$", m_vec_pop),
    (r"^Vec::<.*>::len$", m_vec_len),
    (r"^Vec::<.*>::is_empty$", m_vec_is_empty),
    (r"^std::vec::from_elem::<", m_vec_from_elem),
    (r"^Box::<\[.*\]>::new_uninit$", m_box_uninit),
    (r"^std::boxed::box_assume_init_into_vec_unsafe::<", m_box_into_vec),
    (r"^must_use::<", m_must_use),
    (r"^std::mem::drop::<", lambda *a: UNIT),
]
