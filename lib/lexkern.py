"""E2 encodings of the lexer kernels: State::{token,newline,space,flush_indents}, Lex::new,
CaretPos arithmetic, and the z3 composition of the State summaries (balance, layout trivia)."""
import re
import z3

import common
import e2
from e2 import conj, disj
from mirsym import (Exec, State, Opq, Agg, Ref, StrC, Seq, Val, Unsupported, Fork, Panic, _deref_val,
                    UNIT)

STATE_RS = "src/parse/lex/state.rs"
TOKEN_RS = "src/parse/lex/token.rs"
TOKENIZE_RS = "src/parse/lex/tokenize.rs"
POSITION_RS = "src/common/position.rs"

MAXN = 1 << 20          # bound on caret coordinates, token widths, line counts, indentation

STATE_INLINE = [r"State::newline$", r"Lex::new$", r"CaretPos::(offset_pos|offset_line|newline|new|start)$",
                r"position::Position::new$"]


def nl_of(ex, sval):
    """#newline characters of a string value (uninterpreted, bounded)."""
    nl = ex.uf("newlines", Val, z3.BitVecSort(64))(sval)
    ex.axioms.append(z3.ULE(nl, MAXN))
    return nl


def tail_of(ex, sval):
    return ex.uf("tail_nonempty", Val, z3.BoolSort())(sval)


def m_iter_count(ex, st, fr, callee, args, argtys, dty):
    """str::lines().count() = (#'\\n') + (1 if the text after the last '\\n' is non-empty else 0);
    str::matches('\\n').count() = #'\\n' (documented contracts of std)."""
    it = ex.to_val(st, args[0])
    if z3.is_app(it) and it.decl().name() == "call:lines/1":
        sval = it.arg(0)
        return nl_of(ex, sval) + z3.If(tail_of(ex, sval), z3.BitVecVal(1, 64), z3.BitVecVal(0, 64))
    if z3.is_app(it) and it.decl().name() == "call:matches/2":
        sval, pat = it.arg(0), it.arg(1)
        nlc = ex.to_val(st, z3.BitVecVal(10, 32))
        if z3.eq(pat, nlc):
            return nl_of(ex, sval)
    return NotImplemented


def m_token_width(ex, st, fr, callee, args, argtys, dty):
    t = ex.to_val(st, args[0])
    w = ex.uf("width", Val, z3.BitVecSort(64))(t)
    ex.axioms.append(z3.ULE(w, MAXN))
    return w


LEX_MODELS = [
    (r" as Iterator>::count$", m_iter_count),
    (r"^Token::width$", m_token_width),
]


def state_fields():
    src = common.read_repo(STATE_RS)
    m = re.search(r"pub struct State \{(.*?)\n\}", src, re.S)
    names = re.findall(r"^\s*(?:pub )?(\w+):", m.group(1), re.M)
    if sorted(names) != sorted(["newlines", "cur_indent", "line_indent", "token_this_line", "pos"]):
        raise Unsupported(f"State fields changed: {names}")
    return names


class SymState:
    def __init__(self, ex, st, k_pending, tag="s"):
        self.cur, self.li = z3.BitVec(f"{tag}.cur_indent", 32), z3.BitVec(f"{tag}.line_indent", 32)
        self.ttl = z3.Bool(f"{tag}.token_this_line")
        self.line, self.col = z3.BitVec(f"{tag}.pos.line", 64), z3.BitVec(f"{tag}.pos.pos", 64)
        self.pending = [Opq(z3.Const(f"{tag}.newline{i}", Val), "Lex") for i in range(k_pending)]
        self.names = state_fields()
        by = {"newlines": Seq([("item", x) for x in self.pending]), "cur_indent": self.cur,
              "line_indent": self.li, "token_this_line": self.ttl,
              "pos": Agg("CaretPos", None, [self.line, self.col])}
        self.ref = Ref(ex.new_cell(st, Agg("State", None, [by[n] for n in self.names], self.names)))

    def inv(self):
        """Representation invariant of reachable states (and the bounds of the claim)."""
        return z3.And(self.cur >= 1, self.cur <= MAXN, self.li >= 1, self.li <= MAXN,
                      z3.UGE(self.line, 1), z3.ULE(self.line, MAXN), z3.UGE(self.col, 1), z3.ULE(self.col, MAXN))

    def vars(self):
        return {"cur_indent": self.cur, "line_indent": self.li, "token_this_line": self.ttl,
                "pos.line": self.line, "pos.pos": self.col}

    def after(self, p):
        v = p.state.cells[self.ref.cell]
        return dict(zip(self.names, v.fields))


def tok_kind(ex, st, lexval):
    """Lex value -> ('Indent'|'Dedent'|'NL'|None, start(line,col), token value)."""
    if isinstance(lexval, Agg) and lexval.ty == "Lex":
        pos, tok = lexval.fields
        start = pos.fields[0].fields
        end = pos.fields[1].fields
        kind = tok.variant if isinstance(tok, Agg) and tok.variant else None
        return kind, start, end, tok
    return None, None, None, lexval


def summarize_token_paths(ex, st, S, ends, tokval):
    """Per return path of State::token: counts of Indent/Dedent/NL emitted before the token, shape."""
    out = []
    for p in ends:
        if p.kind != "return":
            continue
        if not isinstance(p.ret, Seq):
            raise Unsupported(f"State::token returned {p.ret}")
        n_ind = n_ded = z3.BitVecVal(0, 64)
        n_nl_extra = 0
        items = []
        for part in p.ret.parts:
            if part[0] == "rep":
                kind, start, end, _t = tok_kind(ex, st, part[1])
                if kind == "Indent":
                    n_ind = n_ind + part[2]
                elif kind == "Dedent":
                    n_ded = n_ded + part[2]
                else:
                    raise Unsupported(f"repeated token of kind {kind}")
                items.append(("rep", kind, start, end, part[2]))
            elif part[0] == "item":
                v = part[1]
                if any(v is q for q in S.pending):
                    items.append(("pending", S.pending.index(v)))
                    continue
                kind, start, end, t = tok_kind(ex, st, v)
                if kind == "NL":
                    n_nl_extra += 1
                items.append(("item", kind, start, end, t))
            else:
                raise Unsupported("opaque part in State::token result")
        out.append({"path": p, "cond": conj(p.cond), "n_indent": z3.simplify(n_ind),
                    "n_dedent": z3.simplify(n_ded), "n_nl_extra": n_nl_extra, "items": items,
                    "after": S.after(p)})
    return out


def run_state_token(run, mir, k_pending, token=None, tag="s"):
    fn = e2.find1(mir, file=STATE_RS, impl="impl State", name="token")
    ex = Exec(mir, inline=STATE_INLINE, models=LEX_MODELS)
    st = State()
    S = SymState(ex, st, k_pending, tag)
    tok = token if token is not None else Opq(z3.Const("tok", Val), "Token")
    ends = e2.run_kernel(run, ex, fn, [S.ref, tok], st)
    return ex, st, S, tok, ends


def sdiv4(x):
    """Rust's i32 `/ 4` (truncating)."""
    return x / z3.BitVecVal(4, 32)
