"""E2 helpers: MIR loading, proving obligations over mirsym path sets, replay families."""
import os
import time
import z3

import common
import mirparse
import mirsym
from mirsym import Exec, State, Opq, Agg, Ref, StrC, Unsupported, Val

_MIR = {}


def load_mir(run):
    path, secs, cached = common.mir_dump()
    if path not in _MIR:
        t0 = time.time()
        _MIR[path] = mirparse.MirFile(path)
        common.log(f"[mir] {len(_MIR[path].fns)} items from {path} "
                   f"({'cache hit' if cached else f'dumped in {secs:.1f}s'}, parsed in {time.time()-t0:.1f}s)")
    run.extra.setdefault("mir_dump", {"path": path, "dump_s": round(secs, 1), "cache_hit": cached,
                                      "source_hash": common.repo_source_hash()})
    return _MIR[path]


def find1(mir, **kw):
    r = mir.find(**kw)
    if len(r) != 1:
        raise Unsupported(f"kernel lookup {kw} matched {len(r)} MIR items")
    return r[0]


def fn_record(run, fn):
    d = {"mir_item": fn.name, "blocks": len(fn.blocks), "mir_lines": fn.text_lines}
    if d not in run.functions:
        run.functions.append(d)


def conj(cs):
    cs = list(cs)
    if not cs:
        return z3.BoolVal(True)
    return z3.And(*cs) if len(cs) > 1 else cs[0]


def disj(cs):
    cs = list(cs)
    if not cs:
        return z3.BoolVal(False)
    return z3.Or(*cs) if len(cs) > 1 else cs[0]


TIMEOUT_MS = 120000


CROSS = {"enabled": False, "checked": 0, "agree": 0, "unknown_or_unsupported": 0, "disagree": []}


def cross_check(s, r):
    """Second opinion (thorough tier): the same query in SMT-LIB text through cvc5. Only definite, different answers count."""
    import subprocess
    import tempfile
    if r not in (z3.sat, z3.unsat):
        return
    try:
        txt = "(set-logic ALL)\n" + s.to_smt2()
        with tempfile.NamedTemporaryFile("w", suffix=".smt2", dir=common.scratch(), delete=False) as fh:
            fh.write(txt)
            path = fh.name
        p = subprocess.run(["cvc5", "--lang", "smt2", "--tlimit=20000", path], capture_output=True, text=True, timeout=40)
        os.unlink(path)
        out = (p.stdout + p.stderr).strip().split("\n")
        first = out[0].strip() if out else ""
    except Exception:
        first = "error"
    CROSS["checked"] += 1
    if first in ("sat", "unsat") and not any("(error" in l for l in out):
        if first == str(r):
            CROSS["agree"] += 1
        else:
            CROSS["disagree"].append({"z3": str(r), "cvc5": first, "query": txt[:400]})
    else:
        CROSS["unknown_or_unsupported"] += 1


def solve(ex, assertions, timeout_ms=TIMEOUT_MS):
    s = z3.Solver()
    s.set("timeout", timeout_ms)
    for a in ex.background():
        s.add(a)
    for a in assertions:
        s.add(a)
    t0 = time.time()
    r = s.check()
    dt = time.time() - t0
    if CROSS["enabled"]:
        cross_check(s, r)
    return r, (s.model() if r == z3.sat else None), dt, s


def abstract_const_div(exprs):
    """Replace every signed/unsigned bit-vector division by a positive constant c in the given
    expressions by a fresh quotient q constrained by the division lemma (t = c*q + r, |r| < c,
    r has the sign of t), which is equivalent and avoids bit-blasting the divider circuit.
    Returns (new_exprs, lemmas)."""
    cache, lemmas = {}, []
    memo = {}

    def walk(e):
        k = e.get_id()
        if k in memo:
            return memo[k]
        if z3.is_app(e) and e.num_args() > 0:
            args = [walk(a) for a in e.children()]
            dk = e.decl().kind()
            if dk in (z3.Z3_OP_BSDIV, z3.Z3_OP_BSDIV_I, z3.Z3_OP_BUDIV, z3.Z3_OP_BUDIV_I) and \
                    z3.is_bv_value(args[1]) and 0 < args[1].as_long() < (1 << (args[1].size() - 2)):
                t, c = args[0], args[1].as_long()
                w = t.size()
                key = (t.get_id(), c, dk)
                if key not in cache:
                    q = z3.BitVec(f"q!{len(cache)}", w)
                    r = z3.BitVec(f"r!{len(cache)}", w)
                    cache[key] = q
                    W = w + 8
                    signed = dk in (z3.Z3_OP_BSDIV, z3.Z3_OP_BSDIV_I)
                    ext = (lambda x: z3.SignExt(8, x)) if signed else (lambda x: z3.ZeroExt(8, x))
                    lem = [ext(t) == ext(q) * z3.BitVecVal(c, W) + ext(r)]
                    if signed:
                        lem += [z3.Implies(t >= 0, z3.And(r >= 0, r < c)),
                                z3.Implies(t < 0, z3.And(r <= 0, r > -c))]
                    else:
                        lem += [z3.ULT(r, c)]
                    lemmas.extend(lem)
                res = cache[key]
            else:
                res = e.decl()(*args) if args else e
        else:
            res = e
        memo[k] = res
        return res
    return [walk(e) for e in exprs], lemmas


def model_dict(model, names):
    out = {}
    for k, t in names.items():
        try:
            v = model.eval(t, model_completion=True)
            if z3.is_bool(v):
                out[k] = z3.is_true(v)
            elif z3.is_bv_value(v):
                out[k] = v.as_long()
            elif z3.is_int_value(v):
                out[k] = v.as_long()
            else:
                out[k] = str(v)
        except Exception as e:   # pragma: no cover
            out[k] = f"<{e}>"
    return out


def prove(run, ob, ex, hyps, claim, names=None, replay=None, reach=True, prefer=None):
    """Discharge `hyps => claim` (valid for all values) by asking z3 for hyps ∧ ¬claim.

    unsat -> discharged; sat -> model -> replay(model_dict) -> violated iff reproduced natively,
    otherwise inconclusive. Also checks that hyps alone are satisfiable (vacuity twin)."""
    names = names or {}
    hyps = list(hyps)
    if reach:
        r0, _m, dt0, _ = solve(ex, hyps)
        ob.solver_s += dt0
        ob.queries += 1
        ob.reach = str(r0)
        if r0 != z3.sat:
            return ob.inconclusive(f"vacuous: hypotheses are {r0}")
    r, m, dt, s = solve(ex, hyps + [z3.Not(claim)])
    ob.solver_s += dt
    ob.queries += 1
    if r == z3.unsat:
        return ob.discharged(f"unsat in {dt:.3f}s")
    if r != z3.sat:
        return ob.inconclusive(f"solver answered {r} ({s.reason_unknown()})")
    if prefer:
        for extra in prefer:
            r2, m2, dt2, _s2 = solve(ex, hyps + [z3.Not(claim)] + list(extra), 20000)
            ob.solver_s += dt2
            ob.queries += 1
            if r2 == z3.sat:
                m = m2
                break
    w = model_dict(m, names)
    if replay is None:
        return ob.inconclusive(f"sat, model {w}, but no replay available")
    rep = replay(w)
    if rep and rep.get("reproduced"):
        return ob.violated(rep.get("role", "model"), w, rep, rep.get("detail", ""))
    return ob.inconclusive(f"sat with model {w} but native replay did not reproduce: "
                           f"{(rep or {}).get('detail', '')}")


def run_kernel(run, ex, fn, args, st=None, pre=None):
    fn_record(run, fn)
    ends = ex.run(fn, args, st, pre)
    run.paths += len(ends)
    run.transitions += ex.stats["blocks"]
    return ends


class Family:
    """Replay family: small Mamba programs with the verdict the property demands."""

    def __init__(self, replay):
        self.replay = replay
        self.items = []

    def add(self, role, src, expect, annotate=False):
        self.items.append((role, src, expect, annotate))
        return self

    def run(self):
        bad = []
        n = 0
        for role, src, expect, annotate in self.items:
            st, out = self.replay.transpile(src, annotate)
            n += 1
            verdict = {"OK": "accept", "ERR": "reject"}.get(st, st.lower())
            ok = (verdict == expect) if isinstance(expect, str) else expect(verdict, out)
            if not ok:
                bad.append({"role": role, "src": src, "expected": expect if isinstance(expect, str) else "predicate",
                            "got": verdict, "output": out[:400]})
        return n, bad

    def as_replay(self, prefix="", only=None):
        def f(model):
            n, bad = self.run()
            if only is not None:
                bad = [b for b in bad if any(b["role"].startswith(o) for o in only)]
            if bad:
                b = bad[0]
                return {"reproduced": True, "role": prefix + b["role"], "detail":
                        f"program {b['src']!r}: expected {b['expected']}, real verdict {b['got']}",
                        "program": b["src"], "got": b["got"], "all_failing_roles": [x["role"] for x in bad]}
            return {"reproduced": False, "detail": f"all {n} family programs behave as required"}
        return f


def validate_family(run, fam, name):
    """Translator validation: on a tree where all obligations of a kernel are discharged the
    family must behave as required too; a mismatch means code *outside* the encoded kernel differs
    from what the encoding assumes -> inconclusive (never a VIOLATION: no solver model)."""
    n, bad = fam.run()
    run.validated += n
    if bad:
        o = run.ob(f"family-{name}", "native", "concrete replay family agrees with discharged obligations")
        o.inconclusive("family programs disagree although no obligation has a counterexample "
                       f"(code outside the encoded kernels?): {bad[:2]}")
    return bad


def no_panic(run, oid, desc, ex, ends, hyp, names, replay, functions=None, prefer=None):
    """Obligation: under hyp no path of the kernel ends in a panic (overflow assert, unwrap on the
    wrong variant, explicit panic) and every input is covered by some non-panicking path end."""
    ob = run.ob(oid, "E2", desc, functions)
    pan = [p for p in ends if p.kind == "panic"]
    good = [p for p in ends if p.kind in ("return", "loop_back")]
    other = [p for p in ends if p.kind not in ("return", "loop_back", "panic")]
    if other:
        return ob.inconclusive(f"unexpected path ends: {other[:2]}")
    claim = z3.And(z3.Not(disj([conj(p.cond) for p in pan])), disj([conj(p.cond) for p in good]))
    prove(run, ob, ex, hyp, claim, names, replay, prefer=prefer)
    ob.detail += f"; {len(pan)} panic path ends, {len(good)} normal path ends"
    if pan and not run.samples_has(oid):
        run.samples.append({"obligation": ob.id, "panic_sites": sorted({p.detail for p in pan})[:6],
                            "normal_paths": len(good)})
    return ob


# ------------------------------------------------------------------------------------------------
# source layout helpers (field orders of structs / enum variants from the current source)

import re as _re
import srcsym as _srcsym

_LAYOUT = {}


def rust_struct(rel, name):
    """Field names of `struct name {..}` in declaration order (= MIR field indices)."""
    key = ("s", rel, name)
    if key not in _LAYOUT:
        src = _srcsym.strip_comments(common.read_repo(rel))
        m = _re.search(r"\bstruct\s+%s\b[^{;]*\{" % _re.escape(name), src)
        if not m:
            raise Unsupported(f"struct {name} not found in {rel}")
        i = m.end() - 1
        j = _srcsym.match_close(src, i)
        body = _re.sub(r"#\[[^\]]*\]", "", src[i + 1:j])
        fields = []
        for it in _srcsym.split_top(body):
            fm = _re.match(r"^\s*(?:pub(?:\([^)]*\))?\s+)?(\w+)\s*:", it)
            if fm:
                fields.append(fm.group(1))
        _LAYOUT[key] = fields
    return _LAYOUT[key]


def rust_enum(rel, name):
    """{variant: [field names] | int (tuple arity) | None} in declaration order."""
    key = ("e", rel, name)
    if key not in _LAYOUT:
        src = _srcsym.strip_comments(common.read_repo(rel))
        m = _re.search(r"\benum\s+%s\b[^{;]*\{" % _re.escape(name), src)
        if not m:
            raise Unsupported(f"enum {name} not found in {rel}")
        i = m.end() - 1
        j = _srcsym.match_close(src, i)
        body = _re.sub(r"#\[[^\]]*\]", "", src[i + 1:j])
        out = {}
        for it in _srcsym.split_top(body):
            vm = _re.match(r"^\s*(\w+)\s*(.*)$", it, _re.S)
            if not vm:
                continue
            rest = vm.group(2).strip()
            if rest.startswith("{"):
                inner = rest[1:_srcsym.match_close(rest, 0)]
                out[vm.group(1)] = [_re.match(r"^\s*(\w+)\s*:", f).group(1) for f in _srcsym.split_top(inner) if _re.match(r"^\s*(\w+)\s*:", f)]
            elif rest.startswith("("):
                inner = rest[1:_srcsym.match_close(rest, 0)]
                out[vm.group(1)] = len(_srcsym.split_top(inner))
            else:
                out[vm.group(1)] = None
        _LAYOUT[key] = out
    return _LAYOUT[key]


def mk_struct(rel, name, values, tyname=None):
    fields = rust_struct(rel, name)
    missing = [f for f in fields if f not in values]
    extra = [f for f in values if f not in fields]
    if missing or extra:
        raise Unsupported(f"struct {name}: fields changed (missing {missing}, unknown {extra})")
    return Agg(tyname or name, None, [values[f] for f in fields], fields)


def mk_variant(rel, enum, variant, values):
    lay = rust_enum(rel, enum).get(variant, "?")
    if lay == "?":
        raise Unsupported(f"{enum}::{variant} not found")
    if lay is None:
        return Agg(enum, variant, [])
    if isinstance(lay, int):
        if len(values) != lay:
            raise Unsupported(f"{enum}::{variant} arity changed")
        return Agg(enum, variant, list(values))
    missing = [f for f in lay if f not in values]
    extra = [f for f in values if f not in lay]
    if missing or extra:
        raise Unsupported(f"{enum}::{variant}: fields changed (missing {missing}, unknown {extra})")
    return Agg(enum, variant, [values[f] for f in lay], lay)


def opq(name, ty="?"):
    return Opq(z3.Const(name, Val), ty)


def sym_option(name, payload, ty="Option"):
    """Option value with a free discriminant and the given Some payload."""
    some = z3.Bool(name + ".is_some")
    v = Opq(z3.Const(name, Val), ty, {("d",): z3.If(some, z3.IntVal(1), z3.IntVal(0)),
                                      ("v", "Some"): Agg("Option", "Some", [payload])})
    return v, some


def calls(p, name):
    return [ev for ev in p.events if ev["name"] == name]


def result_kind(p):
    """'Ok' | 'Err' | None for a return path whose value is a Result aggregate."""
    if p.kind == "return" and isinstance(p.ret, Agg) and p.ret.ty == "Result":
        return p.ret.variant
    return None


def rust_struct_types(rel, name):
    """{field: type text} of a struct."""
    key = ("st", rel, name)
    if key not in _LAYOUT:
        src = _srcsym.strip_comments(common.read_repo(rel))
        m = _re.search(r"\bstruct\s+%s\b[^{;]*\{" % _re.escape(name), src)
        if not m:
            raise Unsupported(f"struct {name} not found in {rel}")
        i = m.end() - 1
        j = _srcsym.match_close(src, i)
        body = _re.sub(r"#\[[^\]]*\]", "", src[i + 1:j])
        out = {}
        for it in _srcsym.split_top(body):
            fm = _re.match(r"^\s*(?:pub(?:\([^)]*\))?\s+)?(\w+)\s*:\s*(.*)$", it, _re.S)
            if fm:
                out[fm.group(1)] = fm.group(2).strip()
        _LAYOUT[key] = out
    return _LAYOUT[key]


def sym_struct(rel, name, tag, overrides=None):
    """Struct value with free fields of the right sort (bool -> Bool, integers -> BitVec, else opaque)."""
    from mirsym import INT_W
    vals = {}
    for f, ty in rust_struct_types(rel, name).items():
        if overrides and f in overrides:
            vals[f] = overrides[f]
        elif ty == "bool":
            vals[f] = z3.Bool(f"{tag}.{f}")
        elif ty in INT_W:
            vals[f] = z3.BitVec(f"{tag}.{f}", INT_W[ty])
        else:
            vals[f] = opq(f"{tag}.{f}", ty)
    return mk_struct(rel, name, vals), vals


def prove_each(run, ob, ex, hyps, claims, names=None, replay=None, prefer=None, timeout_ms=60000):
    """Like prove() for a conjunction of claims, but one query per conjunct (large conjunctions of
    easy facts can defeat the solver's heuristics). Vacuity twin on the hypotheses once."""
    names = names or {}
    hyps = list(hyps)
    r0, _m, dt0, _ = solve(ex, hyps)
    ob.solver_s += dt0
    ob.queries += 1
    ob.reach = str(r0)
    if r0 != z3.sat:
        return ob.inconclusive(f"vacuous: hypotheses are {r0}")
    for i, cl in enumerate(claims):
        r, m, dt, s = solve(ex, hyps + [z3.Not(cl)], timeout_ms)
        ob.solver_s += dt
        ob.queries += 1
        if r == z3.unsat:
            continue
        if r != z3.sat:
            return ob.inconclusive(f"solver answered {r} on conjunct {i} ({s.reason_unknown()})")
        if prefer:
            for extra in prefer:
                r2, m2, dt2, _s2 = solve(ex, hyps + [z3.Not(cl)] + list(extra), 20000)
                ob.solver_s += dt2
                ob.queries += 1
                if r2 == z3.sat:
                    m = m2
                    break
        w = model_dict(m, names)
        if replay is None:
            return ob.inconclusive(f"sat (conjunct {i}), model {w}, but no replay available")
        rep = replay(w)
        if rep and rep.get("reproduced"):
            return ob.violated(rep.get("role", "model"), w, rep, rep.get("detail", ""))
        return ob.inconclusive(f"sat (conjunct {i}) with model {w} but native replay did not reproduce: {(rep or {}).get('detail', '')}")
    return ob.discharged(f"{len(claims)} conjuncts unsat in {ob.solver_s:.3f}s")
