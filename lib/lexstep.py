"""E2 encoding of one lexer step (`into_tokens`) over a symbolic character stream.

The character iterator is modelled by its documented contract: a position idx into an arbitrary stream
ch(0), ch(1), ... of n characters (peek does not move, next moves by one); Strings are modelled by their
length (ASCII: one byte per character). Scanning loops are handled by induction: at the loop header the
loop state is havocked under the stated invariant `characters consumed = characters accounted for in the
lexeme(s)`; a path either re-establishes the invariant at the back edge or leaves the loop and runs on
to the token that is created, where `width(token) = characters consumed` is the claim."""
import re
import z3

import common
import e2
import lexkern
import srcsym
from e2 import conj, disj, opq
from lexkern import MAXN, SymState
from mirsym import (Exec, State, Opq, Agg, Ref, StrC, Seq, Val, Unsupported, Fork, Panic, _deref_val, UNIT,
                    Inline)

TOKENIZE_RS = lexkern.TOKENIZE_RS
BV64 = z3.BitVecSort(64)


def sstr(n, tag=None):
    return Agg("SStr", None, [n], ["len"])


def is_sstr(v):
    return isinstance(v, Agg) and v.ty == "SStr"


def slen(ex, st, v):
    v = _deref_val(ex, st, v)
    if is_sstr(v):
        return v.fields[0]
    if isinstance(v, StrC):
        return z3.BitVecVal(len(v.s.encode()), 64)
    if isinstance(v, Opq):
        return ex.uf("strlen", Val, BV64)(ex.to_val(st, v))
    raise Unsupported(f"length of {type(v).__name__}")


class Stream:
    def __init__(self, ex):
        self.ex = ex
        self.n = z3.BitVec("input.len", 64)
        self.ch = ex.uf("input.char", BV64, z3.BitVecSort(32))
        ex.axioms.append(z3.ULE(self.n, MAXN))

    def at(self, idx):
        c = self.ch(idx)
        self.ex.axioms.append(z3.ULT(c, 128))        # ASCII window (stated bound)
        return c


def models(stream):
    def it_val(ex, st, a):
        v = _deref_val(ex, st, a)
        if not (isinstance(v, Agg) and v.ty == "CharIt"):
            raise Unsupported(f"iterator value {v}")
        return v

    def it_ref(ex, st, a):
        r = a
        while isinstance(r, Ref):
            v = ex.read_ref(st, r)
            if isinstance(v, Ref):
                r = v
            else:
                return r
        raise Unsupported("iterator is not behind a reference")

    def m_peek(ex, st, fr, callee, args, argtys, dty):
        idx = it_val(ex, st, args[0]).fields[0]
        c = stream.at(idx)
        return Fork([(z3.ULT(idx, stream.n), Agg("Option", "Some", [Ref(ex.new_cell(st, c))])),
                     (z3.Not(z3.ULT(idx, stream.n)), Agg("Option", "None", []))])

    def m_next(ex, st, fr, callee, args, argtys, dty):
        r = it_ref(ex, st, args[0])
        idx = ex.read_ref(st, r).fields[0]
        c = stream.at(idx)
        has = z3.ULT(idx, stream.n)
        # the position only moves when a character is returned (a Chars iterator is fused)
        ex.write_ref(st, r, Agg("CharIt", None, [z3.If(has, idx + 1, idx)], ["idx"]))
        return Fork([(has, Agg("Option", "Some", [c])), (z3.Not(has), Agg("Option", "None", []))])

    def m_into_iter(ex, st, fr, callee, args, argtys, dty):
        return args[0]

    def m_string_new(ex, st, fr, callee, args, argtys, dty):
        return sstr(z3.BitVecVal(0, 64))

    def m_to_string(ex, st, fr, callee, args, argtys, dty):
        return sstr(z3.BitVecVal(1, 64))

    def m_push(ex, st, fr, callee, args, argtys, dty):
        v = ex.read_ref(st, args[0]) if isinstance(args[0], Ref) else None
        if not is_sstr(v):
            return NotImplemented
        ex.write_ref(st, args[0], sstr(v.fields[0] + 1))
        return UNIT

    def m_len(ex, st, fr, callee, args, argtys, dty):
        return slen(ex, st, args[0])

    def m_is_empty(ex, st, fr, callee, args, argtys, dty):
        return slen(ex, st, args[0]) == 0

    def m_clear(ex, st, fr, callee, args, argtys, dty):
        if isinstance(args[0], Ref):
            ex.write_ref(st, args[0], sstr(z3.BitVecVal(0, 64)))
        return UNIT

    def m_as_op_or_id(ex, st, fr, callee, args, argtys, dty):
        n = slen(ex, st, args[0])
        t = ex.fresh("keyword_or_id", Val)
        # contract of the table (decided separately by the Kani table harness and the Display templates):
        # the token it returns is spelled exactly like the lexeme
        ex.axioms.append(ex.uf("width", Val, BV64)(t) == n)
        tok = Opq(t, "Token")
        kinds = [k for k in ("Str", "DocStr", "NL") if k in (ex.enum_variants("Token") or [])]
        d = ex.discr(st, tok, "Token")
        for k in kinds:
            ex.axioms.append(d != ex.discr_of_variant("Token", k))
        return tok

    def m_trim(ex, st, fr, callee, args, argtys, dty):
        n = slen(ex, st, args[0])
        m = ex.fresh("trimmed.len", BV64)
        ex.axioms.append(z3.ULE(m, n))
        return sstr(m)

    def m_index_range(ex, st, fr, callee, args, argtys, dty):
        n = slen(ex, st, args[0])
        r = _deref_val(ex, st, args[1])
        if not (isinstance(r, Agg) and len(r.fields) == 2):
            return NotImplemented
        a, b = r.fields
        bad = z3.Or(z3.UGT(a, b), z3.UGT(b, n))
        return Panic(bad, "string slice out of range", sstr(b - a))

    return [
        (r"^core::str::<impl str>::trim(_start|_end)?(_matches::<.*>)?$", m_trim),
        (r"^<std::string::String as std::ops::Index<std::ops::Range<usize>>>::index$", m_index_range),
        (r"^Peekable::<Chars<'_>>::peek$", m_peek),
        (r"^<(&mut )?Peekable<Chars<'_>> as Iterator>::next$", m_next),
        (r"^<&mut Peekable<Chars<'_>> as IntoIterator>::into_iter$", m_into_iter),
        (r"^std::string::String::new$", m_string_new),
        (r"^<char as ToString>::to_string$", m_to_string),
        (r"^std::string::String::push$", m_push),
        (r"^std::string::String::len$", m_len),
        (r"^std::string::String::is_empty$", m_is_empty),
        (r"^std::string::String::clear$", m_clear),
        (r"^as_op_or_id$", m_as_op_or_id),
    ]


def display_widths(ex):
    """Token variant -> function(fields) -> BV64 width, from the source-extracted Display templates."""
    tpls = srcsym.token_display_templates(common.read_repo(lexkern.TOKEN_RS))
    out = {}
    for variant, t in tpls.items():
        if t["template"] is None:
            continue
        out[variant] = (t["fields"], t["template"])
    return out


def m_token_width_factory(widths):
    def m_token_width(ex, st, fr, callee, args, argtys, dty):
        v = _deref_val(ex, st, args[0])
        if isinstance(v, Agg) and v.ty == "Token" and v.variant in widths:
            fields, tpl = widths[v.variant]
            w = z3.BitVecVal(0, 64)
            for p in tpl:
                if p[0] == "lit":
                    w = w + len(p[1].encode())
                elif p[0] == "str":
                    if p[1] not in fields:
                        raise Unsupported(f"Display of Token::{v.variant} uses unknown field {p[1]}")
                    w = w + slen(ex, st, v.fields[fields.index(p[1])])
                else:
                    raise Unsupported(f"Display template piece {p}")
            return z3.simplify(w)
        return lexkern.m_token_width(ex, st, fr, callee, args, argtys, dty)
    return m_token_width


class StepRun:
    """One symbolic execution of into_tokens: paths, the stream, the state, per-loop bookkeeping."""

    def __init__(self, run, mir):
        self.fn = e2.find1(mir, file=TOKENIZE_RS, name="into_tokens")
        ex = Exec(mir, inline=lexkern.STATE_INLINE + [r"^create$", r"^next_and_create$", r"State::(token|space)$"],
                  max_paths=60000, max_depth=6)
        self.ex = ex
        self.stream = Stream(ex)
        widths = display_widths(ex)
        ex.models = models(self.stream) + [(r"^Token::width$", m_token_width_factory(widths)),
                                           (r" as Iterator>::count$", lexkern.m_iter_count)]
        ex.havoc_pointees = True
        ex.havoc_shape = True
        self.loops = {}            # header bb -> info
        ex.loop_hook = self._hook
        st = State()
        self.st = st
        self.S = SymState(ex, st, 0, "s")
        self.c = z3.BitVec("c", 32)
        self.it = Ref(ex.new_cell(st, Agg("CharIt", None, [z3.BitVecVal(0, 64)], ["idx"])))
        self.dbg = {k: int(v[1:]) for k, v in self.fn.debug.items() if re.fullmatch(r"_\d+", v)}
        self.ends = e2.run_kernel(run, ex, self.fn, [self.c, self.it, self.S.ref], st)

    # ---- loop bookkeeping: classify the loop by the source variables it assigns, add the invariant
    def _loc(self, st, fr, name):
        n = self.dbg.get(name)
        if n is None:
            return None
        c = fr.locals.get(n)
        return st.cells.get(c) if c is not None else None

    def _consumed(self, st):
        v = self.ex.read_ref(st, self.it)
        return v.fields[0] + 1                 # the first character c was taken by the caller

    def invariant(self, kind, st, fr):
        """Inductive loop invariant: characters taken = characters accounted for, and never more than the input has."""
        cons = self._consumed(st)
        idx = cons - 1
        n = self.stream.n
        within = z3.ULE(idx, n)
        if kind == "number":
            number, exp = self._loc(st, fr, "number"), self._loc(st, fr, "exp")
            e_num = self._loc(st, fr, "e_num")
            if not (is_sstr(number) and is_sstr(exp) and z3.is_bool(e_num)):
                raise Unsupported("number loop state has an unexpected shape")
            ln, le = number.fields[0], exp.fields[0]
            return z3.And(cons == ln + le + z3.If(e_num, z3.BitVecVal(1, 64), z3.BitVecVal(0, 64)),
                          z3.Implies(z3.Not(e_num), le == 0), z3.UGE(ln, 1), z3.ULE(ln, cons), z3.ULE(le, cons), within)
        if kind in ("identifier", "comment"):
            s_ = self._loc(st, fr, "id_or_operation" if kind == "identifier" else "comment")
            if not is_sstr(s_):
                raise Unsupported(f"{kind} loop state has an unexpected shape")
            ln = s_.fields[0]
            first = 1 if kind == "identifier" else 0        # the '#' is not part of the comment text
            return z3.And(cons == ln + (1 - first), z3.UGE(ln, first), within)
        if kind == "string":
            string, cur_expr = self._loc(st, fr, "string"), self._loc(st, fr, "cur_expr")
            bce = self._loc(st, fr, "build_cur_expr")
            if not (is_sstr(string) and is_sstr(cur_expr) and z3.is_bv(bce)):
                raise Unsupported("string loop state has an unexpected shape")
            ls, lc = string.fields[0], cur_expr.fields[0]
            # the nesting counter is bounded by the characters read so far (signed counter: also from below)
            dty = fr.fn.locals.get(self.dbg.get("build_cur_expr"), "i32").strip()
            if bce.size() < 64:
                b64 = z3.SignExt(64 - bce.size(), bce) if dty.startswith("i") else z3.ZeroExt(64 - bce.size(), bce)
            else:
                b64 = bce
            if dty.startswith("i"):
                return z3.And(cons == ls + 1, z3.ULE(lc, ls), b64 <= idx, b64 >= -idx, within)
            return z3.And(cons == ls + 1, z3.ULE(lc, ls), z3.ULE(b64, idx), within)
        return None

    def _hook(self, phase, ex, st, fr, bb, assigned):
        if fr.fn is not self.fn:
            return
        names = {k for k, n in self.dbg.items() if n in assigned}
        kind = "number" if "number" in names else "identifier" if "id_or_operation" in names else \
            "comment" if "comment" in names else "string" if "string" in names else "other"
        info = self.loops.setdefault(bb, {"kind": kind, "base": [], "names": sorted(names)})
        inv = self.invariant(kind, st, fr) if kind in ("number", "identifier", "comment", "string") else None
        if inv is None:
            return
        if phase == "pre":
            info["base"].append((list(st.cond), inv))           # base case: holds on entry
        else:
            st.cond.append(inv)                                   # inductive hypothesis
            if kind == "string":
                # the loop state at the head of an arbitrary iteration (for the brace-counter obligation)
                info["head"] = {"build_cur_expr": self._loc(st, fr, "build_cur_expr"), "back_slash": self._loc(st, fr, "back_slash"),
                                "idx": self.ex.read_ref(st, self.it).fields[0]}


def obligations(run, mir, rp, replay, want=("advance", "invariants", "panic")):
    """Step-advance, loop-invariant and panic-freedom obligations over one symbolic execution of into_tokens."""
    try:
        sr = StepRun(run, mir)
    except Unsupported as e:
        run.ob("lexer-step-encoding", "E2", "into_tokens is encodable").inconclusive(f"unsupported construct: {e}")
        return None
    ex, S = sr.ex, sr.S
    names = dict(S.vars())
    names.update({"first_char": sr.c, "input.len": sr.stream.n})
    for i in range(4):
        names[f"lookahead[{i}]"] = sr.stream.ch(z3.BitVecVal(i, 64))
    hyp = [S.inv(), z3.ULT(sr.c, 128)]
    kinds = {bb: info["kind"] for bb, info in sr.loops.items()}
    run.samples.append({"obligation": "lexer-step", "path_ends": len(sr.ends), "loops": {str(k): v["kind"] for k, v in sr.loops.items()},
                        "first_char": "symbolic (all arms in one execution)"})

    def loop_of(p):
        for d, bb in p.state.trace:
            if d == 1 and bb in kinds:
                return kinds[bb]
        return None

    small = [z3.And(z3.ULE(sr.stream.n, 6), S.cur <= 9, S.li <= 9, z3.ULE(S.line, 9), z3.ULE(S.col, 9))]
    if "invariants" in want:
        for kind in ("number", "identifier", "comment", "string"):
            ob = run.ob(f"scan-loop-invariant-{kind}", "E2", f"the {kind} scanning loop keeps `characters taken from the input = "
                        "characters accounted for in the lexeme(s)` (and never more than the input has): holds on entry, and one "
                        "iteration from an arbitrary state satisfying it either re-establishes it or leaves the loop",
                        ["into_tokens (loop body)"])
            cl = []
            n_back = 0
            for bb, info in sr.loops.items():
                if info["kind"] != kind:
                    continue
                for cond, inv in info["base"]:
                    cl.append(z3.Implies(conj(cond), inv))
            for p in sr.ends:
                if p.kind != "loop_back" or loop_of(p) != kind:
                    continue
                n_back += 1
                fr0 = p.state.frames[0]
                cl.append(z3.Implies(conj(p.cond), sr.invariant(kind, p.state, fr0)))
            if not n_back:
                ob.inconclusive("loop body not reached")
            else:
                e2.prove_each(run, ob, ex, hyp, cl, names, replay(f"scan-loop-{kind}"), prefer=[small])
                ob.detail += f"; {n_back} back-edge paths"
    if "braces" in want:
        ob = run.ob("string-brace-counter", "E2", "the string scanning loop, one iteration from an arbitrary state: outside a backslash escape the nesting counter goes up "
                    "by one on `{` and DOWN by one on EVERY `}` (also at depth 0, where it becomes negative) and is unchanged otherwise - the loop only accepts the "
                    "closing quote at depth 0, so a string with a stray `}` is never closed and is a lexical error instead of an f-string Python refuses",
                    ["into_tokens (string loop body)"])
        cl, n_back = [], 0
        for bb, info in sr.loops.items():
            if info["kind"] != "string" or "head" not in info:
                continue
            h = info["head"]
            b0, bs0, i0 = h["build_cur_expr"], h["back_slash"], h["idx"]
            if not (z3.is_bv(b0) and z3.is_bool(bs0)):
                continue
            ch = sr.stream.ch(i0)
            for p in sr.ends:
                if p.kind != "loop_back" or loop_of(p) != "string":
                    continue
                fr0 = p.state.frames[0]
                b1 = sr._loc(p.state, fr0, "build_cur_expr")
                if not z3.is_bv(b1):
                    cl.append(z3.Not(conj(p.cond)))
                    continue
                n_back += 1
                w = b0.size()
                up, down = z3.And(z3.Not(bs0), ch == ord("{")), z3.And(z3.Not(bs0), ch == ord("}"))
                cl.append(z3.Implies(conj(p.cond), b1 == z3.If(up, b0 + z3.BitVecVal(1, w), z3.If(down, b0 - z3.BitVecVal(1, w), b0))))
        if not n_back:
            ob.inconclusive("string loop body not reached")
        else:
            e2.prove_each(run, ob, ex, hyp, cl, names, replay("string-braces"), prefer=[small])
            ob.detail += f"; {n_back} back-edge paths"
    if "advance" in want:
        ob = run.ob("step-advance", "E2", "one lexer step from any first character over any ASCII continuation (scanning "
                    "loops by the invariant): the token produced starts at the caret, ends `characters consumed` columns "
                    "later, and the caret is advanced by exactly the characters consumed", ["into_tokens", "create", "next_and_create", "State::token", "Token::width (Display templates)"])
        cl = []
        n_tok = 0
        for p in sr.ends:
            if p.kind != "return" or not (isinstance(p.ret, Agg) and p.ret.ty == "Result" and p.ret.variant == "Ok"):
                continue
            s = p.state
            c = conj(p.cond)
            consumed = sr._consumed(s)
            after = S.after(p)
            line2, col2 = after["pos"].fields
            v = p.ret.fields[0]
            if not isinstance(v, Seq):
                cl.append(z3.Not(c))
                continue
            items = [x for x in v.parts]
            if not items:
                # layout character: blank or newline
                nl = z3.Or(sr.c == 10, sr.c == 13)
                cl.append(z3.Implies(c, z3.If(nl, z3.And(line2 == S.line + 1, col2 == 1, consumed == z3.If(sr.c == 13, z3.BitVecVal(2, 64), z3.BitVecVal(1, 64))),
                                              z3.And(line2 == S.line, col2 == S.col + 1, consumed == 1, sr.c == 32))))
                continue
            last = items[-1]
            if last[0] != "item" or not (isinstance(last[1], Agg) and last[1].ty == "Lex"):
                cl.append(z3.Not(c))
                continue
            pos, tok = last[1].fields
            st_, en_ = pos.fields[0].fields, pos.fields[1].fields
            if isinstance(tok, Agg) and tok.variant == "DocStr":
                continue      # content that itself starts and ends with two quotes: not reachable from the scanner, outside
            n_tok += 1
            if isinstance(tok, Agg) and tok.variant == "Str":
                # strings may span lines: lines advance by the newline characters, columns are claimed for one-line strings
                nl = lexkern.nl_of(ex, ex.to_val(s, tok.fields[0]))
                cl.append(z3.Implies(c, z3.And(st_[0] == S.line, st_[1] == S.col, en_[0] == S.line + nl, line2 == S.line + nl,
                                               z3.Implies(nl == 0, z3.And(en_[1] == S.col + consumed, col2 == S.col + consumed)))))
                continue
            cl.append(z3.Implies(c, z3.And(st_[0] == S.line, st_[1] == S.col, en_[0] == S.line, en_[1] == S.col + consumed,
                                           line2 == S.line, col2 == S.col + consumed, z3.UGE(consumed, 1))))
        if n_tok < 20:
            ob.inconclusive(f"only {n_tok} token-producing paths")
        else:
            e2.prove_each(run, ob, ex, hyp, cl, names, replay("step-advance"), prefer=[small])
            ob.detail += f"; {n_tok} token-producing paths"
    if "munch" in want:
        ob = run.ob("scan-loop-maximal-munch", "E2", "an identifier is scanned while the next character is a letter, digit or underscore and a "
                    "number is never cut short before a digit: the scanning loop is left only at the end of the input or before a character "
                    "outside that class (so x0, a10, v_2 are single identifiers and 1000 a single number)", ["into_tokens (loop exits)"])
        cl, n_exit, n_back = [], 0, 0
        ch = sr.stream.ch
        digit = lambda c_: z3.And(z3.UGE(c_, 48), z3.ULE(c_, 57))
        ident = lambda c_: z3.Or(digit(c_), z3.And(z3.UGE(c_, 65), z3.ULE(c_, 90)), z3.And(z3.UGE(c_, 97), z3.ULE(c_, 122)), c_ == 95)
        for p in sr.ends:
            kind = loop_of(p)
            if kind not in ("identifier", "number"):
                continue
            consumed = sr._consumed(p.state) - 1        # index into the continuation (the first character is not part of it)
            if p.kind == "loop_back":
                n_back += 1
                at = consumed - 1
                if kind == "identifier":
                    cl.append(z3.Implies(conj(p.cond), z3.And(z3.ULT(at, sr.stream.n), ident(ch(at)))))
            elif p.kind == "return" and isinstance(p.ret, Agg) and p.ret.ty == "Result" and p.ret.variant == "Ok":
                n_exit += 1
                at = consumed
                stop = z3.Or(at == sr.stream.n, z3.Not((ident if kind == "identifier" else digit)(ch(at))))
                cl.append(z3.Implies(conj(p.cond), stop))
        if not n_exit or not n_back:
            ob.inconclusive(f"loop exits {n_exit}, back edges {n_back}")
        else:
            e2.prove_each(run, ob, ex, hyp, cl, names, replay("maximal-munch"), prefer=[small])
            ob.detail += f"; {n_exit} loop exits, {n_back} back edges"
    if "interp" in want:
        ob = run.ob("interpolation-offset", "E2", "string scanning loop: when an interpolation `{` opens, the offset recorded for re-lexing its "
                    "content is the position of the character after the brace (same line as the string's opening quote, column = quote column "
                    "+ characters of the string read so far + 1); the tokens of the content are moved by exactly that offset "
                    "(Lex::new(lex.pos.offset(offset).start, token))", ["into_tokens (string loop body)", "into_tokens::{closure} (re-lexed tokens)"])
        cl, n_set = [], 0
        colname = str(S.col)
        for p in sr.ends:
            if p.kind != "loop_back" or loop_of(p) != "string":
                continue
            fr0 = p.state.frames[0]
            cur = sr._loc(p.state, fr0, "cur_offset")
            string = sr._loc(p.state, fr0, "string")
            if not (isinstance(cur, Agg) and len(cur.fields) == 2 and is_sstr(string)):
                continue
            line, col = cur.fields
            if not (z3.is_bv(col) and colname in str(col)):
                continue          # not assigned in this iteration (still the arbitrary value from the loop header)
            n_set += 1
            ls = string.fields[0]
            cl.append(z3.Implies(conj(p.cond), z3.And(line == S.line, col == S.col + ls + 1)))
        # the closure that moves the re-lexed tokens
        cands = [f for n_, f in mir.fns.items() if re.match(r"^(.*::)?into_tokens::\{closure#\d+\}::\{closure#\d+\}$", n_) and len(f.args) == 2 and "Lex" in f.args[1][1]]
        moved = None
        if len(cands) == 1:
            ex2 = Exec(mir, max_paths=500)
            st2 = State()
            off = Opq(z3.Const("offset", Val), "CaretPos")
            env = Agg("closure", cands[0].args[0][1].lstrip("&").replace("mut ", "").strip(), [Ref(ex2.new_cell(st2, Ref(ex2.new_cell(st2, off))))])
            lexv = Opq(z3.Const("lex", Val), "Lex")
            ends2 = e2.run_kernel(run, ex2, cands[0], [Ref(ex2.new_cell(st2, env)), Ref(ex2.new_cell(st2, lexv))], st2)
            moved = False
            for p in ends2:
                if p.kind != "return":
                    continue
                offs = [e_ for e_ in p.events if e_["name"].endswith("Position::offset")]
                news = [e_ for e_ in p.events if e_["name"].endswith("Lex::new")]
                if len(offs) == 1 and len(news) == 1:
                    from e2 import rust_struct
                    pf = rust_struct("src/common/position.rs", "Position")
                    lf = rust_struct("src/parse/lex/token.rs", "Lex")
                    want_start = ex2.project(p.state, offs[0]["ret"], ("f", pf.index("start")), "CaretPos")
                    a_pos = ex2.to_val(p.state, ex2.project(p.state, lexv, ("f", lf.index("pos")), "Position"))
                    a_tok = ex2.to_val(p.state, ex2.project(p.state, lexv, ("f", lf.index("token")), "Token"))
                    moved = z3.eq(z3.simplify(news[0]["argvals"][0]), z3.simplify(ex2.to_val(p.state, want_start))) and \
                        z3.eq(z3.simplify(offs[0]["argvals"][0]), z3.simplify(a_pos)) and z3.eq(z3.simplify(offs[0]["argvals"][1]), off.term) and \
                        z3.eq(z3.simplify(news[0]["argvals"][1]), z3.simplify(a_tok)) and z3.eq(z3.simplify(ex2.to_val(p.state, p.ret)), z3.simplify(ex2.to_val(p.state, news[0]["ret"])))
        if not n_set or moved is None:
            ob.inconclusive(f"offset assignments found: {n_set}; token-moving closure found: {moved is not None}")
        else:
            cl.append(z3.BoolVal(bool(moved)))
            e2.prove_each(run, ob, ex, hyp, cl, names, replay("interpolation-offset"), prefer=[small])
            ob.detail += f"; {n_set} paths record an offset"
    if "panic" in want:
        pan = [p for p in sr.ends if p.kind == "panic"]
        ob = run.ob("lexer-step-no-panic", "E2", "no overflow, unwrap, slice or cast panic is reachable in one lexer step "
                    "(any first character, any ASCII continuation, any valid lexer state; scanning loops from their invariant)",
                    ["into_tokens", "State::token", "State::space", "Lex::new"])
        e2.prove(run, ob, ex, hyp, z3.Not(disj([conj(p.cond) for p in pan])), names, replay("lexer-step-panic"), prefer=[small])
        ob.detail += f"; {len(pan)} panic path ends"
    return sr
