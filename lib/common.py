"""Shared infrastructure of the /verif checks: scratch handling, builds from /repo's current
working tree, native replay server, obligations, evidence, known findings, exit codes."""
import atexit
import binascii
import hashlib
import json
import os
import shutil
import subprocess
import sys
import tempfile
import time

VERIF = os.path.dirname(os.path.dirname(os.path.abspath(__file__)))
REPO = os.environ.get("VERIF_REPO", "/repo")
CACHE = os.path.join(VERIF, ".cache")
GUARD_RUSTFLAGS = "--cfg mamba_verif"

EXIT_OK, EXIT_VIOLATION, EXIT_INCONCLUSIVE = 0, 1, 2


def log(*a):
    print(*a, flush=True)


def env_offline(extra=None):
    e = dict(os.environ)
    e["CARGO_NET_OFFLINE"] = "true"
    e.pop("RUSTFLAGS", None)
    if extra:
        e.update(extra)
    return e


_scratch = None


def scratch():
    """Per-run scratch directory (removed on exit); never under /repo or /verif."""
    global _scratch
    if _scratch is None:
        base = os.environ.get("TMPDIR", "/var/tmp")
        _scratch = tempfile.mkdtemp(prefix="mamba-verif.", dir=base)
        atexit.register(lambda: shutil.rmtree(_scratch, ignore_errors=True))
    return _scratch


def repo_source_hash():
    """Hash of everything of /repo that is compiled (src/**, Cargo.toml, Cargo.lock)."""
    h = hashlib.sha256()
    files = []
    for root, _dirs, names in os.walk(os.path.join(REPO, "src")):
        for n in names:
            files.append(os.path.join(root, n))
    files += [os.path.join(REPO, "Cargo.toml"), os.path.join(REPO, "Cargo.lock")]
    for f in sorted(files):
        h.update(f.encode())
        try:
            with open(f, "rb") as fh:
                h.update(fh.read())
        except OSError:
            h.update(b"<missing>")
    return h.hexdigest()[:20]


def read_repo(rel):
    with open(os.path.join(REPO, rel), encoding="utf-8") as fh:
        return fh.read()


# ------------------------------------------------------------------------------------------------
# builds


def _flock(path):
    import fcntl
    os.makedirs(os.path.dirname(path), exist_ok=True)
    fh = open(path, "w")
    fcntl.flock(fh, fcntl.LOCK_EX)
    return fh


def build_replay():
    """Build the native replay server from /repo's current tree (hooks on). Returns binary path.
    The cargo target dir is a cache (incremental); cargo itself decides what to rebuild from
    the current sources, so the binary always reflects the working tree."""
    tdir = os.path.join(CACHE, "target-replay")
    lock = _flock(os.path.join(CACHE, "replay.lock"))
    try:
        t0 = time.time()
        p = subprocess.run(
            ["cargo", "build", "--offline", "--quiet"],
            cwd=os.path.join(VERIF, "replay"),
            env=env_offline({"RUSTFLAGS": GUARD_RUSTFLAGS, "CARGO_TARGET_DIR": tdir}),
            stdout=subprocess.PIPE, stderr=subprocess.STDOUT, text=True)
        if p.returncode != 0:
            raise BuildError("replay build failed:\n" + p.stdout[-4000:])
        src = os.path.join(tdir, "debug", "mamba-verif-replay")
        dst = os.path.join(scratch(), "replay-bin")
        tmp = dst + ".new"
        shutil.copy2(src, tmp)
        os.replace(tmp, dst)        # a server started from the previous copy may still be running (ETXTBSY on overwrite)
        log(f"[build] native replay binary built from {REPO} in {time.time()-t0:.1f}s")
        return dst
    finally:
        lock.close()


class BuildError(Exception):
    pass


def mir_dump():
    """MIR of the mamba library at /repo's current tree (overflow checks on). Cached by the
    content hash of the compiled sources; regenerated whenever any source byte differs."""
    key = repo_source_hash()
    os.makedirs(os.path.join(CACHE, "mir"), exist_ok=True)
    out = os.path.join(CACHE, "mir", key + ".mir")
    if os.path.exists(out) and os.path.getsize(out) > 1000:
        return out, 0.0, True
    lock = _flock(os.path.join(CACHE, "mir.lock"))
    try:
        if os.path.exists(out) and os.path.getsize(out) > 1000:
            return out, 0.0, True
        t0 = time.time()
        tdir = os.path.join(CACHE, "target-mir")
        # cargo does not re-run rustc for a fresh unit: force by touching nothing in /repo but
        # removing the lib's fingerprint in *our* target dir.
        fp = os.path.join(tdir, "debug", ".fingerprint")
        if os.path.isdir(fp):
            for d in os.listdir(fp):
                if d.startswith("mamba-") and not d.startswith("mamba-verif"):
                    shutil.rmtree(os.path.join(fp, d), ignore_errors=True)
        tmp = out + ".tmp%d" % os.getpid()
        with open(tmp, "w") as fh:
            p = subprocess.run(
                ["cargo", "+nightly", "rustc", "--offline", "-p", "mamba", "--lib", "--",
                 "-Zunpretty=mir", "-C", "debug-assertions=off", "-C", "overflow-checks=on"],
                cwd=os.path.join(VERIF, "kani"),
                env=env_offline({"CARGO_TARGET_DIR": tdir}),
                stdout=fh, stderr=subprocess.PIPE, text=True)
        if p.returncode != 0 or os.path.getsize(tmp) < 1000:
            try:
                os.remove(tmp)
            except OSError:
                pass
            raise BuildError("MIR dump failed:\n" + p.stderr[-4000:])
        os.replace(tmp, out)
        # keep the cache small
        allm = sorted((os.path.getmtime(os.path.join(CACHE, "mir", f)), f)
                      for f in os.listdir(os.path.join(CACHE, "mir")) if f.endswith(".mir"))
        for _, f in allm[:-4]:
            os.remove(os.path.join(CACHE, "mir", f))
        return out, time.time() - t0, False
    finally:
        lock.close()


# ------------------------------------------------------------------------------------------------
# native replay server


def hexs(s):
    return binascii.hexlify(s.encode("utf-8")).decode() or "-"


class Replay:
    def __init__(self, bin=None):
        self.bin = bin or build_replay()
        self.p = None
        self.calls = 0

    def _start(self):
        self.p = subprocess.Popen([self.bin], stdin=subprocess.PIPE, stdout=subprocess.PIPE,
                                  text=True, bufsize=1)

    def req(self, *fields):
        if self.p is None or self.p.poll() is not None:
            self._start()
        self.calls += 1
        self.p.stdin.write(" ".join(str(f) for f in fields) + "\n")
        self.p.stdin.flush()
        import select
        ready, _, _ = select.select([self.p.stdout], [], [], float(os.environ.get("VERIF_REPLAY_TIMEOUT", "120")))
        if not ready:
            # no answer: the real code does not terminate (or is far beyond any sensible time bound) on this input
            self.p.kill()
            self.p = None
            return "HANG", ""
        line = self.p.stdout.readline()
        if not line:
            # hard crash (stack overflow / abort)
            self.p = None
            return "CRASH", ""
        st, _, hx = line.strip().partition(" ")
        return st, binascii.unhexlify(hx).decode("utf-8", "replace") if hx else ""

    def transpile(self, src, annotate=False):
        return self.req("transpile", 1 if annotate else 0, hexs(src))

    def tokens(self, src):
        st, out = self.req("tokens", hexs(src))
        if st != "OK":
            return st, out
        toks = []
        for l in out.split("\n"):
            if not l:
                continue
            f = l.split("\t")
            toks.append({"tok": f[0], "text": binascii.unhexlify(f[1]).decode() if f[1] else "",
                         "sl": int(f[2]), "sp": int(f[3]), "el": int(f[4]), "ep": int(f[5])})
        return st, toks

    def close(self):
        if self.p is not None:
            try:
                self.p.stdin.close()
                self.p.wait(timeout=5)
            except Exception:
                self.p.kill()


# ------------------------------------------------------------------------------------------------
# obligations / results


class Ob:
    """One obligation = one solver query (or one Kani harness)."""

    def __init__(self, oid, engine, desc, functions=None):
        self.id = oid
        self.engine = engine
        self.desc = desc
        self.functions = functions or []
        self.status = "pending"   # discharged | violated | inconclusive | known
        self.detail = ""
        self.witness = None
        self.role = None          # stable role key of the witness (for known findings)
        self.replay = None
        self.solver_s = 0.0
        self.queries = 0
        self.reach = None         # vacuity witness result

    def discharged(self, detail="", solver_s=0.0, queries=1):
        self.status, self.detail = "discharged", detail
        self.solver_s += solver_s
        self.queries += queries
        return self

    def inconclusive(self, detail):
        self.status, self.detail = "inconclusive", detail
        return self

    def violated(self, role, witness, replay, detail=""):
        self.status, self.role, self.witness, self.replay, self.detail = \
            "violated", role, witness, replay, detail
        return self

    def to_json(self):
        return {k: getattr(self, k) for k in
                ("id", "engine", "desc", "functions", "status", "detail", "witness", "role",
                 "replay", "solver_s", "queries", "reach")}


def load_known():
    p = os.path.join(VERIF, "known_findings.json")
    if not os.path.exists(p):
        return {"known": [], "fixed": []}
    with open(p) as fh:
        return json.load(fh)


class Run:
    def __init__(self, prop, tier, seed):
        self.prop, self.tier, self.seed = prop, tier, seed
        self.obs = []
        self.t0 = time.time()
        self.assumptions = []
        self.functions = []
        self.bounds = {}
        self.samples = []
        self.extra = {}
        self.paths = 0
        self.transitions = 0
        self.validated = 0
        self.trusted = []

    def ob(self, oid, engine, desc, functions=None):
        o = Ob(f"{self.prop}/{oid}", engine, desc, functions)
        self.obs.append(o)
        return o

    def clean(self):
        """True when every obligation so far is discharged or a listed known finding."""
        kn = [k for k in load_known().get("known", []) if k["property"] == self.prop]
        for o in self.obs:
            if o.status == "discharged":
                continue
            if o.status == "violated" and any(k["obligation"] == o.id and k["role"] == o.role for k in kn):
                continue
            return False
        return True

    def samples_has(self, oid):
        return any(isinstance(x, dict) and x.get("obligation", "").endswith(oid) for x in self.samples)

    def assume(self, *texts):
        for t in texts:
            if t not in self.assumptions:
                self.assumptions.append(t)

    def finish(self, level="model_checking", explanation=""):
        rep = getattr(self, "replay_of", None)
        if rep:
            hit = [o for o in self.obs if o.id == rep.get("obligation") and o.status == "violated"]
            same = [o for o in hit if o.role == rep.get("role")]
            if hit:
                o = (same or hit)[0]
                log(f"VIOLATION property={self.prop} replay={os.environ.get('VERIF_REPLAY_PATH', rep.get('_path', '(replay file)'))}")
                log(f"  reproduced: obligation {o.id} role={o.role}: {o.detail}")
                return EXIT_VIOLATION
            st = next((o.status for o in self.obs if o.id == rep.get("obligation")), "not run")
            log(f"REPLAY: obligation {rep.get('obligation')} is {st} on the current tree: not reproduced")
            return EXIT_OK if st == "discharged" else EXIT_INCONCLUSIVE
        known = load_known()
        kn = [k for k in known.get("known", []) if k["property"] == self.prop]
        viol, knownhits, inconc = [], [], []
        os.makedirs(os.path.join(VERIF, "evidence", "replays"), exist_ok=True)
        for o in self.obs:
            if o.status == "violated":
                hit = next((k for k in kn if k["obligation"] == o.id and k["role"] == o.role), None)
                if hit:
                    o.status = "known"
                    knownhits.append((o, hit))
                else:
                    viol.append(o)
            elif o.status in ("inconclusive", "pending"):
                inconc.append(o)
        for o, hit in knownhits:
            log(f"KNOWN-FINDING: property={self.prop} {o.id} role={o.role}: {hit['what']}")
        for o in viol:
            rp = os.path.join(VERIF, "evidence", "replays",
                              o.id.replace("/", "_") + "." + hashlib.sha1(
                                  (o.role or "").encode()).hexdigest()[:8] + ".json")
            with open(rp, "w") as fh:
                json.dump({"property": self.prop, "obligation": o.id, "role": o.role,
                           "witness": o.witness, "replay": o.replay, "detail": o.detail}, fh,
                          indent=1, default=str)
            log(f"VIOLATION property={self.prop} replay={rp}")
            log(f"  obligation {o.id} role={o.role}: {o.detail}")
        for o in inconc:
            log(f"INCONCLUSIVE {o.id}: {o.detail}")
        nd = sum(1 for o in self.obs if o.status == "discharged")
        wall = time.time() - self.t0
        samples = self.samples[:8] or [o.to_json() for o in self.obs[:3]]
        cov = {
            "obligations": len(self.obs),
            "discharged": nd,
            "known_findings": len(knownhits),
            "violated": len(viol),
            "inconclusive": len(inconc),
            "states": max(1, self.paths),
            "transitions": max(1, self.transitions),
            "traces_validated_against_impl": self.validated,
            "evaluations": max(1, sum(o.queries for o in self.obs)),
            "distinct_nontrivial": len({o.id for o in self.obs if o.status != "pending"}),
            "rule": "one evaluation = one solver query (SMT check or Kani/CBMC harness); distinct = "
                    "obligations with different ids; non-trivial = its reachability/cover witness "
                    "was satisfiable (vacuous obligations are reported inconclusive, not counted)",
            "samples": samples,
            "checker_cmd": f"./check {self.prop} --tier {self.tier}",
            "trusted_base": self.trusted,
            "explanation": explanation,
            "functions_encoded": self.functions,
            "bounds": self.bounds,
            "solver_time_s": round(sum(o.solver_s for o in self.obs), 3),
            "queries": sum(o.queries for o in self.obs),
            "obligation_results": [o.to_json() for o in self.obs],
            "exhaustive": False,
        }
        cov.update(self.extra)
        ev = {"property_id": self.prop, "tier": self.tier, "seed": self.seed, "level": level,
              "coverage": cov, "assumptions": self.assumptions, "wall_s": round(wall, 2),
              "violations": len(viol)}
        with open(os.path.join(VERIF, "evidence", self.prop + ".json"), "w") as fh:
            json.dump(ev, fh, indent=1, default=str)
        log(f"[{self.prop}] tier={self.tier} obligations={len(self.obs)} discharged={nd} "
            f"known={len(knownhits)} violated={len(viol)} inconclusive={len(inconc)} "
            f"wall={wall:.1f}s")
        if viol:
            return EXIT_VIOLATION
        if inconc:
            return EXIT_INCONCLUSIVE
        return EXIT_OK
