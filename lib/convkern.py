"""Structure kernels of the typed-AST -> Core converters (E2).

One arm of a converter (convert_node, convert_cntrl_flow, convert_call, convert_handle, convert_range_slice) is executed
from MIR on a node of one concrete kind whose children are opaque; recursive conversions are uninterpreted calls that are
recorded as events.  The obligation compares the Core value the arm returns with the documented shape, where the leaves of
the shape are *the results of the recursive conversions of named children* (term equality decided by z3 under the path
condition), and checks the generator flags each recursive conversion receives.
"""
import re
import z3

import common
import e2
from e2 import conj, disj
import mirsym
from mirsym import Exec, State, Opq, Agg, Ref, StrC, Seq, Val, Unsupported, Fork

AST_RS = "src/check/ast/mod.rs"
CORE_RS = "src/generate/ast/node.rs"
STATE_RS = "src/generate/convert/state.rs"
SETTERS = r"generate::convert::state::State::(in_tup|tuple_literal|expand_ty|is_last_must_be_ret|def_as_fun_arg|must_assign_to|remove_ret|in_interface)$"
RECURSIVE = ("convert_node", "convert_vec", "convert_def", "convert_class", "convert_cntrl_flow", "convert_call",
             "convert_handle", "convert_range_slice", "convert_builder")

_TYPES = {}


def m_option_map_or_else(ex, st, fr, callee, args, argtys, dty):
    opt, dflt, f = args
    v = mirsym._deref_val(ex, st, opt)
    d = ex.discr(st, v, argtys[0])
    alts = []
    inl0 = mirsym.closure_call(ex, st, dflt, [])
    if inl0 is None:
        return NotImplemented
    alts.append((d == 0, inl0))
    payload = mirsym.variant_payload(ex, st, v, "Some", mirsym._generic_arg(argtys[0], 0))
    if payload is not None:
        inl = mirsym.closure_call(ex, st, f, [payload])
        if inl is None:
            return NotImplemented
        alts.append((d == 1, inl))
    return Fork(alts)


def m_option_as_ref(ex, st, fr, callee, args, argtys, dty):
    # &Option<T> -> Option<&T>: references to opaque values are the values themselves in this executor
    return mirsym._deref_val(ex, st, args[0])


MODELS = [(r"^Option::<.*>::map_or_else::<", m_option_map_or_else),
          (r"^Option::<.*>::as_ref$", m_option_as_ref)]


def enum_types(rel, name):
    """{variant: {field: type text}} for struct-like variants (None for unit variants)."""
    key = (rel, name)
    if key not in _TYPES:
        import srcsym
        src = srcsym.strip_comments(common.read_repo(rel))
        m = re.search(r"\benum\s+%s\b[^{;]*\{" % re.escape(name), src)
        if not m:
            raise Unsupported(f"enum {name} not found in {rel}")
        i = m.end() - 1
        j = srcsym.match_close(src, i)
        body = re.sub(r"#\[[^\]]*\]", "", src[i + 1:j])
        out = {}
        for it in srcsym.split_top(body):
            vm = re.match(r"^\s*(\w+)\s*(.*)$", it, re.S)
            if not vm:
                continue
            rest = vm.group(2).strip()
            if rest.startswith("{"):
                inner = rest[1:srcsym.match_close(rest, 0)]
                fs = {}
                for f in srcsym.split_top(inner):
                    fm = re.match(r"^\s*(\w+)\s*:\s*(.*)$", f, re.S)
                    if fm:
                        fs[fm.group(1)] = " ".join(fm.group(2).split())
                out[vm.group(1)] = fs
            else:
                out[vm.group(1)] = None
        _TYPES[key] = out
    return _TYPES[key]


class Arm:
    """Symbolic execution of one converter on one node kind."""

    def __init__(self, run, mir, fnname, file, kind, kid_over=None, ast_ty=None):
        self.kind = kind
        self.ex = ex = Exec(mir, max_paths=20000, inline=[SETTERS], models=MODELS)
        self.st = st = State()
        types = enum_types(AST_RS, "NodeTy").get(kind, "?")
        if types == "?":
            raise Unsupported(f"NodeTy::{kind} not found")
        self.kids = {}
        for f, ty in (types or {}).items():
            if kid_over and f in kid_over:
                self.kids[f] = kid_over[f]
            elif ty == "bool":
                self.kids[f] = z3.Bool(f"{kind}.{f}")
            else:
                self.kids[f] = Opq(z3.Const(f"{kind}.{f}", Val), ty)
        node = e2.mk_variant(AST_RS, "NodeTy", kind, self.kids) if types else Agg("NodeTy", kind, [])
        self.ast_ty = ast_ty if ast_ty is not None else Opq(z3.Const("ast.ty", Val), "Option<Name>")
        astv = e2.mk_struct(AST_RS, "ASTTy", {"pos": Opq(z3.Const("ast.pos", Val), "Position"), "node": node, "ty": self.ast_ty})
        self.state_agg, self.svals = e2.sym_struct(STATE_RS, "State", "state")
        self.astv = astv
        fn = e2.find1(mir, file=file, name=fnname)
        self.ast_ref = Ref(ex.new_cell(st, astv))
        self.imp_ref = Ref(ex.new_cell(st, Opq(z3.Const("imp", Val), "Imports")))
        args = [self.ast_ref, self.imp_ref,
                Ref(ex.new_cell(st, self.state_agg)), Ref(ex.new_cell(st, Opq(z3.Const("ctx", Val), "Context")))]
        self.ends = e2.run_kernel(run, ex, fn, args, st)

    def foreign_imports(self):
        """Calls on any path of this arm that are handed an import accumulator other than the arm's own `imp`: [(path, event, index)]."""
        out = []
        for p in self.ends:
            for ev in p.events:
                for i, a in enumerate(ev["args"]):
                    if not isinstance(a, Ref) or a.cell == self.imp_ref.cell:
                        continue
                    try:
                        v = self.ex.read_ref(p.state, a)
                    except Exception:
                        continue
                    pre = (ev.get("mut_pre") or {}).get(i)
                    for cand in (pre, v):
                        if isinstance(cand, Opq) and cand.ty and cand.ty.strip().endswith("Imports"):
                            out.append((p, ev, i))
                            break
        return out

    # ---- leaves
    def root_of(self, p, v):
        """(kid field, projection text) of a value that is a (projection of a) child of the node, else None."""
        try:
            t = self.ex.to_val(p.state, v)
        except Unsupported:
            return None
        s = z3.simplify(t).sexpr() if not isinstance(t, str) else t
        for f in self.kids:
            name = f"{self.kind}.{f}"
            if re.search(r"(?<![\w.])\|?%s\|?(?![\w.])" % re.escape(name), s):
                path = re.sub(r"\s+", " ", s.replace("|", ""))
                return f, path
        return None

    def rec_events(self, p):
        out = []
        for ev in p.events:
            short = ev["name"].split("::")[-1]
            if short in RECURSIVE or short == "to_py":
                a0 = ev["args"][0]
                v = self.ex.read_ref(p.state, a0) if isinstance(a0, Ref) else a0
                root = self.root_of(p, v)
                if isinstance(a0, Ref) and a0.cell == self.ast_ref.cell and not a0.proj:
                    root = ("<node>", "")
                stv = None
                if short != "to_py" and len(ev["args"]) >= 3 and isinstance(ev["args"][2], Ref):
                    stv = self.ex.read_ref(p.state, ev["args"][2])
                out.append({"fn": short, "root": root, "ev": ev, "state": stv})
        return out

    def ok_payload(self, p, ev):
        ex = self.ex
        return ex.project(p.state, ex.project(p.state, ev["ret"], ("v", "Ok")), ("f", 0), "Core")

    def state_field(self, stv, f):
        if isinstance(stv, Agg) and stv.names and f in stv.names:
            return stv.fields[list(stv.names).index(f)]
        raise Unsupported(f"state argument is not a State value: {stv}")


# --------------------------------------------------------------------------------------------------
# shape specifications

class K:
    """Leaf: the Ok payload of the recursive conversion `fn` of child `field` (path = regex the projection must match)."""

    def __init__(self, field, fn="convert_node", path=None, state=None, nth=0):
        self.field, self.fn, self.path, self.state, self.nth = field, fn, path, state or {}, nth


class Kid:
    """Leaf: the child itself (cloned literal text)."""

    def __init__(self, field):
        self.field = field


class Lit:
    def __init__(self, s):
        self.s = s


class ToPy:
    """Leaf: result of Name/StringName::to_py on child `field`."""

    def __init__(self, field):
        self.field = field


class Kv:
    """Leaf: the Ok payload of the recursive conversion `fn` of the value valfn(arm, path) (loop elements)."""

    def __init__(self, valfn, fn="convert_node", state=None, what="?"):
        self.valfn, self.fn, self.state, self.what = valfn, fn, state or {}, what


class ToPyv:
    def __init__(self, valfn, what="?"):
        self.valfn, self.what = valfn, what


class Call:
    """Leaf: the result of the helper `fn` applied to child `field` (e.g. the literal normaliser)."""

    def __init__(self, fn, field):
        self.fn, self.field = fn, field


class Any_:
    pass


ANY = Any_()


class C:
    """Core value of the given variant; fields by name."""

    def __init__(self, variant, **fields):
        self.variant, self.fields = variant, fields


class SeqOf:
    """Vec built from the listed items."""

    def __init__(self, *items):
        self.items = items


NONE = ("none",)


class OneOf:
    """Any of the alternatives (the first whose structure fits contributes the leaf claims)."""

    def __init__(self, *alts):
        self.alts = alts


class When:
    """cond(arm) -> z3 Bool; shape `a` when it holds, `b` otherwise."""

    def __init__(self, cond, a, b):
        self.cond, self.a, self.b = cond, a, b


class Opt:
    """Option<..> built from the optional child `field`: Some(inner) when the child is Some, None otherwise."""

    def __init__(self, field, inner):
        self.field, self.inner = field, inner


def some(x):
    return ("some", x)


def _state_claims(arm, p, stv, want, claims, fail):
    ex = arm.ex
    for f, wantv in want.items():
        try:
            got = arm.state_field(stv, f)
        except Unsupported as e:
            fail(str(e))
            continue
        if wantv == "in":
            wv = arm.svals[f]
            if isinstance(wv, Opq) or isinstance(got, (Opq, Agg)):
                claims.append(ex.to_val(p.state, got) == ex.to_val(p.state, wv))
            else:
                claims.append(got == wv)
        elif wantv is None:
            claims.append(ex.discr(p.state, got, "Option") == 0)     # Option field must be None
        else:
            claims.append(got == z3.BoolVal(wantv))


def match_shape(arm, p, actual, spec, claims, notes, where="result"):
    """Compare `actual` (mirsym value) with `spec`; term-level leaf equalities are appended to `claims` (z3 Bools),
    structural mismatches append BoolVal(False) and a note."""
    ex = arm.ex

    def fail(msg):
        claims.append(z3.BoolVal(False))
        notes.append(f"{where}: {msg}")

    if spec is ANY:
        return
    if isinstance(spec, OneOf):
        fits, best = [], None
        for alt in spec.alts:
            cl, nt = [], []
            match_shape(arm, p, actual, alt, cl, nt, where)
            if not nt:
                fits.append(conj(cl))
            best = best or (cl, nt)
        if fits:
            claims.append(disj(fits))
        else:
            claims.extend(best[0])
            notes.extend(best[1])
        return
    if isinstance(spec, When):
        c = spec.cond(arm)
        ca, na, cb, nb = [], [], [], []
        match_shape(arm, p, actual, spec.a, ca, na, where)
        match_shape(arm, p, actual, spec.b, cb, nb, where)
        claims.append(z3.If(c, conj(ca), conj(cb)))
        # notes only matter when the branch is feasible; keep them as hints
        if na and nb:
            notes.extend(na + nb)
        return
    if isinstance(spec, Opt):
        kid = arm.kids.get(spec.field)
        if isinstance(actual, Agg) and actual.ty == "Option" and actual.variant == "None":
            claims.append(ex.discr(p.state, kid, "Option") == 0)
            return
        if isinstance(actual, Agg) and actual.ty == "Option" and actual.variant == "Some":
            claims.append(ex.discr(p.state, kid, "Option") == 1)
            return match_shape(arm, p, actual.fields[0], spec.inner, claims, notes, where + ".Some")
        return fail(f"expected an Option built from {spec.field}, found {str(actual)[:80]}")
    if isinstance(spec, C):
        if not isinstance(actual, Agg) or actual.ty != "Core":
            return fail(f"expected Core::{spec.variant}, found {str(actual)[:80]}")
        if actual.variant != spec.variant:
            return fail(f"expected Core::{spec.variant}, found Core::{actual.variant}")
        names = list(actual.names or [])
        if sorted(names) != sorted(spec.fields):
            return fail(f"Core::{spec.variant} fields {names} != documented {sorted(spec.fields)}")
        for n, fv in zip(names, actual.fields):
            match_shape(arm, p, fv, spec.fields[n], claims, notes, f"{where}.{n}")
        return
    if isinstance(spec, tuple) and spec and spec[0] == "none":
        if isinstance(actual, Agg) and actual.ty == "Option" and actual.variant == "None":
            return
        return fail(f"expected None, found {str(actual)[:80]}")
    if isinstance(spec, tuple) and spec and spec[0] == "some":
        if isinstance(actual, Agg) and actual.ty == "Option" and actual.variant == "Some":
            return match_shape(arm, p, actual.fields[0], spec[1], claims, notes, where + ".Some")
        return fail(f"expected Some(..), found {str(actual)[:80]}")
    if isinstance(spec, Tup):
        if not isinstance(actual, Agg) or actual.ty != "tuple" or len(actual.fields) != len(spec.items):
            return fail(f"expected a {len(spec.items)}-tuple, found {str(actual)[:80]}")
        for i, (fv, sp_) in enumerate(zip(actual.fields, spec.items)):
            match_shape(arm, p, fv, sp_, claims, notes, f"{where}.{i}")
        return
    if isinstance(spec, SeqOf):
        if not isinstance(actual, Seq) or any(pt[0] != "item" for pt in actual.parts) or len(actual.parts) != len(spec.items):
            return fail(f"expected a vector of {len(spec.items)} items, found {str(actual)[:80]}")
        for i, (pt, sp) in enumerate(zip(actual.parts, spec.items)):
            match_shape(arm, p, pt[1], sp, claims, notes, f"{where}[{i}]")
        return
    if isinstance(spec, Lit):
        if isinstance(actual, StrC) and actual.s == spec.s:
            return
        return fail(f"expected literal {spec.s!r}, found {str(actual)[:80]}")
    if isinstance(spec, bool):
        if z3.is_expr(actual) and z3.is_bool(actual):
            claims.append(actual == z3.BoolVal(spec))
            return
        return fail(f"expected {spec}, found {str(actual)[:80]}")
    if isinstance(spec, Kid):
        want = arm.kids.get(spec.field)
        if want is None:
            return fail(f"node has no child {spec.field}")
        if z3.is_expr(want) and z3.is_expr(actual) and want.sort() == actual.sort():
            claims.append(actual == want)
            return
        try:
            claims.append(ex.to_val(p.state, actual) == ex.to_val(p.state, want))
        except Unsupported as e:
            fail(str(e))
        return
    if isinstance(spec, Call):
        want_arg = arm.kids.get(spec.field)
        hit = None
        for ev in p.events:
            if ev["name"].split("::")[-1] != spec.fn:
                continue
            a0 = ev["args"][0]
            v = ex.read_ref(p.state, a0) if isinstance(a0, Ref) else a0
            try:
                if z3.eq(z3.simplify(ex.to_val(p.state, v)), z3.simplify(ex.to_val(p.state, want_arg))):
                    hit = ev
            except Unsupported:
                pass
        if hit is None:
            return fail(f"no {spec.fn}({spec.field}) on this path")
        try:
            claims.append(ex.to_val(p.state, actual) == ex.to_val(p.state, hit["ret"]))
        except Unsupported as e:
            fail(str(e))
        return
    if isinstance(spec, (Kv, ToPyv)):
        fnname = spec.fn if isinstance(spec, Kv) else "to_py"
        try:
            want_arg = z3.simplify(ex.to_val(p.state, spec.valfn(arm, p)))
        except Unsupported as e:
            return fail(str(e))
        hit = None
        for ev in p.events:
            if ev["name"].split("::")[-1] != fnname:
                continue
            a0 = ev["args"][0]
            v = ex.read_ref(p.state, a0) if isinstance(a0, Ref) else a0
            try:
                if z3.simplify(ex.to_val(p.state, v)).eq(want_arg):
                    hit = ev
            except Unsupported:
                pass
        if hit is None:
            return fail(f"no {fnname}({spec.what}) on this path")
        want = arm.ok_payload(p, hit) if isinstance(spec, Kv) else hit["ret"]
        try:
            claims.append(ex.to_val(p.state, actual) == ex.to_val(p.state, want))
        except Unsupported as e:
            return fail(str(e))
        if isinstance(spec, Kv) and spec.state:
            stv = ex.read_ref(p.state, hit["args"][2]) if isinstance(hit["args"][2], Ref) else hit["args"][2]
            _state_claims(arm, p, stv, spec.state, claims, fail)
        return
    if isinstance(spec, (K, ToPy)):
        fnname = spec.fn if isinstance(spec, K) else "to_py"
        cands = [r for r in arm.rec_events(p) if r["fn"] == fnname and r["root"] and r["root"][0] == spec.field]
        if isinstance(spec, K) and spec.path:
            cands = [r for r in cands if re.search(spec.path, r["root"][1])]
        elif isinstance(spec, K):
            # the child itself (or its Some payload) before deeper projections of it
            exact = [r for r in cands if r["root"][1] in (f"{arm.kind}.{spec.field}", f"(p0:Val (as:Some {arm.kind}.{spec.field}))", "")]
            cands = exact or cands
        nth = spec.nth if isinstance(spec, K) else 0
        if len(cands) <= nth:
            return fail(f"no {fnname}({spec.field}) on this path")
        r = cands[nth]
        want = arm.ok_payload(p, r["ev"]) if isinstance(spec, K) else r["ev"]["ret"]
        try:
            claims.append(ex.to_val(p.state, actual) == ex.to_val(p.state, want))
        except Unsupported as e:
            return fail(str(e))
        if isinstance(spec, K):
            _state_claims(arm, p, r["state"], spec.state, claims, fail)
        return
    fail(f"unsupported spec {spec}")


def ok_paths(arm, extra=None):
    """Return paths whose result is Ok(..) and which took no post-processing (append_ret / append_assign)."""
    out = []
    for p in arm.ends:
        if p.kind != "return" or not (isinstance(p.ret, Agg) and p.ret.ty == "Result" and p.ret.variant == "Ok"):
            continue
        if any(ev["name"].split("::")[-1] in ("append_assign", "append_ret") for ev in p.events):
            continue
        out.append(p)
    return out


# --------------------------------------------------------------------------------------------------
# documented structure of every arm (docs/spec + docs/features: each Mamba construct maps to the Python construct of the
# same meaning, children translated recursively and kept in their roles)

CONV = "src/generate/convert/"
# Which flags the *branches* of if / match receive is not claimed: convert_node re-distributes a pending return / assignment
# over the finished node (append_ret / append_assign), so passing them down or not is the same translation.
CLEARED = {"is_last_must_be_ret": False, "must_assign_to": None}
TERN = {"is_last_must_be_ret": False, "must_assign_to": None, "is_remove_last_ret": True}


def _vec(field, **kw):
    return K(field, fn="convert_vec", **kw)


def _bin(variant):
    return C(variant, left=K("left"), right=K("right"))


def specs():
    node = CONV + "mod.rs"
    flow = CONV + "control_flow.rs"
    call = CONV + "call.rs"
    handle = CONV + "handle.rs"
    rs = CONV + "range_slice.rs"
    builder = CONV + "builder.rs"
    S = []

    def add(fn, file, kind, spec, **kw):
        S.append(dict(fn=fn, file=file, kind=kind, spec=spec, **kw))
    # --- convert_node: leaves
    add("convert_node", node, "Int", C("Int", int=Call("decimal_integer", "lit")))
    add("convert_node", node, "Real", C("Float", float=Kid("lit")))
    add("convert_node", node, "ENum", C("ENum", num=OneOf(Kid("num"), Call("decimal_integer", "num")), exp=Call("decimal_integer", "exp")))
    add("convert_node", node, "DocStr", C("DocStr", string=Kid("lit")))
    # the text of an f-string is the subject of C02 / C01 `interpolations-converted` (a verbatim copy of the literal is a known finding)
    add("convert_node", node, "Str", OneOf(C("Str", string=Kid("lit")), C("FStr", string=ANY)))
    add("convert_node", node, "Bool", C("Bool", boolean=Kid("lit")))
    add("convert_node", node, "Undefined", C("None"))
    add("convert_node", node, "Underscore", C("UnderScore"))
    add("convert_node", node, "Pass", C("Pass"))
    add("convert_node", node, "ReturnEmpty", C("Return", expr=C("None")))
    # --- convert_node: containers and statements
    add("convert_node", node, "Import", C("Import", **{"from": Opt("from", K("from")), "import": _vec("import"), "alias": _vec("alias")}))
    add("convert_node", node, "Reassign", C("Assign", left=K("left"), right=K("right"), op=ANY))
    add("convert_node", node, "Block", C("Block", statements=_vec("statements")))
    add("convert_node", node, "ExpressionType", K("expr", state={"expand_ty": True}))
    add("convert_node", node, "Tuple", When(lambda a: a.svals["tup_lit"], C("TupleLiteral", elements=_vec("elements")),
                                              C("Tuple", elements=_vec("elements"))))
    add("convert_node", node, "List", C("List", elements=_vec("elements")))
    add("convert_node", node, "Set", C("Set", elements=_vec("elements")))
    add("convert_node", node, "Dict", C("Dictionary", elements=ANY), loop="dict")
    add("convert_node", node, "Index", C("Index", item=K("item"), range=K("range")))
    add("convert_node", node, "Return", When(lambda a: a.svals["is_remove_last_ret"], K("expr", state={"is_remove_last_ret": False}),
                                               C("Return", expr=K("expr"))))
    add("convert_node", node, "IsNA", C("Not", expr=C("IsA", left=K("left"), right=K("right"))))
    add("convert_node", node, "AnonFun", C("AnonFun", args=_vec("args", state={"expand_ty": False}), body=K("body")))
    add("convert_node", node, "With", OneOf(C("WithAs", resource=K("resource"), alias=K("alias", state={"expand_ty": False}), expr=K("expr")),
                                             C("With", resource=K("resource"), expr=K("expr"))))
    # --- convert_node: dispatch (flags that must survive the dispatch)
    for kind in ("IfElse", "Match"):
        add("convert_node", node, kind, K("<node>", fn="convert_cntrl_flow"))
    for kind in ("While", "For", "Break", "Continue"):
        add("convert_node", node, kind, K("<node>", fn="convert_cntrl_flow"))
    for kind in ("FunctionCall", "PropertyCall"):
        add("convert_node", node, kind, K("<node>", fn="convert_call"))
    for kind in ("Range", "Slice"):
        add("convert_node", node, kind, K("<node>", fn="convert_range_slice"))
    for kind in ("Raise", "Handle"):
        add("convert_node", node, kind, K("<node>", fn="convert_handle"))
    for kind in ("DictBuilder", "ListBuilder", "SetBuilder"):
        add("convert_node", node, kind, K("<node>", fn="convert_builder"))
    for kind in ("VariableDef", "FunDef", "FunArg"):
        add("convert_node", node, kind, K("<node>", fn="convert_def"))
    for kind in ("TypeDef", "TypeAlias", "Class", "Parent"):
        add("convert_node", node, kind, K("<node>", fn="convert_class"))
    # --- definitions (annotation slots are C11's subject, the emitted name C15's)
    defs = CONV + "definition.rs"
    body = OneOf(K("body", state={"expand_ty": True}), C("Pass"))
    add("convert_def", defs, "FunArg", C("FunArg", vararg=Kid("vararg"), var=K("var"), ty=ANY, default=Opt("default", K("default"))))
    add("convert_def", defs, "FunDef", OneOf(C("FunDef", dec=ANY, id=ANY, arg=_vec("args"), ty=ANY, body=body),
                                              C("FunDefOp", op=ANY, arg=_vec("args"), ty=ANY, body=body)))
    add("convert_def", defs, "VariableDef", When(
        lambda a: a.svals["def_as_fun_arg"],
        C("FunArg", vararg=False, var=K("var"), ty=ANY, default=Opt("expr", K("expr"))),
        C("VarDef", var=K("var"), ty=ANY, expr=OneOf(Opt("expr", K("expr")), some(C("Tuple", elements=ANY))))))
    # --- control flow
    cond = K("cond", state=CLEARED)
    add("convert_cntrl_flow", flow, "IfElse", OneOf(
        C("If", cond=cond, then=K("then")),
        C("Ternary", cond=cond, then=K("then", state=TERN), el=K("el", state=TERN)),
        C("IfElse", cond=cond, then=K("then"), el=K("el"))))
    add("convert_cntrl_flow", flow, "While", C("While", cond=K("cond"), body=K("body")))
    add("convert_cntrl_flow", flow, "For", C("For", expr=K("expr"), col=K("col"), body=K("body")))
    add("convert_cntrl_flow", flow, "Break", C("Break"))
    add("convert_cntrl_flow", flow, "Continue", C("Continue"))
    add("convert_cntrl_flow", flow, "Match", C("Match", expr=K("cond", state=CLEARED), cases=ANY), loop="match")
    # --- calls
    add("convert_call", call, "PropertyCall", C("PropertyCall", object=K("instance"), property=K("property")))
    add("convert_call", call, "FunctionCall", C("FunctionCall", function=ToPy("name"), args=_vec("args")))
    # --- raise / handle
    add("convert_handle", handle, "Raise", C("Raise", error=K("error")))
    add("convert_handle", handle, "Handle", C("TryExcept", setup=ANY, attempt=K("expr_or_stmt"), **{"except": ANY}), loop="handle")
    # --- comprehension builders
    add("convert_builder", builder, "ListBuilder",
        C("List", elements=SeqOf(C("Comprehension", expr=K("item"), col=K("conditions"), conds=_vec("conditions")))))
    add("convert_builder", builder, "SetBuilder",
        C("Set", elements=SeqOf(C("Comprehension", expr=K("item"), col=K("conditions"), conds=_vec("conditions")))))
    add("convert_builder", builder, "DictBuilder",
        C("DictComprehension", to=K("to"), col=K("conditions"), conds=_vec("conditions"), **{"from": K("from")}))
    return S


def check_arm(run, mir, sp):
    """-> (arm, ok paths, pairs, notes): pairs[i] = (path condition, claim) for the i-th Ok path."""
    arm = Arm(run, mir, sp["fn"], sp["file"], sp["kind"])
    ex = arm.ex
    oks = [p for p in arm.ends if p.kind == "return" and isinstance(p.ret, Agg) and p.ret.ty == "Result" and p.ret.variant == "Ok"]
    pairs, notes = [], []
    for p in oks:
        cl, nt = [], []
        core = p.ret.fields[0]
        post = [ev for ev in p.events if ev["name"].split("::")[-1] in ("append_assign", "append_ret")]
        if sp["fn"] == "convert_node":
            # convert_node post-processes the translated node when a `return` / assignment is pending: the translation
            # proper is what the first post-processing step receives; the chain itself must follow the two flags
            names = [ev["name"].split("::")[-1] for ev in post]
            want_assign = ex.discr(arm.st, arm.svals["must_assign_to"], "Option") == 1
            want_ret = arm.svals["is_last_must_be_ret"]
            cl.append(want_assign == z3.BoolVal("append_assign" in names))
            cl.append(want_ret == z3.BoolVal("append_ret" in names))
            if names not in ([], ["append_assign"], ["append_ret"], ["append_assign", "append_ret"]):
                cl.append(z3.BoolVal(False))
                nt.append(f"post-processing chain {names}")
            if post:
                a0 = post[0]["args"][0]
                core = ex.read_ref(p.state, a0) if isinstance(a0, Ref) else a0
                # each step feeds the next, the last one is the result
                prev = post[0]
                for nxt in post[1:]:
                    b0 = nxt["args"][0]
                    bv = ex.read_ref(p.state, b0) if isinstance(b0, Ref) else b0
                    cl.append(ex.to_val(p.state, bv) == ex.to_val(p.state, prev["ret"]))
                    prev = nxt
                cl.append(ex.to_val(p.state, p.ret.fields[0]) == ex.to_val(p.state, prev["ret"]))
        match_shape(arm, p, core, sp["spec"], cl, nt)
        pairs.append((conj(list(p.cond)), conj(cl)))
        notes += nt
    return arm, oks, pairs, notes


# --------------------------------------------------------------------------------------------------
# loop bodies (Match cases, Handle arms): one iteration from an arbitrary loop state

def elem_of(arm, p):
    evs = [ev for ev in p.events if ev["name"].endswith("Iterator::next")]
    if not evs:
        raise Unsupported("no Iterator::next on this path")
    ex = arm.ex
    return ex.project(p.state, ex.project(p.state, evs[-1]["ret"], ("v", "Some")), ("f", 0), "&ASTTy")


def nav(arm, p, v, *steps):
    ex = arm.ex
    for stp in steps:
        if isinstance(v, Ref):
            v = ex.read_ref(p.state, v)
        if stp == "node":
            v = ex.project(p.state, v, ("f", e2.rust_struct(AST_RS, "ASTTy").index("node")), "NodeTy")
        elif stp == "some":
            v = ex.project(p.state, ex.project(p.state, v, ("v", "Some")), ("f", 0), "?")
        elif stp[0] == "t":
            v = ex.project(p.state, v, ("f", stp[1]), "ASTTy")
        elif stp[0] == "as":
            v = ex.project(p.state, v, ("v", stp[1]))
        else:
            _f, variant, field = stp
            fs = list(enum_types(AST_RS, "NodeTy")[variant])
            v = ex.project(p.state, v, ("f", fs.index(field)), "?")
    return v


def _case_cond_expr(arm, p):
    return nav(arm, p, elem_of(arm, p), "node", ("as", "Case"), ("f", "Case", "cond"), "node", ("as", "ExpressionType"),
               ("f", "ExpressionType", "expr"))


def _case_cond_ty(arm, p):
    return nav(arm, p, elem_of(arm, p), "node", ("as", "Case"), ("f", "Case", "cond"), "node", ("as", "ExpressionType"),
               ("f", "ExpressionType", "ty"), "some")


def _case_body(arm, p):
    return nav(arm, p, elem_of(arm, p), "node", ("as", "Case"), ("f", "Case", "body"))


class Tup:
    def __init__(self, *items):
        self.items = items


LOOP_ITEMS = {
    "dict": (("tuple",), Tup(Kv(lambda a, p: nav(a, p, elem_of(a, p), ("t", 0)), what="key"),
                             Kv(lambda a, p: nav(a, p, elem_of(a, p), ("t", 1)), what="value"))),
    "match": (("Case",), C("Case", expr=Kv(_case_cond_expr, state=CLEARED, what="case pattern"),
                           body=Kv(_case_body, what="case body"))),
    "handle": (("Except", "ExceptId"), OneOf(
        C("Except", **{"class": ToPyv(_case_cond_ty, what="declared class of the arm"), "body": Kv(_case_body, what="arm body")}),
        C("ExceptId", **{"id": Kv(_case_cond_expr, what="arm identifier"), "class": ToPyv(_case_cond_ty, what="declared class of the arm"),
                         "body": Kv(_case_body, what="arm body")}))),
}


def pushed_item(p, variants):
    """The element appended in this iteration: last item of an abstract vector whose tail was built on this path."""
    found = []
    for v in p.state.cells.values():
        if isinstance(v, Seq) and v.parts and v.parts[-1][0] == "item":
            it = v.parts[-1][1]
            ok = isinstance(it, Agg) and ((it.ty == "Core" and it.variant in variants) or (it.ty == "tuple" and "tuple" in variants))
            if ok and not any(it is f for f in found):
                found.append(it)
    return found


def check_loop(arm, sp):
    """pairs (path condition, claim) for the loop-back paths of the arm's loop that append an element, plus notes;
    also the number of loop-back paths that append nothing although the element is a well-formed case."""
    variants, item_spec = LOOP_ITEMS[sp["loop"]]
    pairs, notes, n = [], [], 0
    for p in arm.ends:
        if p.kind != "loop_back":
            continue
        items = pushed_item(p, variants)
        if not items:
            if sp["loop"] in ("match", "handle"):
                # nothing appended: only when the element is not a well-formed case (never silently drops one)
                try:
                    el = elem_of(arm, p)
                    nd = nav(arm, p, el, "node")
                    cnd = nav(arm, p, el, "node", ("as", "Case"), ("f", "Case", "cond"), "node")
                    ex = arm.ex
                    wf = z3.And(ex.discr(p.state, nd, "NodeTy") == ex.discr_of_variant("NodeTy", "Case"),
                                ex.discr(p.state, cnd, "NodeTy") == ex.discr_of_variant("NodeTy", "ExpressionType"))
                    pairs.append((conj(list(p.cond)), z3.Not(wf)))
                except Unsupported as e:
                    notes.append(str(e))
            continue
        n += 1
        cl, nt = [], []
        if len(items) != 1:
            cl.append(z3.BoolVal(False))
            nt.append(f"{len(items)} appended elements in one iteration")
        else:
            match_shape(arm, p, items[0], item_spec, cl, nt, "appended element")
            if sp["loop"] == "handle":
                # the arm binds its identifier (except C as id) unless the pattern is `_`
                try:
                    idev = [ev for ev in p.events if ev["name"].split("::")[-1] == "convert_node" and
                            z3.simplify(arm.ex.to_val(p.state, arm.ex.read_ref(p.state, ev["args"][0]) if isinstance(ev["args"][0], Ref) else ev["args"][0]))
                            .eq(z3.simplify(arm.ex.to_val(p.state, _case_cond_expr(arm, p))))]
                    if not idev:
                        raise Unsupported("arm identifier is not converted")
                    d = arm.ex.discr(p.state, arm.ok_payload(p, idev[-1]), "Core")
                    is_us = d == arm.ex.discr_of_variant("Core", "UnderScore")
                    cl.append(is_us == z3.BoolVal(items[0].variant == "Except"))
                except Unsupported as e:
                    cl.append(z3.BoolVal(False))
                    nt.append(str(e))
        pairs.append((conj(list(p.cond)), conj(cl)))
        notes += nt
    return n, pairs, notes


OWN_ERRORS = {"ListBuilder", "SetBuilder", "DictBuilder", "Handle", "Condition", "FunDef"}


def err_pairs(arm, sp):
    """An arm fails only because a recursive conversion failed (kinds with documented errors of their own excepted)."""
    if sp["kind"] in OWN_ERRORS:
        return []
    ex = arm.ex
    pairs = []
    for p in arm.ends:
        if p.kind != "return" or not (isinstance(p.ret, Agg) and p.ret.ty == "Result" and p.ret.variant == "Err"):
            continue
        srcs = [ev for ev in p.events if ev["name"].split("::")[-1] in RECURSIVE or ev["name"].endswith("try_from")]
        failed = []
        for ev in srcs:
            try:
                failed.append(ex.discr(p.state, ev["ret"], "Result") == 1)
            except Unsupported:
                pass
        pairs.append((conj(list(p.cond)), disj(failed)))
    return pairs


# --------------------------------------------------------------------------------------------------
# replay programs per node kind: (Mamba source, stdout the documented meaning gives)

STRUCT_PROGRAMS = {
    "Int": [("print(42)", "42")],
    "Real": [("print(2.5)", "2.5")],
    "ENum": [("print(2E3)", "2000")],
    "Str": [("print(\"hi\")", "hi"), ("def a := 3\nprint(\"v={a}\")", "v=3")],
    "Bool": [("print(True)", "True")],
    "Undefined": [("def x: Int? := None\ndef y: Int := x ? 5\nprint(y)", "5")],
    "Pass": [("if True then pass\nprint(1)", "1")],
    "ReturnEmpty": [("def f(x: Int) =>\n    if x > 1 then\n        return\n    print(x)\nf(1)\nf(5)", "1")],
    "Import": [("from math import floor\nprint(1)", "1"), ("import math\nprint(1)", "1")],
    "Reassign": [("def x := 1\nx := 5\nprint(x)", "5"), ("def x := 7\ndef y := 2\nx := y\nprint(x)", "2")],
    "Block": [("def f() -> Int =>\n    def a := 1\n    def b := a + 1\n    b * 10\nprint(f())", "20")],
    "Tuple": [("def (a, b) := (1, 2)\nprint(a)\nprint(b)", "1\n2")],
    "List": [("def l := [3, 1, 2]\nfor x in l do print(x)", "3\n1\n2")],
    "Set": [("def s := {4}\nfor x in s do print(x)", "4")],
    "Dict": [("def d := { 10 => 200, 30 => 5 }\nprint(d[10])\nprint(d[30])", "200\n5")],
    "Index": [("def l := [3, 1, 2]\nprint(l[1])", "1")],
    "Return": [("def f(x: Int) -> Int =>\n    if x > 1 then return 7\n    return 3\nprint(f(0))\nprint(f(5))", "3\n7")],
    "IsNA": [],
    "AnonFun": [("def apply(f: Int -> Int, x: Int) -> Int => f(x)\nprint(apply(\\x: Int => x - 1, 3))", "2")],
    "IfElse": [("def y := 1\ndef b := False\ndef x := match y\n    1 => if b then 10 else 20\n    _ => 30\nprint(x)", "20"),
               ("def c := True\ndef b := True\ndef x := if c then\n    print(0)\n    if b then 10 else 20\nelse\n    30\nprint(x)", "0\n10"),
               ("def x := 3\nif x > 2 then print(1) else print(2)", "1"), ("def x := 1\nif x > 2 then print(1) else print(2)", "2"),
               ("def x := 3\ndef y := if x > 2 then 10 else 20\nprint(y)", "10"), ("def x := 3\nif x > 2 then print(1)\nprint(9)", "1\n9"),
               ("def f(x: Int) -> Int =>\n    if x > 2 then\n        10\n    else\n        20\nprint(f(3))\nprint(f(1))", "10\n20"),
               ("def f(x: Int) -> Int => if x > 2 then 10 else 20\nprint(f(3))\nprint(f(1))", "10\n20")],
    "While": [("def i := 0\nwhile i < 3 do i := i + 1\nprint(i)", "3")],
    "For": [("for i in [1, 2] do print(i)", "1\n2")],
    "Break": [],
    "Continue": [],
    "Match": [("def a := 2\nmatch a\n    1 => print(\"one\")\n    2 => print(\"two\")\n    _ => print(\"other\")", "two"),
              ("def a := 5\nmatch a\n    1 => print(\"one\")\n    _ => print(\"other\")", "other"),
              ("def f(a: Int) -> Int =>\n    match a\n        1 => 10\n        _ => 20\nprint(f(1))\nprint(f(2))", "10\n20")],
    "PropertyCall": [("class A(def v: Int)\ndef a := A(3)\nprint(a.v)", "3")],
    "FunctionCall": [("def f(x: Int, y: Int) -> Int => x - y\nprint(f(5, 2))", "3")],
    "Raise": [("class MyErr(msg: Str): Exception(msg)\ndef f(x: Int) -> Int raise [MyErr] =>\n    if x > 2 then raise MyErr(\"big\") else x\ndef g(x: Int) -> Int =>\n    f(x) handle\n        err: MyErr => -1\nprint(g(1))\nprint(g(5))", "1\n-1")],
    "Handle": [("class E1(msg: Str): Exception(msg)\nclass E2(msg: Str): Exception(msg)\ndef f(x: Int) -> Int raise [E1, E2] =>\n    if x = 1 then raise E1(\"a\")\n    if x = 2 then raise E2(\"b\")\n    x\ndef g(x: Int) -> Int =>\n    f(x) handle\n        err: E1 => -1\n        err: E2 => -2\nprint(g(0))\nprint(g(1))\nprint(g(2))", "0\n-1\n-2"),
               ("class E1(msg: Str): Exception(msg)\ndef f(x: Int) -> Int raise [E1] =>\n    if x = 1 then raise E1(\"a\")\n    x\ndef a := f(1) handle\n    err: E1 => 50\nprint(a)", "50")],
    "HandleId": [("class E1(msg: Str): Exception(msg)\ndef f(x: Int) -> Int raise [E1] =>\n    if x = 1 then raise E1(\"a\") else x\ndef g(x: Int) -> Int =>\n    f(x) handle\n        err: E1 =>\n            print(err)\n            -1\nprint(g(1))", "a\n-1"),
                 ("class E1(msg: Str): Exception(msg)\ndef f(x: Int) -> Int raise [E1] =>\n    if x = 1 then raise E1(\"a\") else x\ndef g(x: Int) -> Int =>\n    f(x) handle\n        _: E1 => -1\nprint(g(1))", "-1")],
    "ListBuilder": [("def h := [1, 5, 9]\ndef i: List[Int] := [ x + 1 | x in h, x > 3 ]\nfor y in i do print(y)", "6\n10")],
    "SetBuilder": [("def h := [1, 5]\ndef i: Set[Int] := { x + 1 | x in h, x > 3 }\nfor y in i do print(y)", "6")],
    "DictBuilder": [("def h := [1, 5]\ndef i: Dict[Int, Int] := { x => x + 10 | x in h, x > 3 }\nprint(i[5])", "15")],
    "With": [],
    "FunArg": [("def f(x: Int, y: Int := 3) -> Int => x - y\nprint(f(10))\nprint(f(10, 1))", "7\n9"),
               ("def f(vararg xs: Int) -> Int => 3", "3", "print(f(1, 2, 3))"),
               ("class Bag(vararg items: Int)\n    def count: Int := 0\n    def add(self, first: Int, vararg more: Int) -> Int => first", "0 7",
                "b = Bag(1, 2, 3); print(b.count, b.add(7, 8, 9))")],
    "FunDef": [("def f() -> Int => 3\nprint(f())", "3"), ("def f(x: Int) => print(x)\nf(4)", "4")],
    "VariableDef": [("def x := 4\nprint(x)", "4"), ("class A(def v: Int := 5)\ndef a := A()\nprint(a.v)", "5"),
                    ("def x: Int\nx := 5\nprint(x)", "5")],
    "ExpressionType": [("def a := 2\nmatch a\n    2 => print(\"two\")\n    _ => print(\"other\")", "two")],
    "AddU": [],
}
