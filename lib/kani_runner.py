"""Parallel runner for the Kani proof harnesses of /verif/kani (engine E1).

    from kani_runner import run_harnesses, concrete_playback, cleanup, FAMILIES
    res = run_harnesses(FAMILIES["step2"], jobs=8)
    res["step2_lt"] -> {"status": "success"|"failure"|"timeout"|"oom"|"error", "wall_s": float,
                        "failed_checks": [str], "unsatisfied_covers": [str], "log": path,
                        "peak_rss_mb": int}   # extra: peak RSS of the largest process (cbmc)

Facts this module encodes (all measured, Kani 0.68 / CBMC 6.11):

* one `cargo kani` process per harness, each with its own `--target-dir` ("slot") outside /verif
  and /repo; a slot is used by one process at a time and re-used for the next harness so that the
  mamba dependency is compiled once per slot (first build ~35 s; the first slot is built by a
  warm-up run and copied to the others);
* harness names are matched with `--exact` on `harnesses::<name>`: the plain `--harness` filter is
  a substring match and would run e.g. every harness whose name merely contains the given one;
* `--no-memory-safety-checks` always; `-Z stubbing` always (only `step_other_char` has stubs);
* the `state_order_*` harnesses need `--cbmc-args --max-field-sensitivity-array-size 1024`
  (HARNESS_ARGS; must be last on the command line): without it one single case runs the solver out
  of 12 GB, with it 6 s. It costs the symbolic harnesses ~25 %, so it is not passed to them;
* the regular (not terse) output format is used because only it lists every check with its
  `Status:`; the parser understands the terse format as well;
* `ulimit -v` (RLIMIT_AS) per process; a solver that runs out of memory shows up as
  "out of memory" / `Status: ERROR` lines / "CBMC failed with status 6";
* never `pkill -f`; child process groups are killed on timeout.
"""
import os
import re
import resource
import shutil
import signal
import subprocess
import threading
import time

KANI_CRATE = os.path.join(os.path.dirname(os.path.dirname(os.path.abspath(__file__))), "kani")
MODULE = "harnesses"  # Rust module that holds every harness in /verif/kani/src/lib.rs

_STEP = ["comma", "colon", "lparen", "rparen", "lbrack", "rbrack", "lbrace", "rbrace", "bar",
         "dot", "lt", "gt", "plus", "minus", "star", "slash", "bslash", "caret", "eq", "bang",
         "question", "space", "nl", "cr"]
_ORDER = (["state_order_pass_c%02d_k%d" % (c, k) for c in range(1, 14) for k in (0, 1, 2)]
          + ["state_order_comment_c%02d" % c for c in (1, 6, 13)])

#: every harness of /verif/kani/src/lib.rs by family
FAMILIES = {
    "step2": ["step2_" + m for m in _STEP],          # look-ahead K = 2, ~40-90 s each
    "step3": ["step3_" + m for m in _STEP],          # look-ahead K = 3
    "step_other": ["step_other_char"],               # ~25 s
    "state": ["state_token_pass", "state_token_comment", "state_token_nl", "state_space",
              "state_flush"],                        # symbolic one-step summaries
    "state_order": _ORDER,                           # enumerated content/order: 42 harnesses,
                                                     # 3-6 min and 3-6.5 GB each (22 min at 8 jobs)
    # subset of state_order (lowest, a non-multiple-of-4 and highest cur_indent): ~6 min at 8 jobs
    "state_order_quick": (["state_order_pass_c%02d_k%d" % (c, k) for c in (1, 6, 13) for k in (0, 1, 2)]
                          + ["state_order_comment_c06"]),
    "table": ["table_concrete_to_python", "table_as_op_or_id", "table_long_names"],
}
ALL = [h for f, fam in FAMILIES.items() if f != "state_order_quick" for h in fam]

#: extra `cargo kani` arguments by harness-name pattern (appended last: --cbmc-args eats the rest)
HARNESS_ARGS = [
    (re.compile(r"^state_order_"),
     ["-Z", "unstable-options", "--cbmc-args", "--max-field-sensitivity-array-size", "1024"]),
]

BASE_ARGS = ["--no-memory-safety-checks", "-Z", "stubbing"]

_scratch_dir = None
_lock = threading.Lock()


def scratch():
    """Scratch directory `$TMPDIR or /var/tmp`/kani-td-<pid> (target dirs and logs)."""
    global _scratch_dir
    with _lock:
        if _scratch_dir is None:
            fixed = os.environ.get("VERIF_KANI_DIR")
            if fixed:
                # persistent build cache (cargo decides what to rebuild from /repo's current sources)
                _scratch_dir = fixed
            else:
                base = os.environ.get("TMPDIR") or "/var/tmp"
                _scratch_dir = os.path.join(base, "kani-td-%d" % os.getpid())
            os.makedirs(os.path.join(_scratch_dir, "logs"), exist_ok=True)
        return _scratch_dir


def cleanup():
    """Remove every target dir and log this process created."""
    global _scratch_dir
    with _lock:
        d, _scratch_dir = _scratch_dir, None
    if d:
        shutil.rmtree(d, ignore_errors=True)


def _env():
    e = dict(os.environ)
    e["CARGO_NET_OFFLINE"] = "true"  # `cargo kani` rejects --offline
    e.pop("RUSTFLAGS", None)
    return e


def _slot_dir(slot):
    return os.path.join(scratch(), "slot%d" % slot)


def _cmd(name, slot, extra_args=(), output_format="regular"):
    cmd = ["cargo", "kani", "--harness", "%s::%s" % (MODULE, name), "--exact",
           "--target-dir", _slot_dir(slot), "--output-format", output_format] + BASE_ARGS
    cmd += list(extra_args)
    for pat, args in HARNESS_ARGS:  # last: everything after --cbmc-args goes to CBMC
        if pat.search(name):
            cmd += args
    return cmd


def _limit(mem_gb):
    def fn():
        os.setsid()  # own process group, so that a timeout can kill cargo, kani-driver and cbmc
        if mem_gb:
            lim = int(mem_gb * 1024 ** 3)
            resource.setrlimit(resource.RLIMIT_AS, (lim, lim))
    return fn


def _run(cmd, log_path, timeout_s, mem_gb):
    """Run cmd with output to log_path.
    Returns (returncode or None on timeout, wall seconds, peak RSS in MB of the largest process)."""
    t0 = time.time()
    with open(log_path, "wb") as log:
        log.write((" ".join(cmd) + "\n").encode())
        log.flush()
        p = subprocess.Popen(cmd, cwd=KANI_CRATE, env=_env(), stdout=log,
                             stderr=subprocess.STDOUT, stdin=subprocess.DEVNULL,
                             preexec_fn=_limit(mem_gb))
        # poll with wait4 to get the peak RSS of the largest process of the tree (that is cbmc)
        rc, peak_kb = None, 0
        deadline = t0 + timeout_s
        while True:
            pid, st, ru = os.wait4(p.pid, os.WNOHANG)
            if pid:
                rc = os.waitstatus_to_exitcode(st)
                peak_kb = ru.ru_maxrss
                break
            if time.time() > deadline:
                break
            time.sleep(0.5)
        # whatever happened, nothing of this group may survive (cbmc outlives a killed cargo)
        for sig in (signal.SIGTERM, signal.SIGKILL):
            try:
                os.killpg(p.pid, sig)
            except (ProcessLookupError, PermissionError):
                break
            time.sleep(0.5)
        if rc is None:
            _pid, _st, ru = os.wait4(p.pid, 0)
            peak_kb = ru.ru_maxrss
        p.returncode = rc if rc is not None else -9
    return rc, time.time() - t0, peak_kb / 1024.0


_RE_CHECK = re.compile(r"^Check \d+: (\S+)")
_RE_STATUS = re.compile(r"^\s*- Status: (\w+)")
_RE_DESC = re.compile(r'^\s*- Description: "(.*)"\s*$')
_RE_LOC = re.compile(r"^\s*- Location: (.*)$")
_RE_TERSE_FAIL = re.compile(r'^Failed Checks: (.*)$')
_RE_TERSE_LOC = re.compile(r'^\s*File: "(.*)", line (\d+), in (.*)$')


def parse_output(text, rc):
    """Kani output (regular or terse) -> (status, failed_checks, unsatisfied_covers)."""
    failed, unsat, n_error = [], [], 0
    cur = None  # [property name, status, description]
    lines = text.splitlines()

    def close(loc=""):
        nonlocal cur, n_error
        if cur is None:
            return
        name, status, desc = cur
        item = "%s [%s]%s" % (desc or name, name, (" @ " + loc) if loc else "")
        if status == "FAILURE":
            failed.append(item)
        elif status in ("UNSATISFIED", "UNREACHABLE") and ".cover." in name:
            unsat.append(item)
        elif status == "ERROR":
            n_error += 1
        elif status == "UNDETERMINED" and ".cover." not in name:
            failed.append("UNDETERMINED: " + item)
        cur = None

    for i, line in enumerate(lines):
        m = _RE_CHECK.match(line)
        if m:
            close()
            cur = [m.group(1), None, None]
            continue
        if cur is not None:
            m = _RE_STATUS.match(line)
            if m:
                cur[1] = m.group(1)
                continue
            m = _RE_DESC.match(line)
            if m:
                cur[2] = m.group(1)
                continue
            m = _RE_LOC.match(line)
            if m:
                close(m.group(1))
                continue
            if not line.strip():
                close()
                continue
        m = _RE_TERSE_FAIL.match(line)
        if m:
            loc = ""
            if i + 1 < len(lines):
                ml = _RE_TERSE_LOC.match(lines[i + 1])
                if ml:
                    loc = "%s:%s in %s" % ml.groups()
            item = m.group(1).strip('"') + ((" @ " + loc) if loc else "")
            if item not in failed:
                failed.append(item)
    close()

    oom = ("out of memory" in text or "std::bad_alloc" in text or "bad_alloc" in text
           or re.search(r"CBMC failed with status (6|134|137)\b", text) is not None
           or "memory allocation of" in text or "Cannot allocate memory" in text)
    ok = "VERIFICATION:- SUCCESSFUL" in text
    bad = "VERIFICATION:- FAILED" in text
    if rc is None:
        status = "timeout"
    elif ok and not bad and not failed:
        status = "success"
    elif oom:
        status = "oom"
    elif failed:
        status = "failure"
    elif n_error or not bad:
        status = "error"  # compile error, CBMC crash, harness not found, ...
    else:
        # FAILED without any failed check listed: unwinding assertion in terse mode, CBMC error, ...
        status = "error" if "CBMC failed" in text else "failure"
        if status == "failure":
            failed.append("VERIFICATION:- FAILED without a listed failed check (see log)")
    return status, failed, unsat


def _warm_up(slots, timeout_s, mem_gb):
    """Compile mamba + the harness crate once (slot 0), then copy the target dir to the others."""
    first = _slot_dir(0)
    if not os.path.isdir(first):
        os.makedirs(first)
        # cheapest harness there is; its only purpose is to populate the target dir
        log = os.path.join(scratch(), "logs", "_warmup.log")
        rc, wall, _rss = _run(_cmd("state_space", 0, output_format="terse"), log, timeout_s, mem_gb)
        if rc is None or rc not in (0, 1):
            return "warm-up build did not finish normally (rc=%r, %.0f s), see %s" % (rc, wall, log)
        with open(log, errors="replace") as fh:
            if "VERIFICATION:-" not in fh.read():
                return "warm-up build failed (does /verif/kani compile?), see %s" % log
    for s in range(1, slots):
        d = _slot_dir(s)
        if not os.path.isdir(d):
            subprocess.run(["cp", "-r", first, d], check=False)
    return None


def run_harnesses(names, jobs=8, timeout_s=1200, mem_gb=12, extra_args=()):
    """Run the named harnesses, `jobs` at a time. See module docstring for the result shape."""
    names = list(names)
    results = {}
    if not names:
        return results
    jobs = max(1, min(jobs, len(names)))
    err = _warm_up(jobs, timeout_s, mem_gb)
    if err:
        for n in names:
            results[n] = {"status": "error", "wall_s": 0.0, "failed_checks": [err],
                          "unsatisfied_covers": [], "log": os.path.join(scratch(), "logs", "_warmup.log")}
        return results

    queue = list(names)
    qlock = threading.Lock()

    def worker(slot):
        while True:
            with qlock:
                if not queue:
                    return
                name = queue.pop(0)
            log = os.path.join(scratch(), "logs", name + ".log")
            rc, wall, rss = _run(_cmd(name, slot, extra_args), log, timeout_s, mem_gb)
            with open(log, errors="replace") as fh:
                text = fh.read()
            status, failed, unsat = parse_output(text, rc)
            with qlock:
                results[name] = {"status": status, "wall_s": round(wall, 1),
                                 "failed_checks": failed, "unsatisfied_covers": unsat, "log": log,
                                 "peak_rss_mb": round(rss)}

    threads = [threading.Thread(target=worker, args=(s,)) for s in range(jobs)]
    for t in threads:
        t.start()
    for t in threads:
        t.join()
    return results


def concrete_playback(name, timeout_s=1200, mem_gb=12, extra_args=()):
    """Run the harness with `-Z concrete-playback --concrete-playback=print` and return the text of
    the generated unit test(s) (the `vec![...]` lines are the bytes of each `kani::any()` in order;
    empty string if Kani printed none, e.g. because nothing failed and no cover was satisfied)."""
    _warm_up(1, timeout_s, mem_gb)
    log = os.path.join(scratch(), "logs", name + ".playback.log")
    args = ["-Z", "concrete-playback", "--concrete-playback=print"] + list(extra_args)
    _run(_cmd(name, 0, args), log, timeout_s, mem_gb)
    with open(log, errors="replace") as fh:
        text = fh.read()
    tests, cur = [], None
    for line in text.splitlines():
        if line.startswith("Concrete playback unit test for"):
            cur = []
            continue
        if cur is not None:
            if line.strip() == "```":
                if cur:  # closing fence
                    tests.append("\n".join(cur))
                    cur = None
                else:    # opening fence
                    cur.append("")
                continue
            cur.append(line)
    return "\n\n".join(t.strip("\n") for t in tests)


def format_table(results):
    rows = ["%-32s %-8s %8s %8s  %s" % ("harness", "status", "wall_s", "rss_mb", "failed checks / unsatisfied covers")]
    for n in sorted(results):
        r = results[n]
        notes = "; ".join(r["failed_checks"][:3])
        if r["unsatisfied_covers"]:
            notes += (" | " if notes else "") + "unsat covers: " + "; ".join(r["unsatisfied_covers"][:3])
        rows.append("%-32s %-8s %8.1f %8d  %s" % (n, r["status"], r["wall_s"], r.get("peak_rss_mb", 0), notes))
    return "\n".join(rows)


if __name__ == "__main__":
    import argparse
    import json
    ap = argparse.ArgumentParser(description=__doc__.split("\n")[0])
    ap.add_argument("what", nargs="+", help="family names (%s, all) or harness names" % ", ".join(FAMILIES))
    ap.add_argument("--jobs", type=int, default=8)
    ap.add_argument("--timeout", type=int, default=1200)
    ap.add_argument("--mem-gb", type=float, default=12)
    ap.add_argument("--json", help="write the result dict to this file")
    ap.add_argument("--keep", action="store_true", help="do not remove target dirs and logs")
    ap.add_argument("--playback", action="store_true", help="print concrete playback of the named harnesses")
    a = ap.parse_args()
    sel = []
    for w in a.what:
        sel += ALL if w == "all" else FAMILIES.get(w, [w])
    try:
        if a.playback:
            for n in sel:
                print(concrete_playback(n, a.timeout, a.mem_gb))
        else:
            res = run_harnesses(sel, a.jobs, a.timeout, a.mem_gb)
            print(format_table(res))
            if a.json:
                with open(a.json, "w") as fh:
                    json.dump(res, fh, indent=1)
    finally:
        if a.keep:
            print("kept:", scratch())
        else:
            cleanup()
