"""srcsym (E3): source -> template encoder for the big structural `match` tables.

Parses, from the *current source text*, the arms of `to_py` (src/generate/ast/mod.rs) and of
`Display for Token` into templates: sequences of literal pieces and slots. Only the tiny Rust subset
these arms use is understood; an arm outside the subset is returned with template None
('unencoded') and makes the obligations that need it inconclusive."""
import re

OPEN = {"(": ")", "[": "]", "{": "}"}


class SrcError(Exception):
    pass


def skip_string(s, i):
    """s[i] == '"' (or r#"): return index after the literal."""
    assert s[i] == '"'
    j = i + 1
    while j < len(s):
        if s[j] == "\\":
            j += 2
            continue
        if s[j] == '"':
            return j + 1
        j += 1
    raise SrcError("unterminated string literal")


def skip_char(s, i):
    m = re.match(r"'(\\.|[^'\\])'", s[i:])
    return i + len(m.group(0)) if m else i + 1


def match_close(s, i):
    o = s[i]
    c = OPEN[o]
    depth = 0
    j = i
    while j < len(s):
        ch = s[j]
        if ch == '"':
            j = skip_string(s, j)
            continue
        if ch == "'":
            j = skip_char(s, j)
            continue
        if s.startswith("//", j):
            j = s.index("\n", j)
            continue
        if ch == o:
            depth += 1
        elif ch == c:
            depth -= 1
            if depth == 0:
                return j
        j += 1
    raise SrcError("unbalanced " + o)


def split_top(s, sep=","):
    out, cur, i = [], [], 0
    while i < len(s):
        ch = s[i]
        if ch == '"':
            j = skip_string(s, i)
            cur.append(s[i:j])
            i = j
            continue
        if ch == "'":
            j = skip_char(s, i)
            cur.append(s[i:j])
            i = j
            continue
        if ch in OPEN:
            j = match_close(s, i)
            cur.append(s[i:j + 1])
            i = j + 1
            continue
        if s.startswith(sep, i):
            out.append("".join(cur).strip())
            cur = []
            i += len(sep)
            continue
        cur.append(ch)
        i += 1
    last = "".join(cur).strip()
    if last:
        out.append(last)
    return out


def unescape(lit):
    """Rust string literal body -> python str."""
    out, i = [], 0
    while i < len(lit):
        c = lit[i]
        if c == "\\":
            n = lit[i + 1]
            out.append({"n": "\n", "t": "\t", "r": "\r", "\\": "\\", '"': '"', "'": "'", "0": "\0"}.get(n, n))
            i += 2
        else:
            out.append(c)
            i += 1
    return "".join(out)


def strip_comments(s):
    out, i = [], 0
    while i < len(s):
        if s[i] == '"':
            j = skip_string(s, i)
            out.append(s[i:j])
            i = j
        elif s[i] == "'":
            j = skip_char(s, i)
            out.append(s[i:j])
            i = j
        elif s.startswith("//", i):
            i = s.index("\n", i) if "\n" in s[i:] else len(s)
        else:
            out.append(s[i])
            i += 1
    return "".join(out)


def find_fn_body(src, header_re):
    m = re.search(header_re, src)
    if not m:
        raise SrcError("function not found: " + header_re)
    i = src.index("{", m.end() - 1)
    j = match_close(src, i)
    return src[i + 1:j]


def match_arms(body):
    """Body of a function whose (last) expression is `match X { arms }` -> [(pattern, guard, expr)]."""
    m = re.search(r"\bmatch\s+[^{]+\{", body)
    if not m:
        raise SrcError("no match expression")
    i = m.end() - 1
    j = match_close(body, i)
    text = body[i + 1:j]
    arms, k = [], 0
    n = len(text)
    while k < n:
        while k < n and text[k] in " \n\t,":
            k += 1
        if k >= n:
            break
        # pattern up to top-level '=>'
        p0 = k
        depth = 0
        while k < n and not (depth == 0 and text.startswith("=>", k)):
            if text[k] in "([{":
                e = match_close(text, k)
                k = e + 1
                continue
            if text[k] == '"':
                k = skip_string(text, k)
                continue
            k += 1
        pat = text[p0:k].strip()
        k += 2
        while k < n and text[k] in " \n\t":
            k += 1
        if k < n and text[k] == "{":
            e = match_close(text, k)
            expr = text[k:e + 1]
            k = e + 1
        else:
            e0 = k
            while k < n and text[k] != ",":
                if text[k] in "([{":
                    k = match_close(text, k) + 1
                    continue
                if text[k] == '"':
                    k = skip_string(text, k)
                    continue
                if text[k] == "'":
                    k = skip_char(text, k)
                    continue
                k += 1
            expr = text[e0:k]
        guard = None
        gm = re.match(r"^(.*?)\s+if\s+(.*)$", pat, re.S)
        if gm and "{" in gm.group(1) or gm and re.match(r"^[\w:]+$", gm.group(1).strip() if gm else ""):
            pat, guard = gm.group(1).strip(), gm.group(2).strip()
        arms.append((pat, guard, expr.strip()))
    return arms


FMT_HOLE = re.compile(r"\{\{|\}\}|\{([^{}]*)\}")


def parse_fmt(lit):
    """Rust format string -> [('lit', s) | ('hole', name_or_None, spec)]."""
    out, pos = [], 0
    for m in FMT_HOLE.finditer(lit):
        if m.start() > pos:
            out.append(("lit", lit[pos:m.start()]))
        if m.group(0) == "{{":
            out.append(("lit", "{"))
        elif m.group(0) == "}}":
            out.append(("lit", "}"))
        else:
            inner = m.group(1)
            name, _, spec = inner.partition(":")
            out.append(("hole", name.strip() or None, spec))
        pos = m.end()
    if pos < len(lit):
        out.append(("lit", lit[pos:]))
    merged = []
    for p in out:
        if p[0] == "lit" and merged and merged[-1][0] == "lit":
            merged[-1] = ("lit", merged[-1][1] + p[1])
        else:
            merged.append(p)
    return merged


def eval_arg(a):
    a = a.strip()
    m = re.fullmatch(r"to_py\(\s*&?(\w+)(?:\.as_ref\(\))?\s*,\s*(ind(?:\s*\+\s*1)?)\s*\)", a)
    if m:
        return ("child", m.group(1), "plain")
    m = re.fullmatch(r"operand\(\s*(\w+)\s*,\s*core\s*,\s*(true|false)\s*,\s*(ind(?:\s*\+\s*1)?)\s*\)", a)
    if m:
        return ("child", m.group(1), "right" if m.group(2) == "true" else "left")
    m = re.fullmatch(r"comma_delimited\(\s*(\w+)\s*,\s*ind\s*\)", a)
    if m:
        return ("list", m.group(1))
    m = re.fullmatch(r"(\w+)(?:\.clone\(\))?", a)
    if m:
        return ("str", m.group(1))
    # a text field written with its line breaks escaped (string literals): the same text for every single-line value
    m = re.fullmatch(r"(\w+)\.replace\(\s*'\\n'\s*,\s*\"\\\\n\"\s*\)", a)
    if m:
        return ("str", m.group(1), "line-breaks-escaped")
    return ("expr", a)


def eval_expr(e):
    """Arm expression -> template [pieces] or None."""
    e = strip_comments(e).strip()
    while e.startswith("{") and match_close(e, 0) == len(e) - 1:
        inner = e[1:-1].strip()
        if ";" in split_top(inner, ";")[0] and len(split_top(inner, ";")) > 1:
            return None
        e = inner
    m = re.match(r"^format!\s*([({])", e)
    if m:
        i = m.end() - 1
        j = match_close(e, i)
        if j != len(e) - 1:
            return None
        args = split_top(e[i + 1:j])
        if not args or not args[0].startswith('"'):
            return None
        fmt = parse_fmt(unescape(args[0][1:-1]))
        rest = [eval_arg(a) for a in args[1:]]
        out, k = [], 0
        for p in fmt:
            if p[0] == "lit":
                out.append(p)
            elif p[1] is None:
                if k >= len(rest):
                    return None
                out.append(rest[k])
                k += 1
            else:
                out.append(("str", p[1]))
        return out
    m = re.fullmatch(r'String::from\(\s*("(?:[^"\\]|\\.)*")\s*\)', e)
    if m:
        return [("lit", unescape(m.group(1)[1:-1]))]
    if e == "String::new()":
        return []
    m = re.fullmatch(r"(\w+)\.clone\(\)", e)
    if m:
        return [("str", m.group(1))]
    m = re.fullmatch(r"comma_delimited\(\s*(\w+)\s*,\s*ind\s*\)", e)
    if m:
        return [("list", m.group(1))]
    return None


def to_py_templates(src):
    """variant -> list of {'fields', 'guard', 'template', 'raw'} (several arms per variant possible)."""
    body = find_fn_body(src, r"fn to_py\(core: &Core, ind: usize\) -> String \{")
    out = {}
    for pat, guard, expr in match_arms(body):
        m = re.match(r"^Core::(\w+)\s*(?:\{(.*)\})?$", pat, re.S)
        if not m:
            continue
        fields = [f.strip() for f in (m.group(2) or "").split(",") if f.strip() and f.strip() != ".."]
        out.setdefault(m.group(1), []).append({"fields": fields, "guard": guard, "template": eval_expr(expr),
                                               "raw": expr})
    return out


def token_display_templates(src):
    """Token variant -> template from `impl fmt::Display for Token`."""
    m = re.search(r"impl fmt::Display for Token \{", src)
    if not m:
        raise SrcError("Display for Token not found")
    i = src.index("{", m.end() - 1)
    j = match_close(src, i)
    body = src[i + 1:j]
    out = {}
    for pat, guard, expr in match_arms(body):
        pm = re.match(r"^Token::(\w+)\s*(?:\((.*)\))?$", pat, re.S)
        if not pm:
            continue
        fields = [f.strip() for f in (pm.group(2) or "").split(",") if f.strip()]
        e = strip_comments(expr).strip()
        wm = re.fullmatch(r'write!\(\s*f\s*,\s*("(?:[^"\\]|\\.)*")\s*(?:,\s*(.*))?\)', e, re.S)
        tpl = None
        if wm:
            fmt = parse_fmt(unescape(wm.group(1)[1:-1]))
            rest = split_top(wm.group(2)) if wm.group(2) else []
            tpl, k = [], 0
            for p in fmt:
                if p[0] == "lit":
                    tpl.append(p)
                elif p[1] is None:
                    tpl.append(("str", rest[k].strip()) if k < len(rest) else ("expr", "?"))
                    k += 1
                else:
                    tpl.append(("str", p[1]))
        out[pm.group(1)] = {"fields": fields, "template": tpl, "raw": expr}
    return out
