"""Parser for rustc's `-Zunpretty=mir` text (the subset mamba's kernels use).

Produces MirFn objects: args, local types, basic blocks with parsed statements/terminators.
Anything the parser does not understand becomes ('raw', text) and makes the symbolic executor raise
Unsupported when (and only when) a path actually executes it."""
import os
import re


class ParseError(Exception):
    pass


# ------------------------------------------------------------------------------------------------
# tokenizer-free recursive descent over a string with balanced delimiters

OPEN = {"(": ")", "[": "]", "{": "}", "<": ">"}


def split_top(s, sep=","):
    """Split s on sep at nesting depth 0 (parens, brackets, braces, angle brackets, quotes)."""
    out, depth, cur, i, n = [], 0, [], 0, len(s)
    while i < n:
        c = s[i]
        if c == '"' or (c == "b" and i + 1 < n and s[i + 1] == '"' and (i == 0 or not (s[i-1].isalnum() or s[i-1] == '_'))):
            j = i + (2 if c == "b" else 1)
            while j < n:
                if s[j] == "\\":
                    j += 2
                    continue
                if s[j] == '"':
                    break
                j += 1
            cur.append(s[i:j + 1])
            i = j + 1
            continue
        if c == "'":
            # char literal or lifetime
            m = re.match(r"'(\\.[^']*|[^'\\])'", s[i:])
            if m:
                cur.append(m.group(0))
                i += len(m.group(0))
                continue
        if c in "([{":
            depth += 1
        elif c in ")]}":
            depth -= 1
        elif c == "<":
            # angle bracket only counts when it looks like a generic opener
            if i + 1 < n and s[i + 1] not in " =<" :
                depth += 1
        elif c == ">":
            if i > 0 and s[i - 1] not in "-= " and depth > 0:
                depth -= 1
        if depth == 0 and s.startswith(sep, i):
            out.append("".join(cur).strip())
            cur = []
            i += len(sep)
            continue
        cur.append(c)
        i += 1
    last = "".join(cur).strip()
    if last or out:
        out.append(last)
    return out


def match_paren(s, i):
    """s[i] is an opening delimiter; return index of the matching closer (quote-aware)."""
    o = s[i]
    c = OPEN[o]
    depth, n = 0, len(s)
    j = i
    while j < n:
        ch = s[j]
        if ch == '"':
            j += 1
            while j < n and s[j] != '"':
                if s[j] == "\\":
                    j += 1
                j += 1
        elif ch == "'":
            m = re.match(r"'(\\.[^']*|[^'\\])'", s[j:])
            if m:
                j += len(m.group(0)) - 1
        elif ch == o:
            depth += 1
        elif ch == c:
            if o == "<" and j > 0 and s[j - 1] in "-=":
                j += 1
                continue
            depth -= 1
            if depth == 0:
                return j
        j += 1
    raise ParseError("unbalanced: " + s[i:i + 80])


# ------------------------------------------------------------------------------------------------
# places / operands


def parse_place(s):
    """Return ('local', n) | ('deref', P) | ('field', P, k, ty) | ('downcast', P, variant)
    | ('index', P, local) | ('cindex', P, k, n, from_end) | ('subslice', P, a, b, from_end)."""
    s = s.strip()
    m = re.fullmatch(r"_(\d+)", s)
    if m:
        return ("local", int(m.group(1)))
    # trailing index?
    if s.endswith("]"):
        # find matching '['
        depth = 0
        for i in range(len(s) - 1, -1, -1):
            if s[i] == "]":
                depth += 1
            elif s[i] == "[":
                depth -= 1
                if depth == 0:
                    break
        base, idx = s[:i], s[i + 1:-1]
        if base:
            m = re.fullmatch(r"_(\d+)", idx)
            if m:
                return ("index", parse_place(base), int(m.group(1)))
            m = re.fullmatch(r"(-?)(\d+) of (\d+)", idx)
            if m:
                return ("cindex", parse_place(base), int(m.group(2)), int(m.group(3)), m.group(1) == "-")
            m = re.fullmatch(r"(\d+):(-?)(\d*)", idx) or re.fullmatch(r"(\d+)\.\.(-?)(\d*)", idx)
            if m:
                return ("subslice", parse_place(base), int(m.group(1)), m.group(3), m.group(2) == "-")
            raise ParseError("index form: " + s)
    if s.startswith("(") and match_paren(s, 0) == len(s) - 1:
        inner = s[1:-1].strip()
        if inner.startswith("*"):
            return ("deref", parse_place(inner[1:]))
        # (P as Variant)
        parts = _split_last_top(inner, " as ")
        if parts and re.fullmatch(r"[A-Za-z_][A-Za-z0-9_]*", parts[1].strip()):
            return ("downcast", parse_place(parts[0]), parts[1].strip())
        # (P.k: T)
        m = _field_split(inner)
        if m:
            return ("field", parse_place(m[0]), m[1], m[2])
        return parse_place(inner)
    raise ParseError("place: " + s)


def _skip_quote(s, j):
    """If s[j] starts a string/char literal return the index just after it, else j."""
    c = s[j]
    if c == '"':
        k = j + 1
        while k < len(s) and s[k] != '"':
            if s[k] == "\\":
                k += 1
            k += 1
        return k + 1
    if c == "'":
        m = re.match(r"'(\\.[^']*|[^'\\])'", s[j:])
        if m:
            return j + len(m.group(0))
    return j


def _split_last_top(s, sep):
    depth = 0
    last = -1
    j = 0
    while j < len(s):
        k = _skip_quote(s, j)
        if k != j:
            j = k
            continue
        c = s[j]
        if c in "([{":
            depth += 1
        elif c in ")]}":
            depth -= 1
        elif depth == 0 and s.startswith(sep, j):
            last = j
        j += 1
    if last < 0:
        return None
    return s[:last], s[last + len(sep):]


def _field_split(inner):
    """'P.k: T' where P is balanced."""
    # P ends either at a closing paren or is _n
    if inner.startswith("("):
        e = match_paren(inner, 0)
        rest = inner[e + 1:]
        base = inner[:e + 1]
    else:
        m = re.match(r"_\d+", inner)
        if not m:
            return None
        base, rest = m.group(0), inner[m.end():]
    m = re.match(r"\.(\d+): (.*)$", rest, re.S)
    if not m:
        return None
    return base, int(m.group(1)), m.group(2).strip()


def parse_operand(s):
    s = s.strip()
    if s.startswith("no_retag "):
        s = s[len("no_retag "):]
    if s.startswith("copy "):
        return ("copy", parse_place(s[5:]))
    if s.startswith("move "):
        return ("move", parse_place(s[5:]))
    if s.startswith("const "):
        return ("const", s[6:].strip())
    if re.match(r"^[<A-Za-z_]", s) and not s.startswith(("copy", "move")):
        return ("const", s)      # bare function item used as a value
    raise ParseError("operand: " + s)


BINOPS = {"Add", "Sub", "Mul", "Div", "Rem", "BitAnd", "BitOr", "BitXor", "Shl", "Shr", "Eq", "Ne",
          "Lt", "Le", "Gt", "Ge", "Cmp", "Offset", "AddWithOverflow", "SubWithOverflow",
          "MulWithOverflow", "AddUnchecked", "SubUnchecked", "MulUnchecked", "ShlUnchecked",
          "ShrUnchecked"}
UNOPS = {"Not", "Neg", "PtrMetadata"}


def parse_rvalue(s):
    s = s.strip()
    if s.startswith("no_retag "):
        s = s[len("no_retag "):]
    for pre, kind in (("&raw const ", "addr"), ("&raw mut ", "addr"), ("&mut ", "refmut"),
                      ("&fake shallow ", "ref"), ("&fake ", "ref"), ("&", "ref")):
        if s.startswith(pre):
            return (kind, parse_place(s[len(pre):]))
    m = re.match(r"([A-Za-z]+)\(", s)
    if m and match_paren(s, m.end() - 1) == len(s) - 1:
        name = m.group(1)
        inner = s[m.end():-1]
        if name in BINOPS:
            a, b = split_top(inner)
            return ("binop", name, parse_operand(a), parse_operand(b))
        if name in UNOPS:
            return ("unop", name, parse_operand(inner))
        if name == "discriminant":
            return ("discr", parse_place(inner))
        if name in ("Len",):
            return ("len", parse_place(inner))
        if name == "CopyForDeref":
            return ("use", ("copy", parse_place(inner)))
        if name in ("ShallowInitBox", "SizeOf", "AlignOf", "OffsetOf", "UbChecks", "ContractChecks"):
            return ("raw", s)
    # cast: OPERAND as TYPE (Kind)
    m = re.match(r"^(copy|move|const) ", s)
    if m:
        cm = re.search(r" \(([A-Za-z]+(?:\([^()]*\))*(?:, [A-Za-z]+)?)\)$", s)
        parts = _split_last_top(s[:cm.start()], " as ") if cm else None
        if cm and parts:
            try:
                return ("cast", parse_operand(parts[0]), parts[1].strip(), cm.group(1))
            except ParseError:
                pass
        return ("use", parse_operand(s))
    # aggregates
    if s.startswith("(") and match_paren(s, 0) == len(s) - 1:
        items = split_top(s[1:-1])
        if len(items) and items[-1] == "":
            items = items[:-1]
        return ("agg", "tuple", None, [parse_operand(x) for x in items], None)
    if s == "()":
        return ("agg", "tuple", None, [], None)
    if s.startswith("["):
        e = match_paren(s, 0)
        if e == len(s) - 1:
            inner = s[1:-1]
            rep = split_top(inner, ";")
            if len(rep) == 2:
                return ("repeat", parse_operand(rep[0]), rep[1].strip())
            items = [x for x in split_top(inner) if x != ""]
            return ("agg", "array", None, [parse_operand(x) for x in items], None)
    # Path { f: v, .. } | Path(args) | Path
    m = re.match(r"^(\{closure@[^}]*\}|\{coroutine@[^}]*\})(.*)$", s, re.S)
    if m:
        rest = m.group(2).strip()
        fields, names = [], None
        if rest.startswith("{"):
            names, fields = _parse_named_fields(rest)
        return ("agg", "closure", m.group(1), fields, names)
    i = _path_end(s)
    path, rest = s[:i].strip(), s[i:].strip()
    if not path:
        return ("raw", s)
    if rest == "":
        return ("agg", "adt", path, [], None)
    if rest.startswith("(") and match_paren(rest, 0) == len(rest) - 1:
        items = [x for x in split_top(rest[1:-1]) if x != ""]
        return ("agg", "adt", path, [parse_operand(x) for x in items], None)
    if rest.startswith("{") and match_paren(rest, 0) == len(rest) - 1:
        names, fields = _parse_named_fields(rest)
        return ("agg", "adt", path, fields, names)
    return ("raw", s)


def _parse_named_fields(rest):
    inner = rest[1:-1].strip()
    names, fields = [], []
    for it in split_top(inner):
        if not it:
            continue
        k, _, v = it.partition(": ")
        names.append(k.strip())
        fields.append(parse_operand(v))
    return names, fields


def _path_end(s):
    """Index where a type/variant path (with generic args) ends."""
    i, n = 0, len(s)
    while i < n:
        c = s[i]
        if c == "<":
            i = match_paren(s, i) + 1
            continue
        if c.isalnum() or c in "_:&'" :
            i += 1
            continue
        if c == " " and s[i:i + 4] == " as ":
            i += 4
            continue
        break
    return i


# ------------------------------------------------------------------------------------------------


class Block:
    __slots__ = ("n", "stmts", "term", "cleanup")

    def __init__(self, n, cleanup):
        self.n, self.cleanup, self.stmts, self.term = n, cleanup, [], None


class MirFn:
    def __init__(self, name, header):
        self.name = name
        self.header = header
        self.args = []          # [(n, ty)]
        self.ret = None
        self.locals = {}        # n -> ty
        self.blocks = {}
        self.debug = {}         # var name -> place text
        self.impl_at = None     # (file, line) of the impl block, if any
        self.text_lines = 0

    def succs(self, b):
        t = self.blocks[b].term
        k = t[0]
        if k == "goto":
            return [t[1]]
        if k == "switch":
            return [x for _, x in t[2]] + ([t[3]] if t[3] is not None else [])
        if k in ("call", "drop", "assert"):
            return [t[-1]] if t[-1] is not None else []
        return []


def parse_stmt(line):
    s = line.strip().rstrip(";")
    if s.startswith(("StorageLive", "StorageDead", "nop", "FakeRead", "AscribeUserType", "Retag",
                     "PlaceMention", "Coverage", "ConstEvalCounter", "BackwardIncompatibleDropHint")):
        return ("nop",)
    m = re.match(r"^discriminant\((.*)\) = (\d+)$", s)
    if m:
        return ("setdiscr", parse_place(m.group(1)), int(m.group(2)))
    if s.startswith("Deinit("):
        return ("nop",)
    if s.startswith(("assume(", "copy_nonoverlapping(")):
        return ("nop",)
    parts = _split_first_top(s, " = ")
    if not parts:
        return ("raw", s)
    try:
        return ("assign", parse_place(parts[0]), parse_rvalue(parts[1]))
    except ParseError as e:
        return ("raw", s, str(e))


def _split_first_top(s, sep):
    depth = 0
    j = 0
    while j < len(s):
        c = s[j]
        if c == '"':
            j += 1
            while j < len(s) and s[j] != '"':
                if s[j] == "\\":
                    j += 1
                j += 1
        elif c in "([{":
            depth += 1
        elif c in ")]}":
            depth -= 1
        elif depth == 0 and s.startswith(sep, j):
            return s[:j], s[j + len(sep):]
        j += 1
    return None


def _targets(s):
    """'[return: bb1, unwind continue]' or 'unwind continue' -> (ret_bb or None)"""
    m = re.search(r"(?:return|success): bb(\d+)", s)
    return int(m.group(1)) if m else None


def parse_term(line):
    s = line.strip().rstrip(";")
    if s.startswith("goto -> "):
        return ("goto", int(s[len("goto -> bb"):]))
    if s in ("return", "unreachable", "resume", "abort") or s.startswith(("terminate", "unwind ")):
        return (s.split("(")[0].split(" ")[0],)
    if s.startswith("switchInt("):
        e = match_paren(s, len("switchInt"))
        op = parse_operand(s[len("switchInt("):e])
        tg = s[e + 1:].strip()
        assert tg.startswith("-> ["), s
        arms, other = [], None
        for it in split_top(tg[4:-1]):
            k, _, v = it.partition(": ")
            bb = int(v.strip()[2:])
            if k.strip() == "otherwise":
                other = bb
            else:
                arms.append((int(k.strip()), bb))
        return ("switch", op, arms, other)
    if s.startswith("drop("):
        e = match_paren(s, 4)
        return ("drop", parse_place(s[5:e]), _targets(s[e + 1:]))
    if s.startswith("assert("):
        e = match_paren(s, 6)
        inner = split_top(s[7:e])
        cond = inner[0].strip()
        neg = cond.startswith("!")
        if neg:
            cond = cond[1:]
        return ("assert", parse_operand(cond), not neg, inner[1] if len(inner) > 1 else "",
                [x for x in inner[2:]], _targets(s[e + 1:]))
    if s.startswith(("falseEdge", "falseUnwind")):
        m = re.search(r"bb(\d+)", s)
        return ("goto", int(m.group(1)))
    # call: [PLACE = ] CALLEE(ARGS) -> ...
    arrow = _split_last_top(s, " -> ")
    if arrow is None:
        return ("raw", s)
    callpart, tg = arrow
    dest = None
    parts = _split_first_top(callpart, " = ")
    if parts and re.match(r"^[(_*]", parts[0].strip()):
        try:
            dest = parse_place(parts[0])
            callpart = parts[1]
        except ParseError:
            dest = None
    callpart = callpart.strip()
    if not callpart.endswith(")"):
        return ("raw", s)
    # find the opening paren matching the final ')'
    depth = 0
    i = len(callpart) - 1
    # scan backwards, quote-unaware but MIR string consts in args are rare; fall back to forward scan
    idx = _find_call_paren(callpart)
    if idx is None:
        return ("raw", s)
    callee = callpart[:idx].strip()
    try:
        args = [parse_operand(x) for x in split_top(callpart[idx + 1:-1]) if x != ""]
    except ParseError as e:
        return ("raw", s, str(e))
    return ("call", dest, callee, args, _targets(tg))


def _find_call_paren(cp):
    """Index of the '(' that opens the argument list (the last top-level '(' whose match is the end)."""
    i, n = 0, len(cp)
    cand = None
    while i < n:
        c = cp[i]
        if c == "(":
            e = match_paren(cp, i)
            if e == n - 1:
                return i
            i = e + 1
            continue
        if c == "<":
            try:
                i = match_paren(cp, i) + 1
                continue
            except ParseError:
                pass
        if c == "{":
            i = match_paren(cp, i) + 1
            continue
        i += 1
    return cand


_HDR = re.compile(r"^fn (.*)$")


class MirFile:
    def __init__(self, path):
        self.path = path
        self.fns = {}
        self.promoted = {}
        self.order = []
        self._parse(open(path, encoding="utf-8", errors="replace").read().split("\n"))

    def _parse(self, lines):
        i, n = 0, len(lines)
        while i < n:
            l = lines[i]
            if l.startswith("fn ") or (l.startswith("const ") and l.rstrip().endswith("{")) or \
                    (l.startswith("static ") and l.rstrip().endswith("{")):
                j = i + 1
                while j < n and lines[j] != "}":
                    j += 1
                self._parse_item(lines[i:j + 1])
                i = j + 1
            else:
                i += 1

    def _parse_item(self, ls):
        hdr = ls[0]
        if hdr.startswith("fn "):
            body = hdr[3:]
            # name ends at the '(' that starts the parameter list: first top-level '(' followed by
            # '_1: ' or ')'
            k = self._param_paren(body)
            name = body[:k]
            e = match_paren(body, k)
            params = body[k + 1:e]
            rest = body[e + 1:].strip()
            fn = MirFn(name, hdr)
            m = re.match(r"^-> (.*) \{$", rest)
            fn.ret = m.group(1) if m else "()"
            for p in split_top(params):
                if not p:
                    continue
                pm = re.match(r"^(?:mut )?_(\d+): (.*)$", p, re.S)
                if pm:
                    fn.args.append((int(pm.group(1)), pm.group(2)))
                    fn.locals[int(pm.group(1))] = pm.group(2)
        else:
            m = re.match(r"^(?:const|static(?: mut)?) (.*) = \{$", hdr)
            if not m:
                return
            body = m.group(1)
            i = 0
            while i < len(body):
                if body[i] in "<{":
                    i = match_paren(body, i) + 1
                    continue
                if body.startswith(": ", i):
                    break
                i += 1
            fn = MirFn(body[:i], hdr)
            fn.ret = body[i + 2:]
        m = re.search(r"<impl at ([^:>]+):(\d+):\d+: \d+:\d+>", fn.name)
        if m:
            fn.impl_at = (m.group(1), int(m.group(2)))
        fn.text_lines = len(ls)
        cur = None
        for l in ls[1:]:
            if cur is None:
                m = re.match(r"^\s+let (?:mut )?_(\d+): (.*);$", l)
                if m:
                    fn.locals[int(m.group(1))] = m.group(2)
                    continue
                m = re.match(r"^\s+debug (\S+) => (.*);$", l)
                if m:
                    fn.debug.setdefault(m.group(1), m.group(2))
                    continue
                m = re.match(r"^    bb(\d+)( \(cleanup\))?: \{$", l)
                if m:
                    cur = Block(int(m.group(1)), bool(m.group(2)))
                    fn.blocks[cur.n] = cur
                continue
            if l == "    }":
                if cur.stmts:
                    last = cur.stmts.pop()
                    cur.term = parse_term(last)
                cur.stmts = [parse_stmt(x) for x in cur.stmts]
                cur = None
                continue
            if l.startswith("        "):
                cur.stmts.append(l)
        if fn.name in self.fns:
            # monomorphic duplicates do not occur in unpretty=mir; keep first
            return
        self.fns[fn.name] = fn
        self.order.append(fn.name)

    @staticmethod
    def _param_paren(body):
        i, n = 0, len(body)
        while i < n:
            c = body[i]
            if c == "<":
                i = match_paren(body, i) + 1
                continue
            if c == "{":
                i = match_paren(body, i) + 1
                continue
            if c == "(":
                return i
            i += 1
        raise ParseError("no parameter list: " + body[:100])

    # --------------------------------------------------------------------------------------------
    def find(self, file=None, impl=None, name=None, closure=None, repo="/repo"):
        """Locate a function by source file (suffix), impl header substring (matched against the
        *current source line* the MIR item points to) and method name (with optional closure
        suffix like '{closure#0}')."""
        res = []
        for fname, fn in self.fns.items():
            base = fname
            segs = _split_path(base)
            # closures
            tail = []
            while segs and segs[-1].startswith("{closure#"):
                tail.insert(0, segs.pop())
            if (closure or []) != tail and not (closure is None and not tail):
                continue
            if not segs or segs[-1] != name:
                continue
            if impl is not None:
                if fn.impl_at is None:
                    continue
                f, line = fn.impl_at
                if file and not f.endswith(file):
                    continue
                try:
                    src = open(f, encoding="utf-8").read().split("\n")
                    hdr = src[line - 1]
                    k = line
                    while "{" not in hdr and k < len(src):
                        hdr += " " + src[k].strip()
                        k += 1
                except OSError:
                    continue
                if impl not in hdr:
                    continue
            else:
                if fn.impl_at is not None:
                    continue
                if file:
                    modpath = file[:-3].replace("src/", "").replace("/mod", "").replace("/", "::")
                    # free fns are printed with a (possibly shortened) module path; check by
                    # looking the definition up in the file instead
                    try:
                        txt = open(os.path.join(repo, file), encoding="utf-8").read()
                    except OSError:
                        continue
                    if not re.search(r"\bfn\s+" + re.escape(name) + r"\b", txt):
                        continue
                    pre = "::".join(segs[:-1])
                    if pre and not modpath.endswith(pre) and not pre.endswith(modpath.split("::")[-1]):
                        # path printed does not fit this file
                        if pre.split("::")[-1] not in modpath:
                            continue
            res.append(fn)
        return res


def _split_path(s):
    out, cur, i, n = [], [], 0, len(s)
    while i < n:
        c = s[i]
        if c in "<{":
            e = match_paren(s, i)
            cur.append(s[i:e + 1])
            i = e + 1
            continue
        if s.startswith("::", i):
            out.append("".join(cur))
            cur = []
            i += 2
            continue
        cur.append(c)
        i += 1
    out.append("".join(cur))
    return out
