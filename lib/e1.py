"""E1 integration: run Kani harnesses of /verif/kani as obligations of a property run."""
import fcntl
import os
import re
import time

import common
import kani_runner

KANI_DIR = os.path.join(common.CACHE, "kani-td")

# representative subsets for the quick tier (every arm shape: single char, two-way, three-way look-ahead, layout)
QUICK_A = ["step2_colon", "step2_lt", "step2_minus", "step2_dot", "step2_bang", "step2_comma", "step2_nl", "step2_space"]
QUICK_B = ["step2_gt", "step2_slash", "step2_eq", "step2_plus", "step2_caret", "step2_cr", "step2_lbrace", "step2_question"]


def _lock():
    os.makedirs(common.CACHE, exist_ok=True)
    fh = open(os.path.join(common.CACHE, "kani.lock"), "w")
    fcntl.flock(fh, fcntl.LOCK_EX)
    return fh


def playback_values(text):
    """Concrete-playback unit test text -> list of byte lists (one per kani::any())."""
    out = []
    for m in re.finditer(r"vec!\[([0-9, ]*)\]", text):
        body = m.group(1).strip()
        if body == "" and "vec![" in m.group(0):
            out.append([])
        else:
            try:
                out.append([int(x) for x in body.split(",") if x.strip()])
            except ValueError:
                pass
    return out


def run(run_, names, desc_of, replay_of=None, jobs=None, timeout_s=1500, only_panics=False, prefix="kani"):
    """One obligation per harness. desc_of(name) -> description; replay_of(name, failed_checks, values) ->
    {'reproduced': bool, 'role': str, 'detail': str} (values = concrete playback byte lists or None)."""
    jobs = jobs or max(1, min(14, (os.cpu_count() or 8) - 2))
    os.environ["VERIF_KANI_DIR"] = KANI_DIR
    lock = _lock()
    t0 = time.time()
    try:
        res = kani_runner.run_harnesses(names, jobs=jobs, timeout_s=timeout_s, mem_gb=12)
        for name in names:
            r = res.get(name, {"status": "error", "failed_checks": ["no result"], "unsatisfied_covers": [], "wall_s": 0})
            ob = run_.ob(f"{prefix}-{name}", "E1", desc_of(name), [f"/verif/kani harnesses::{name}"])
            ob.solver_s = r.get("wall_s", 0.0)
            ob.queries = 1
            ob.reach = "sat" if not r.get("unsatisfied_covers") else "unsat-cover"
            failed = r.get("failed_checks", [])
            if only_panics:
                # panic freedom only: assertion labels of the harness itself ("step: ...", "token: ...") are not ours
                failed = [f for f in failed if not re.match(r"^\s*(step|token|space|flush|order|table|state)[^:]*:", f.split("Description:")[-1].strip().strip('"'))]
            if r["status"] == "success" or (r["status"] == "failure" and only_panics and not failed):
                if r.get("unsatisfied_covers"):
                    ob.inconclusive(f"vacuity: unsatisfied cover(s) {r['unsatisfied_covers'][:3]}")
                else:
                    ob.discharged(f"VERIFICATION SUCCESSFUL in {r['wall_s']}s, peak {r.get('peak_rss_mb', '?')} MB", 0, 0)
                continue
            if r["status"] != "failure":
                ob.inconclusive(f"kani status {r['status']}: {failed[:2]} (log {r.get('log')})")
                continue
            values = None
            try:
                values = playback_values(kani_runner.concrete_playback(name, timeout_s=timeout_s))
            except Exception as e:   # pragma: no cover
                values = None
            rep = replay_of(name, failed, values) if replay_of else None
            if rep and rep.get("reproduced"):
                ob.violated(rep.get("role", name), {"failed_checks": failed[:5], "playback": values}, rep, rep.get("detail", ""))
            else:
                ob.inconclusive(f"kani reports {failed[:3]} but native replay did not reproduce: {(rep or {}).get('detail', 'no replay')}")
    finally:
        lock.close()
    run_.extra.setdefault("kani", []).append({"harnesses": len(names), "jobs": jobs, "wall_s": round(time.time() - t0, 1)})
    run_.paths += len(names)
    run_.transitions += len(names)
