"""Printer kernel (E2): the arms of generate::ast::to_py executed from MIR with a text model.

`format!` is decoded from the compiler's own template constant (the byte string handed to fmt::Arguments::new in the MIR) and
its Display arguments, so that an arm returns a *template*: a sequence of literal pieces, indentation pieces `indent(ind + k)`
with the indentation level symbolic, and slots that are the recursive renderings of named children
(to_py / operand / newline_if_body / comma_delimited / newline_delimited of a field at `ind + k`).
"""
import ast as pyast
import re
import z3

import common
import e2
import mirsym
from mirsym import Exec, State, Opq, Agg, Ref, StrC, Seq, Val, Unsupported, Fork

AST_MOD_RS = "src/generate/ast/mod.rs"
NODE_RS = "src/generate/ast/node.rs"
MAXIND = 1 << 20


class Txt:
    """Text value: pieces ('lit', str) | ('rep', str, count term) | ('val', mirsym value)."""
    __slots__ = ("pieces",)

    def __init__(self, pieces=()):
        self.pieces = tuple(pieces)

    def __repr__(self):
        return "Txt" + repr(list(self.pieces))[:200]

    def as_val(self, ex, st):
        """Text as an uninterpreted term: concatenation of its pieces (equal piece lists give equal terms)."""
        parts = []
        for pc in self.pieces:
            if pc[0] == "lit":
                parts.append(ex.to_val(st, StrC(pc[1])))
            elif pc[0] == "rep":
                parts.append(ex.uf("txt:rep:" + pc[1], z3.BitVecSort(64), Val)(pc[2]) if z3.is_bv(pc[2]) else ex.uf("txt:rep:" + pc[1], Val, Val)(ex.to_val(st, pc[2])))
            else:
                parts.append(ex.to_val(st, pc[1]))
        t = z3.Const("txt:empty", Val)
        for q in parts:
            t = ex.uf("txt:cat", Val, Val, Val)(t, q)
        return t


def as_pieces(ex, st, v):
    v = mirsym._deref_val(ex, st, v)
    if isinstance(v, Txt):
        return list(v.pieces)
    if isinstance(v, StrC):
        return [("lit", v.s)] if v.s else []
    return [("val", v)]


def decode_template(lit):
    """MIR byte-string literal of fmt::Arguments::new -> ['text' | None (placeholder)]."""
    if not (lit.startswith('b"') or lit.startswith("b'")):
        raise Unsupported(f"format template is not a byte string: {lit[:40]}")
    try:
        bs = pyast.literal_eval(lit)
    except Exception as e:      # pragma: no cover
        raise Unsupported(f"format template {lit[:40]}: {e}")
    out, i = [], 0
    while i < len(bs):
        b = bs[i]
        if b == 0:
            break
        if b == 0xC0:
            out.append(None)
            i += 1
        elif b < 0x80:
            out.append(bs[i + 1:i + 1 + b].decode("utf-8"))
            i += 1 + b
        else:
            raise Unsupported(f"format template opcode 0x{b:02x} (formatting options) is not modelled")
    return out


def m_new_display(ex, st, fr, callee, args, argtys, dty):
    return Agg("fmtarg", None, [mirsym._deref_val(ex, st, args[0])])


def m_arguments_new(ex, st, fr, callee, args, argtys, dty):
    tpl = mirsym._deref_val(ex, st, args[0])
    arr = mirsym._deref_val(ex, st, args[1]) if len(args) > 1 else Agg("array", None, [])
    if not isinstance(tpl, StrC):
        return NotImplemented
    items = list(arr.fields) if isinstance(arr, Agg) else None
    if items is None:
        return NotImplemented
    return Agg("fmtargs", None, [tpl] + items)


def m_arguments_str(ex, st, fr, callee, args, argtys, dty):
    # Arguments::from_str / new_const: a template without placeholders
    tpl = mirsym._deref_val(ex, st, args[0])
    if isinstance(tpl, StrC):
        return Agg("fmtargs", None, [StrC('b' + repr(bytes([len(tpl.s.encode())]) + tpl.s.encode() + b"\x00")[1:])]) if False else Agg("fmtstr", None, [tpl])
    return NotImplemented


def render_args(ex, st, fa):
    if isinstance(fa, Agg) and fa.ty == "fmtstr":
        return Txt(as_pieces(ex, st, fa.fields[0]))
    if not (isinstance(fa, Agg) and fa.ty == "fmtargs"):
        return None
    tpl = decode_template(fa.fields[0].s)
    vals = list(fa.fields[1:])
    pieces, k = [], 0
    for t in tpl:
        if t is None:
            if k >= len(vals):
                raise Unsupported("format template has more placeholders than arguments")
            a = vals[k]
            k += 1
            inner = a.fields[0] if isinstance(a, Agg) and a.ty == "fmtarg" else a
            pieces += as_pieces(ex, st, inner)
        else:
            pieces.append(("lit", t))
    return Txt(pieces)


def m_format(ex, st, fr, callee, args, argtys, dty):
    t = render_args(ex, st, mirsym._deref_val(ex, st, args[0]))
    return t if t is not None else NotImplemented


def m_string_new(ex, st, fr, callee, args, argtys, dty):
    return StrC("")


def m_repeat(ex, st, fr, callee, args, argtys, dty):
    s = mirsym._deref_val(ex, st, args[0])
    if isinstance(s, StrC) and z3.is_bv(args[1]):
        return Txt([("rep", s.s, args[1])])
    return NotImplemented


def m_write_fmt(ex, st, fr, callee, args, argtys, dty):
    """<String as fmt::Write>::write_fmt(&mut s, args): append."""
    if not isinstance(args[0], Ref):
        return NotImplemented
    cur = ex.read_ref(st, args[0])
    t = render_args(ex, st, mirsym._deref_val(ex, st, args[1]))
    if t is None:
        return NotImplemented
    ex.write_ref(st, args[0], Txt(as_pieces(ex, st, cur) + list(t.pieces)))
    return Agg("Result", "Ok", [Agg("tuple", None, [])])


MODELS = [
    (r"Argument::<'_>::new_display::<|Argument::new_display", m_new_display),
    (r"^(std|core)::fmt::Arguments::<'_>::new::<|^Arguments::new", m_arguments_new),
    (r"^(std|core)::fmt::Arguments::<'_>::(from_str|new_const)", m_arguments_str),
    (r"^(std|alloc)::fmt::format$", m_format),
    (r"^std::string::String::new$", m_string_new),
    (r"str::<impl str>::repeat$", m_repeat),
    (r"<std::string::String as (std::fmt::)?Write>::write_fmt$", m_write_fmt),
]


def executor(mir, inline=()):
    return Exec(mir, max_paths=20000, models=MODELS, inline=[r"generate::ast::indent$", r"^indent$"] + list(inline))


# --------------------------------------------------------------------------------------------------
# canonical pieces

def describe(ex, st, pieces, ind, fields):
    """pieces -> canonical list: ('lit', text) | ('indent', k) [= 4*(ind+k) spaces] | ('slot', fn, field-path, k [, side]) | ('?', text).
    Integer offsets k are decided by z3 (the count / level argument must equal 4*(ind+k) resp. ind+k for every ind)."""
    out = []

    def offset_of(term, scale):
        for k in (0, 1, 2, -1):
            want = (ind + z3.BitVecVal(k % (1 << 64), 64)) * z3.BitVecVal(scale, 64)
            s = z3.Solver()
            s.add(z3.ULE(ind, MAXIND), z3.UGE(ind, 1 if k < 0 else 0), term != want)
            if s.check() == z3.unsat:
                return k
        return None

    for p in pieces:
        if p[0] == "lit":
            if out and out[-1][0] == "lit":
                out[-1] = ("lit", out[-1][1] + p[1])
            else:
                out.append(("lit", p[1]))
        elif p[0] == "rep":
            k = offset_of(p[2], 4) if p[1] == " " else None
            out.append(("indent", k) if k is not None else ("?", f"repeat({p[1]!r}, {z3.simplify(p[2])})"))
        else:
            v = p[1]
            try:
                t = z3.simplify(ex.to_val(st, v))
            except Unsupported as e:
                out.append(("?", str(e)))
                continue
            m = re.match(r"^call:(?:.*::)?(\w+)/\d+$", t.decl().name()) if z3.is_app(t) else None
            if m and m.group(1) in ("to_py", "operand", "newline_if_body", "comma_delimited", "newline_delimited", "custom_delimited"):
                fn = m.group(1)
                ch = t.children()
                fld = field_path(ch[0], fields)
                lvl_term = None
                for c in ch[1:]:
                    if z3.is_app(c) and c.decl().name().startswith("inj:BitVec(64)"):
                        lvl_term = c.children()[0]
                k = offset_of(lvl_term, 1) if lvl_term is not None else None
                extra = ()
                if fn == "operand":
                    side = [c for c in ch if z3.is_app(c) and c.decl().name().startswith("inj:Bool")]
                    extra = (str(z3.simplify(side[0].children()[0])) if side else "?",)
                out.append(("slot", fn, fld, k) + extra)
            else:
                fld = field_path(t, fields)
                out.append(("field", fld) if fld else ("?", str(t)[:80]))
    return out


def field_path(term, fields):
    """'name' or 'name.Some' ... for a term that is (a projection of) one of the node's fields."""
    s = str(term).replace("\n", " ")
    for f, tname in fields.items():
        if re.search(r"(?<![\w.])%s(?![\w.])" % re.escape(tname), s):
            if "as:Some" in s:
                return f + ".Some"
            return f
    return None


def run_arm(run, mir, kind, with_fields=None):
    """-> [(path, canonical template)] for to_py on a Core value of variant `kind` with opaque children."""
    fn = e2.find1(mir, file=AST_MOD_RS, name="to_py")
    lay = e2.rust_enum(NODE_RS, "Core")
    if kind not in lay:
        raise Unsupported(f"Core::{kind} not found")
    ex = executor(mir)
    st = State()
    types = {}
    import convkern
    ftypes = convkern.enum_types(NODE_RS, "Core").get(kind) or {}
    vals, names = {}, {}
    for f in (lay[kind] or []):
        names[f] = f"{kind}.{f}"
        ty = ftypes.get(f, "?")
        if with_fields and f in with_fields:
            vals[f] = with_fields[f]
        elif ty == "bool":
            vals[f] = z3.Bool(names[f])
        else:
            vals[f] = Opq(z3.Const(names[f], Val), ty)
    core = e2.mk_variant(NODE_RS, "Core", kind, vals) if lay[kind] else Agg("Core", kind, [])
    ind = z3.BitVec("ind", 64)
    ends = e2.run_kernel(run, ex, fn, [Ref(ex.new_cell(st, core)), ind], st, [z3.ULE(ind, MAXIND)])
    out = []
    for p in ends:
        if p.kind == "panic":
            out.append((p, None))
            continue
        if p.kind != "return":
            raise Unsupported(f"to_py({kind}): unexpected path end {p}")
        pieces = as_pieces(ex, p.state, p.ret)
        out.append((p, describe(ex, p.state, pieces, ind, names)))
    return ex, ind, vals, out


# --------------------------------------------------------------------------------------------------
# printer model: templates of every arm + helper kernels, rendered on concrete trees

def flags_of(cond, kind):
    """Path condition -> {('discr', field): (n, polarity) | ('empty', field): bool | ('bool', field): bool}; None if an atom about the
    node's fields is not understood."""
    out = {}
    for a in cond:
        a = z3.simplify(a)
        s = str(a).replace("\n", " ")
        if f"{kind}." not in s:
            continue
        pol = True
        if z3.is_not(a):
            pol = False
            a = a.arg(0)
            s = str(a).replace("\n", " ")
        m = re.match(r"^discr\(%s\.(\w+)\) == (\d+)$" % re.escape(kind), s)
        if m:
            out.setdefault(("discr", m.group(1)), []).append((int(m.group(2)), pol))
            continue
        m = re.match(r"^seq:len\((.*)\) == 0$", s)
        if m:
            flds = set(re.findall(r"%s\.(\w+)" % re.escape(kind), m.group(1)))
            if len(flds) == 1:
                out[("empty", flds.pop())] = pol
                continue
        m = re.match(r"^%s\.(\w+)$" % re.escape(kind), s)
        if m:
            out[("bool", m.group(1))] = pol
            continue
        return None
    return out


class PrinterModel:
    def __init__(self, run, mir, kinds):
        import convkern
        self.kinds_enum = None
        self.arms = {}
        self.ftypes = convkern.enum_types(NODE_RS, "Core")
        self.unknown = {}
        self.paths = 0
        for kind in kinds:
            ex, ind, vals, out = run_arm(run, mir, kind)
            if self.kinds_enum is None:
                self.kinds_enum = ex.enum_variants("Core")
            arms = []
            for p, tpl in out:
                if tpl is None:
                    continue        # panic path (arithmetic on the indentation level at its bounds)
                fl = flags_of(p.cond, kind)
                if fl is None or any(x[0] == "?" for x in tpl):
                    self.unknown[kind] = [x for x in tpl if x[0] == "?"][:2] or "condition"
                    continue
                arms.append((fl, tpl))
                self.paths += 1
            self.arms[kind] = arms
        # helpers
        fn = e2.find1(mir, file=AST_MOD_RS, name="newline_if_body")
        ex = executor(mir)
        st = State()
        core = Opq(z3.Const("core", Val), "Core")
        ind = z3.BitVec("ind", 64)
        ends = e2.run_kernel(run, ex, fn, [Ref(ex.new_cell(st, core)), ind], st, [z3.ULE(ind, MAXIND)])
        self.nib = []
        blk = self.kinds_enum.index("Block")
        for p in ends:
            if p.kind != "return":
                continue
            tpl = describe(ex, p.state, as_pieces(ex, p.state, p.ret), ind, {"core": "core"})
            is_block = any(re.match(r"^discr\(core\) == %d$" % blk, str(z3.simplify(c)).replace("\n", " ")) for c in p.cond)
            self.nib.append((is_block, tpl))
        # a Block may come in two forms: with statements (rendered through to_py) and, since the repair of comment-only bodies, without
        # (a fixed text): the form without slot is the one for the empty block
        blocks = [t for b, t in self.nib if b]
        if len([1 for b, _t in self.nib if not b]) != 1 or not 1 <= len(blocks) <= 2 or any(x[0] == "?" for _b, t in self.nib for x in t) or \
                len([t for t in blocks if any(x[0] == "slot" for x in t)]) != 1:
            raise Unsupported(f"newline_if_body: {self.nib}")
        # newline_delimited: its closure appends one line per item
        cl = [f for n, f in mir.fns.items() if re.search(r"(^|::)newline_delimited::\{closure#\d+\}$", n) and len(f.args) == 2 and f.args[1][1].strip() == "&Core"]
        if len(cl) != 1:
            raise Unsupported(f"newline_delimited closures: {len(cl)}")
        ex = executor(mir)
        st = State()
        sref = Ref(ex.new_cell(st, StrC("")))
        indv = z3.BitVec("ind", 64)
        env = Ref(ex.new_cell(st, Agg("closure", cl[0].args[0][1].lstrip("&").replace("mut ", "").strip(), [sref, Ref(ex.new_cell(st, indv))])))
        item = Ref(ex.new_cell(st, Opq(z3.Const("item", Val), "Core")))
        ends = e2.run_kernel(run, ex, cl[0], [env, item], st, [z3.ULE(indv, MAXIND)])
        rets = [p for p in ends if p.kind == "return"]
        if len(rets) != 1:
            raise Unsupported(f"newline_delimited closure: {len(rets)} return paths")
        self.nld = describe(ex, rets[0].state, as_pieces(ex, rets[0].state, ex.read_ref(rets[0].state, sref)), indv, {"item": "item"})
        if any(x[0] == "?" for x in self.nld):
            raise Unsupported(f"newline_delimited closure template {self.nld}")

    # ---- evaluation on concrete trees: {'k': kind, field: tree | [trees] | None | str | bool}
    def _match(self, tree, fl):
        kind = tree["k"]
        for (what, f), v in fl.items():
            val = tree.get(f)
            if what == "discr":
                ty = (self.ftypes.get(kind) or {}).get(f, "")
                d = (0 if val is None else 1) if ty.startswith("Option") else self.kinds_enum.index(val["k"])
                for n, pol in v:
                    if (d == n) != pol:
                        return False
            elif what == "empty":
                if (len(val) == 0) != v:
                    return False
            elif what == "bool":
                if bool(val) != v:
                    return False
        return True

    def render(self, tree, ind):
        kind = tree["k"]
        arms = [t for fl, t in self.arms.get(kind, []) if self._match(tree, fl)]
        if len(arms) != 1:
            raise Unsupported(f"{len(arms)} printer paths match a Core::{kind} node")
        return self._fill(arms[0], tree, ind)

    def _child(self, tree, path):
        f = path.split(".")[0]
        return tree[f]

    def _fill(self, tpl, tree, ind, item=None):
        out = []
        for pc in tpl:
            if pc[0] == "lit":
                out.append(pc[1])
            elif pc[0] == "indent":
                out.append(" " * (4 * (ind + pc[1])))
            elif pc[0] == "field":
                out.append(str(tree[pc[1]]))
            elif pc[0] == "slot":
                fn, path, k = pc[1], pc[2], pc[3]
                ch = item if path in ("item", "core") else self._child(tree, path)
                if fn in ("to_py", "operand"):
                    out.append(self.render(ch, ind + k))
                elif fn == "newline_if_body":
                    is_blk = ch["k"] == "Block"
                    cands = [t for b, t in self.nib if b == is_blk]
                    if is_blk and len(cands) == 2:
                        empty = not any(isinstance(v, list) and v for v in ch.values())
                        cands = [t for t in cands if any(x[0] == "slot" for x in t) != empty]
                    out.append(self._fill(cands[0], None, ind + k, item=ch))
                elif fn == "comma_delimited":
                    out.append(", ".join(self.render(c, ind + k) for c in ch))
                elif fn == "newline_delimited":
                    for c in ch:
                        if isinstance(c, str):          # FunDef decorators: strings turned into `@name` identifiers
                            c = {"k": "Id", "lit": "@" + c}
                        out.append(self._fill(self.nld, None, ind + k, item=c))
                else:
                    raise Unsupported(f"slot {fn}")
            else:
                raise Unsupported(f"piece {pc}")
        return "".join(out)


def to_sexpr(t):
    """Concrete tree -> s-expression understood by the replay server's `core` command."""
    if t is None:
        return "(Nil)"
    if isinstance(t, list):
        return "(Seq " + " ".join(to_sexpr(x) for x in t) + ")"
    k = t["k"]
    S = to_sexpr
    if k in ("Id", "Int", "Str", "DocStr"):
        return f"({k} {t[{'Id': 'lit', 'Int': 'int', 'Str': 'string', 'DocStr': 'string'}[k]]})"
    if k in ("Pass", "Break", "Continue", "None", "UnderScore"):
        return f"({k})"
    order = {"Block": ["statements"], "If": ["cond", "then"], "IfElse": ["cond", "then", "el"], "While": ["cond", "body"],
             "For": ["expr", "col", "body"], "Raise": ["error"], "Return": ["expr"], "With": ["resource", "expr"],
             "WithAs": ["resource", "alias", "expr"], "Match": ["expr", "cases"], "Case": ["expr", "body"],
             "ExceptId": ["id", "class", "body"], "Except": ["class", "body"], "TryExcept": ["setup", "attempt", "except"],
             "VarDef": ["var", "ty", "expr"], "ClassDef": ["name", "parent_names", "body"], "Import": ["from", "import", "alias"],
             "Add": ["left", "right"], "Eq": ["left", "right"]}
    if k == "FunArg":
        return f"(FunArg {'true' if t['vararg'] else 'false'} {S(t['var'])} {S(t['ty'])} {S(t['default'])})"
    if k == "FunDef":
        return f"(FunDef {t['id']} {' '.join(t['dec'])} {S(t['arg'])} {S(t['ty'])} {S(t['body'])})"
    if k == "Assign":
        return f"(Assign {t['op']} {S(t['left'])} {S(t['right'])})"
    if k in order:
        return f"({k} " + " ".join(S(t[f]) for f in order[k]) + ")"
    raise Unsupported(f"no s-expression for Core::{k}")
