#!/bin/bash
# Regression of the checks against the seeded changes in /verif/seeded/<id>/patch.diff.
# For every seed: apply it to /repo's working tree, run the checks named in its meta.json (quick tier), expect a VIOLATION
# line, and undo the patch straight afterwards.  Refuses to run when /repo has uncommitted changes.
# usage: tools/seedcheck.sh [seed-id ...]        (VERIF_NO_KANI=1 by default: the Kani families are not needed for any seed
#                                                 except where meta.json says so)
cd "$(dirname "$0")/.." || exit 2
git -C /repo diff --quiet || { echo "REPO DIRTY - refusing"; exit 2; }
seeds=("$@"); [ ${#seeds[@]} -eq 0 ] && seeds=($(ls seeded | grep -E '^C[0-9]+-[0-9]+$'))
out=seeded/RESULTS.txt; tmp=$(mktemp)
rc=0
for s in "${seeds[@]}"; do
  props=$(python3 - "$s" <<'PY'
import json, re, sys
m = json.load(open(f"/verif/seeded/{sys.argv[1]}/meta.json"))
d = m["detection"]
ps = sorted(set(re.findall(r"\b(C\d\d)/", d.get("by", ""))))
print(d["status"], " ".join(ps) if ps else m["breaks_property"])
PY
)
  status=${props%% *}; props=${props#* }
  git -C /repo apply /verif/seeded/$s/patch.diff || { echo "$s APPLY-FAILED" | tee -a $tmp; rc=1; continue; }
  for p in $props; do
    log=$(VERIF_NO_KANI=${VERIF_NO_KANI:-1} ./check $p --tier quick 2>&1); ec=$?
    v=$(echo "$log" | grep -A1 '^VIOLATION' | grep obligation | head -1 | sed 's/^ *obligation //' | cut -c1-110)
    echo "$s expected=$status check=$p exit=$ec ${v:-(no violation line)}" | tee -a $tmp
    if [ "$status" = caught ] && [ $ec -ne 1 ]; then rc=1; fi
  done
  git -C /repo checkout -- .
done
# evidence files were rewritten by runs on patched trees: the caller re-runs the checks on the clean tree afterwards
mv $tmp $out
exit $rc
