"""C10 — printed expressions keep their structure (E3 templates + E2 decision kernel + z3)."""
import ast
import itertools
import re
import z3

import common
import e2
import srcsym
from e2 import conj, disj
from mirsym import Exec, State, Opq, Agg, Ref, Val, Unsupported

LEVEL = "model_checking"
EXPLANATION = ("The templates of the expression arms of to_py are extracted from the current source (srcsym) and "
               "validated byte-for-byte against the real Display; the parenthesisation decision "
               "(needs_parens + precedence) is executed symbolically from MIR with parent kind, child kind and side "
               "free; Python's own parser (ast) supplies, for every (parent, slot, child), whether the child must be "
               "delimited; z3 decides that no such triple is left undelimited.")

AST_MOD = "src/generate/ast/mod.rs"

# expression universe of the property (complete operator set of the target language model)
LEAVES = {"Id": "(Id {n})", "Int": "(Int 7)", "Str": "(Str s)", "ENum": "(ENum 2 3)", "Float": "(Float 1.5)"}
COMPOUND = ["Ge", "Geq", "Le", "Leq", "Eq", "Neq", "Is", "IsN", "In", "Not", "And", "Or", "Add", "AddU", "Sub", "SubU",
            "Mul", "Div", "FDiv", "Pow", "Mod", "BAnd", "BOr", "BXOr", "BOneCmpl", "BLShift", "BRShift", "Ternary",
            "AnonFun", "FunctionCall", "PropertyCall", "Index", "Tuple", "List", "Set", "IsA", "Sqrt"]
# slots whose content is not a general expression in Python (attribute name, lambda parameters)
NON_EXPR_SLOTS = {("PropertyCall", "property"), ("AnonFun", "args")}
# s-expression child order of the replay builder
SX_ORDER = {"Ternary": ["cond", "then", "el"], "AnonFun": ["body", "args"], "FunctionCall": ["function", "args"],
            "PropertyCall": ["object", "property"], "Index": ["item", "range"]}


E2E = [("(a + b) * c", "(a + b) * c"), ("a * (b + c)", "a * (b + c)"), ("-(a + b)", "-(a + b)"),
       ("(a - b) ^ c", "(a - b) ** c"), ("(a ^ b) ^ c", "(a ** b) ** c"), ("a ^ b ^ c", "a ** b ** c"),
       ("(a + b) mod c", "(a + b) % c"), ("a + b * c", "a + b * c"), ("(a _or_ b) _and_ c", "(a | b) & c"),
       ("a << (b + c)", "a << b + c"), ("(a + b) // c", "(a + b) // c"), ("a - (b * c)", "a - b * c")]


class Tpl:
    def __init__(self, templates):
        self.t = {}
        self.unencoded = []
        for v in list(LEAVES) + COMPOUND:
            arms = templates.get(v)
            if not arms or len(arms) != 1 or arms[0]["template"] is None or arms[0]["guard"]:
                if v == "AnonFun" and arms and arms[0]["template"]:
                    pass
                else:
                    self.unencoded.append(v)
                    continue
            self.t[v] = arms[0]

    def slots(self, v):
        """[(field, kind, mode)] for child / list slots."""
        out = []
        for p in self.t[v]["template"]:
            if p[0] == "child":
                out.append((p[1], "child", p[2]))
            elif p[0] == "list":
                out.append((p[1], "list", "plain"))
            elif p[0] == "expr" and v == "AnonFun":
                out.append(("args", "list", "plain"))
        return out

    def inst(self, v, kids):
        """Text of variant v given {field: text | [texts]} (the same way to_py composes it)."""
        out = []
        for p in self.t[v]["template"]:
            if p[0] == "lit":
                out.append(p[1])
            elif p[0] == "child":
                out.append(kids[p[1]])
            elif p[0] == "list":
                out.append(", ".join(kids[p[1]]))
            elif p[0] == "str":
                out.append(kids.get(p[1], {"lit": "x", "int": "7", "string": "s", "num": "2", "exp": "3",
                                           "float": "1.5"}.get(p[1], "x")))
            elif p[0] == "expr" and v == "AnonFun":
                a = kids.get("args", [])
                out.append((" " + ", ".join(a)) if a else "")
            else:
                raise Unsupported(f"template piece {p} of {v}")
        return "".join(out)


def sx(v, kids_sx):
    """s-expression for the replay builder; kids_sx {field: sx | [sx]}."""
    if v in LEAVES:
        return LEAVES[v].format(n=kids_sx.get("lit", "x"))
    order = SX_ORDER.get(v)
    parts = []
    if order is None:
        for f in kids_sx:
            parts += kids_sx[f] if isinstance(kids_sx[f], list) else [kids_sx[f]]
    else:
        for f in order:
            x = kids_sx.get(f, [])
            parts += x if isinstance(x, list) else [x]
    return f"({v} " + " ".join(parts) + ")"


def norm_dump(text):
    """ast dump with nested same-operator BoolOps flattened (and/or are n-ary in Python)."""
    t = ast.parse(text, mode="eval")

    class F(ast.NodeTransformer):
        def visit_BoolOp(self, node):
            self.generic_visit(node)
            vals = []
            for v in node.values:
                if isinstance(v, ast.BoolOp) and type(v.op) is type(node.op):
                    vals += v.values
                else:
                    vals.append(v)
            node.values = vals
            return node
    return ast.dump(F().visit(t))


def fresh_names():
    for i in itertools.count():
        yield f"v{i}"


def build(tpl, v, names, child_override=None):
    """(text, sexpr) of variant v with identifier children; child_override {field: (text, sx)}."""
    kids_t, kids_s = {}, {}
    if v in LEAVES:
        n = next(names)
        return tpl.inst(v, {"lit": n}), sx(v, {"lit": n})
    for f, kind, mode in tpl.slots(v):
        if child_override and f in child_override:
            t_, s_ = child_override[f]
            kids_t[f], kids_s[f] = ([t_] if kind == "list" else t_), ([s_] if kind == "list" else s_)
            if kind == "list":
                n = next(names)
                kids_t[f] = [t_, n]
                kids_s[f] = [s_, f"(Id {n})"]
            continue
        if kind == "list":
            if (v, f) == ("AnonFun", "args"):
                n = [next(names)]
            else:
                n = [next(names), next(names)]
            kids_t[f] = n
            kids_s[f] = [f"(Id {x})" for x in n]
        else:
            n = next(names)
            kids_t[f] = n
            kids_s[f] = f"(Id {n})"
    return tpl.inst(v, kids_t), sx(v, kids_s)


def run(run, syntax_only=False):
    mir = e2.load_mir(run)
    rp = common.Replay()
    run.assume("Python 3's own parser (ast.parse of the tooling interpreter) is the oracle for grouping",
               "nested `and`/`or` of the same operator are the same tree as the flat chain (BoolOp is n-ary in Python)",
               "all (parent, slot, child) pairs over the complete operator set; deeper trees only through the "
               "context-freeness of Python's expression grammar (assumed, not proved)",
               "statement-level layout is not part of C10")
    run.trusted += ["python3 ast module", "rustc nightly MIR dump", "mirsym MIR semantics", "srcsym template extractor "
                    "(validated against the real Display on every run)", "z3"]
    src = common.read_repo(AST_MOD)
    try:
        tpl = Tpl(srcsym.to_py_templates(src))
    except srcsym.SrcError as e:
        run.ob("templates", "E3", "to_py arms are extractable").inconclusive(str(e))
        rp.close()
        return
    ob_t = run.ob("templates", "E3", "every expression arm of to_py is inside the encodable subset and its template "
                  "reproduces the real Display output byte for byte", ["to_py"])
    if tpl.unencoded:
        ob_t.inconclusive(f"arms outside the encodable subset: {tpl.unencoded}")
        rp.close()
        return
    variants = list(LEAVES) + COMPOUND
    enum = Exec(mir).enum_variants("Core")
    if not enum or any(v not in enum for v in variants):
        ob_t.inconclusive("Core variants changed")
        rp.close()
        return

    # ---- E2: the parenthesisation decision from MIR
    ob_np = run.ob("decision-kernel", "E2", "needs_parens/precedence (MIR) is encodable: all paths return a boolean", ["needs_parens", "precedence"])
    try:
        cands = mir.find(file=AST_MOD, name="needs_parens")
        if len(cands) != 1:
            # tree without the decision function (no parentheses are ever printed)
            NP = None
            ob_np.discharged("no needs_parens function in this tree: operands are never parenthesised", 0, 0)
        else:
            ex = Exec(mir, inline=[r"^precedence$", r"generate::ast::precedence$"])
            st = State()
            par = Opq(z3.Const("parent", Val), "Core")
            chi = Opq(z3.Const("child", Val), "Core")
            right = z3.Bool("right")
            ends = e2.run_kernel(run, ex, cands[0], [Ref(ex.new_cell(st, par)), Ref(ex.new_cell(st, chi)), right], st)
            dp, dc = ex.discr(st, par, "Core"), ex.discr(st, chi, "Core")
            NP = z3.BoolVal(False)
            bad = [p for p in ends if p.kind != "return" or not z3.is_bool(p.ret)]
            if bad:
                raise Unsupported(f"unexpected path ends {bad[:2]}")
            for p in ends:
                NP = z3.If(conj(p.cond), p.ret, NP)
            r, _m, dt, _s = e2.solve(ex, [z3.Not(disj([conj(p.cond) for p in ends]))])
            ob_np.solver_s += dt
            ob_np.queries += 1
            if r != z3.unsat:
                raise Unsupported("paths of needs_parens do not cover all inputs")
            ob_np.discharged(f"{len(ends)} paths", dt, 0)
    except Unsupported as e:
        ob_np.inconclusive(str(e))
        rp.close()
        return
    if NP is None:
        ex = Exec(mir)
        dp, dc, right = z3.Int("parent.discr"), z3.Int("child.discr"), z3.Bool("right")
        NP = z3.BoolVal(False)

    np_cache = {}

    def np_concrete(p, c, r):
        k = (p, c, r)
        if k not in np_cache:
            v = z3.simplify(z3.substitute(NP, (dp, z3.IntVal(enum.index(p))), (dc, z3.IntVal(enum.index(c))),
                                          (right, z3.BoolVal(r))))
            if not (z3.is_true(v) or z3.is_false(v)):
                raise Unsupported(f"needs_parens({p},{c},{r}) does not evaluate to a constant: {v}")
            np_cache[k] = z3.is_true(v)
        return np_cache[k]

    # ---- oracle table from Python's parser + translator validation against the real Display
    needs, domain, mism = {}, [], []
    n_valid = 0
    for p in COMPOUND:
        for f, kind, mode in tpl.slots(p):
            if (p, f) in NON_EXPR_SLOTS:
                continue
            for c in variants:
                names = fresh_names()
                ct, cs = build(tpl, c, names)
                plain, _ = build(tpl, p, names, {f: (ct, cs)})
                names = fresh_names()
                ct2, cs2 = build(tpl, c, names)
                par_t, _ = build(tpl, p, names, {f: ("(" + ct2 + ")", cs2)})
                try:
                    want = norm_dump(par_t)
                except SyntaxError:
                    continue          # not a Python expression at all: outside the domain
                try:
                    need = norm_dump(plain) != want
                    if syntax_only:
                        need = False          # C02: only texts Python refuses to parse count
                except SyntaxError:
                    need = True
                needs[(p, f, c)] = need
                domain.append((p, f, mode, c))
                # translator validation: template + decision kernel predict the real output
                predicted = par_t if (mode != "plain" and np_concrete(p, c, mode == "right")) else plain
                names = fresh_names()
                _ct, cs3 = build(tpl, c, names)
                _pt, ps = build(tpl, p, names, {f: (_ct, cs3)})
                stt, real = rp.req("core", common.hexs(ps))
                n_valid += 1
                if stt != "OK" or real != predicted:
                    mism.append({"parent": p, "slot": f, "child": c, "sexpr": ps, "predicted": predicted, "real": f"{stt} {real}"})
    run.validated += n_valid
    if mism:
        ob_t.inconclusive(f"{len(mism)} of {n_valid} instantiated templates differ from the real Display: {mism[:2]}")
        rp.close()
        return
    ob_t.discharged(f"{len(tpl.t)} arms, {n_valid} (parent, slot, child) printings identical to the real Display", 0, 0)

    # ---- the query
    obid = "operands-delimited-syntax" if syntax_only else "operands-delimited"
    ob = run.ob(obid, "E3+E2+z3", "for every (parent, slot, child) of the operator set: if Python's parser "
                + ("refuses the undelimited text" if syntax_only else "groups the undelimited text differently") +
                ", the slot is delimited (needs_parens says so on that side)",
                ["to_py", "needs_parens", "precedence"])
    P, S, C = z3.Int("p"), z3.Int("s"), z3.Int("c")
    slot_ids = {}
    dom, need_f = [], []
    left_slots, right_slots = [], []
    for (p, f, mode, c) in domain:
        new_slot = (p, f) not in slot_ids
        sid = slot_ids.setdefault((p, f), len(slot_ids))
        here = z3.And(P == enum.index(p), S == sid, C == enum.index(c))
        dom.append(here)
        if needs[(p, f, c)]:
            need_f.append(here)
        if new_slot and mode == "left":
            left_slots.append(z3.And(P == enum.index(p), S == sid))
        elif new_slot and mode == "right":
            right_slots.append(z3.And(P == enum.index(p), S == sid))
    NP_L = z3.substitute(NP, (dp, P), (dc, C), (right, z3.BoolVal(False)))
    NP_R = z3.substitute(NP, (dp, P), (dc, C), (right, z3.BoolVal(True)))
    hyp = [disj(dom)]
    claim = z3.Implies(disj(need_f), z3.Or(z3.And(disj(left_slots), NP_L), z3.And(disj(right_slots), NP_R)))
    rev = {v: k for k, v in slot_ids.items()}
    found = []
    block = []
    t_all = 0.0
    r0, _m0, dt0, _ = e2.solve(ex, hyp)
    ob.reach = str(r0)
    for _i in range(400):
        r, m, dt, _s = e2.solve(ex, hyp + [z3.Not(claim)] + block)
        t_all += dt
        ob.queries += 1
        if r != z3.sat:
            break
        pi, si, ci = m.eval(P).as_long(), m.eval(S).as_long(), m.eval(C).as_long()
        found.append((enum[pi], rev[si][1], enum[ci]))
        block.append(z3.Not(z3.And(P == pi, S == si, C == ci)))
    ob.solver_s += t_all
    run.samples.append({"obligation": ob.id, "domain_triples": len(domain), "need_delimiting": sum(needs.values()),
                        "example": [d for d in domain if needs[(d[0], d[1], d[3])]][:3]})
    run.extra["pairs_domain"] = len(domain)
    if r not in (z3.sat, z3.unsat):
        ob.inconclusive(f"solver answered {r}")
    elif not found:
        ob.discharged(f"unsat in {t_all:.2f}s over {len(domain)} triples ({sum(needs.values())} need delimiting)", 0, 0)
    else:
        # replay every triple; group by role
        roles = {}
        for (p, f, c) in found:
            names = fresh_names()
            ct, cs = build(tpl, c, names)
            _pt, ps = build(tpl, p, names, {f: (ct, cs)})
            names = fresh_names()
            ct2, cs2 = build(tpl, c, names)
            want_t, _ = build(tpl, p, names, {f: ("(" + ct2 + ")", cs2)})
            stt, real = rp.req("core", common.hexs(ps))
            try:
                same = stt == "OK" and (norm_dump(real) == norm_dump(want_t) or syntax_only)
            except SyntaxError:
                same = False
            if same:
                continue
            mode = dict((s_[0], s_[2]) for s_ in tpl.slots(p))[f]
            left_slots = [s_[0] for s_ in tpl.slots(p) if s_[2] == "left"]
            same_level = mode == "right" and left_slots and not needs.get((p, left_slots[0], c), True) and c != p \
                or (mode == "right" and c == p)
            role = f"same-level-right-operand:{p}" if same_level else f"{p}:{f}:{c}"
            roles.setdefault(role, []).append({"tree": ps, "printed": real, "python_reads_it_as": want_t + " would be needed"})
        if not roles:
            ob.inconclusive(f"{len(found)} solver models did not reproduce natively")
        else:
            first = True
            for role, items in sorted(roles.items()):
                o = ob if first else run.ob(obid, "E3+E2+z3", ob.desc, ob.functions)
                first = False
                o.reach = ob.reach
                o.violated(role, {"triples": [i["tree"] for i in items][:6]}, items[0],
                           f"{items[0]['tree']} prints as {items[0]['printed']!r} which Python " +
                           ("does not parse" if syntax_only else "groups differently") + f" ({len(items)} triples)")
    # end-to-end translator validation from Mamba source (cross-level groupings that must survive)
    if run.clean():
        bad = []
        for m_src, py in E2E:
            stt, out = rp.transpile(f"def a := 1\ndef b := 2\ndef c := 3\ndef r := {m_src}")
            run.validated += 1
            try:
                line = [l for l in out.split("\n") if l.startswith("r = ")][0][4:]
                ok = stt == "OK" and norm_dump(line) == norm_dump(py)
            except Exception:
                ok = False
            if not ok:
                bad.append({"mamba": m_src, "expected": py, "got": out[:200]})
        if bad:
            run.ob("family-e2e", "native", "source-level groupings survive transpilation").inconclusive(str(bad[:3]))
    rp.close()
