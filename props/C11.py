"""C11 — the annotate option is semantically inert (E2 self-composition / non-interference)."""
import ast
import re
import z3

import common
import e2
from e2 import conj, disj
from mirsym import Exec, State, Opq, Agg, Ref, StrC, Seq, Val, Unsupported, FnItem

LEVEL = "model_checking"
EXPLANATION = ("Every function of the generator whose MIR reads State::annotate (enumerated from the MIR on every run), plus "
               "convert_class, is executed symbolically with all inputs free; the run with annotate=true is compared with "
               "the run with annotate=false on the same inputs (2-safety by substitution): z3 must show that everything "
               "except annotation slots - the Result discriminant, every non-`ty` field of the constructed Core node, the "
               "sequence and arguments of all recursive conversions and State setters, and the imports a converter "
               "registers directly (NewType, ABC, abstractmethod, math) - is identical. Second channel: the annotation "
               "slots of Core are only read by the printer, derived impls and `init`, and `init` (self-composition over the "
               "slot) neither branches on nor copies the slot.")

DEF_RS = "src/generate/convert/definition.rs"
CLASS_RS = "src/generate/convert/class.rs"
STATE_RS = "src/generate/convert/state.rs"
SETTERS = r"generate::convert::state::State::(in_tup|tuple_literal|expand_ty|is_last_must_be_ret|def_as_fun_arg|must_assign_to|remove_ret|in_interface)$"
ANNOT_CALLEES = re.compile(r"(ToPy::to_py|\.ToPy::|::to_py$)")
TY_FIELDS = {"VarDef": {"ty"}, "FunArg": {"ty"}, "FunDef": {"ty"}, "FunDefOp": {"ty"}}

PROGRAMS = [
    ("fun-expression-body", "def f(x: Int) -> Int => x + 1\nprint(f(2))"),
    ("fun-block-body", "def f(x: Int) -> Int =>\n    def y := x + 1\n    y\nprint(f(2))"),
    ("fun-no-return-type", "def f(x: Int) => print(x)\nf(2)"),
    ("fun-default-arg", "def f(x: Int, y: Int := 3) -> Int => x + y\nprint(f(2))"),
    ("var-annotated", "def x: Int := 5\nprint(x)"),
    ("var-inferred", "def x := 5\nprint(x)"),
    ("var-if-expression", "def x := if True then 1 else 2\nprint(x)"),
    ("fun-if-body", "def f(x: Int) -> Int => if x > 1 then 1 else 2\nprint(f(2))"),
    ("class-method", "class A\n    def a: Int := 1\n    def g(self) -> Int => self.a\ndef z := A()\nprint(z.g())"),
    ("nullable", "def x: Int? := None\nprint(x)"),
    ("tuple-def", "def (a, b) := (1, 2)\nprint(a)"),
    ("class-arg-default", "class A(def x: Int := 5)\n    def g(self) -> Int => self.x\ndef z := A()\nprint(z.g())"),
    ("class-arg", "class A(def x: Int)\n    def g(self) -> Int => self.x\ndef z := A(3)\nprint(z.g())"),
    ("interface-abstract-fun", "type T\n    def f(x: Int) -> Int\n"),
    ("fun-without-body", "def f(x: Int) -> Int\n"),
    ("method-without-body", "class B\n    def f(self, x: Int) -> Int\n"),
    ("fun-default-str", "def f(x: Int, y: Str := \"a\") -> Str => y\nprint(f(1))"),
    ("fun-early-return", "def g() -> Int =>\n    if True then\n        return 1\n    2\nprint(g())"),
    ("var-without-value", "def x: Int\nx := 5"),
    ("type-alias", "class Account(def balance: Int)\ntype Funded: Account when self.balance > 0\ndef mine := Account(10)\nprint(mine.balance)"),
    ("type-alias-plain", "type Meters: Int\ndef f(x: Int) -> Int => x\nprint(f(1))"),
    ("interface", "type Shape\n    def area(self) -> Int\nclass Sq(def s: Int): Shape\n    def area(self) -> Int => self.s * self.s\nprint(Sq(2).area())"),
    ("class-init-with-return-type", "class Base(def name: Str)\nclass Counter: Base(\"counter\")\n    def count: Int := 0\n    def __init__(self, start: Int) -> None =>\n        self.count := start + 1\n        return None\ndef c := Counter(41)\nprint(c.count)"),
    ("class-init-plain", "class Base(def name: Str)\nclass Counter: Base(\"counter\")\n    def count: Int := 0\n    def __init__(self, start: Int) =>\n        self.count := start + 1\ndef c := Counter(41)\nprint(c.count)"),
    ("sqrt", "from math import sqrt\ndef x: Float := 2.0\nprint(x)"),
    ("vararg-typed", "def show(vararg xs: Int) => print(xs)\nshow(1)"),
    ("vararg-after-plain", "def show(a: Int, vararg xs: Int) -> Int => a\nprint(show(1, 2))"),
]


def erase(py):
    """Python source -> ast dump with annotations and typing imports erased."""
    t = ast.parse(py)

    class E(ast.NodeTransformer):
        def visit_AnnAssign(self, n):
            self.generic_visit(n)
            if n.value is None:
                return ast.Assign(targets=[n.target], value=ast.Constant(None))
            return ast.Assign(targets=[n.target], value=n.value)

        def visit_FunctionDef(self, n):
            self.generic_visit(n)
            n.returns = None
            for a in n.args.args + n.args.kwonlyargs + n.args.posonlyargs + ([n.args.vararg] if n.args.vararg else []):
                a.annotation = None
            return n

    t = E().visit(t)
    used = {n.id for n in ast.walk(t) if isinstance(n, ast.Name)}

    class I(ast.NodeTransformer):
        # typing names only used by annotations disappear with them; typing names the remaining code uses
        # (NewType, ...) are part of the program
        def visit_ImportFrom(self, n):
            if n.module != "typing":
                return n
            n.names = [a for a in n.names if (a.asname or a.name) in used]
            return n if n.names else None
    return ast.dump(I().visit(t))


def program_family(rp):
    bad, n = [], 0
    for role, src in PROGRAMS:
        n += 1
        s0, o0 = rp.transpile(src, False)
        s1, o1 = rp.transpile(src, True)
        if s0 != s1:
            bad.append({"role": role, "src": src, "why": f"verdict differs: annotate=off {s0}, annotate=on {s1}"})
            continue
        if s0 != "OK":
            continue
        try:
            same = erase(o0) == erase(o1)
        except SyntaxError as e:
            bad.append({"role": role, "src": src, "why": f"output does not parse: {e}"})
            continue
        if not same:
            bad.append({"role": role, "src": src, "why": f"outputs differ beyond annotations: off={o0.strip()!r} on={o1.strip()!r}"})
    return n, bad


def fam_replay(rp, what):
    def f(model):
        n, bad = program_family(rp)
        if bad:
            return {"reproduced": True, "role": f"{what}:{bad[0]['role']}", "detail": f"{bad[0]['src']!r}: {bad[0]['why']}",
                    "all_roles": [b["role"] for b in bad]}
        return {"reproduced": False, "detail": f"{n} programs agree modulo annotations"}
    return f


def readers_of_annotate(mir, idx):
    """MIR functions that read field `idx` of a convert::state::State place."""
    out = []
    pat = re.compile(r"\.%d: bool\)" % idx)
    for fn in mir.fns.values():
        st_locals = {n for n, ty in fn.locals.items() if "convert::state::State" in ty}
        if not st_locals:
            continue
        hit = False
        for b in fn.blocks.values():
            for s in b.stmts:
                if s[0] != "assign":
                    continue
                rv = s[2]
                places = []
                if rv[0] == "use" and rv[1][0] in ("copy", "move"):
                    places.append(rv[1][1])
                for pl in places:
                    if pl[0] == "field" and pl[2] == idx and pl[3] == "bool":
                        root = pl
                        while root[0] != "local":
                            root = root[1]
                        if root[1] in st_locals:
                            hit = True
        if hit:
            out.append(fn)
    return out


def val_hook(ex, st, v):
    """Erasure for the 2-safety comparison: Imports is a write-only accumulator, the annotate field of State is not
    part of the observable arguments (callees are covered by the same obligation, inductively)."""
    if isinstance(v, Opq) and v.ty and v.ty.strip().endswith("Imports"):
        return z3.Const("imports", Val)
    if isinstance(v, Agg) and v.ty == "State" and v.names and "annotate" in v.names:
        fs = [f for n, f in zip(v.names, v.fields) if n != "annotate"]
        ns = [n for n in v.names if n != "annotate"]
        return ex.to_val(st, Agg("State~", None, fs, ns))
    return None


def observable(ex, p):
    """Canonical (string) observable of a path: result modulo annotation slots + control-relevant events."""
    st = p.state
    parts = []

    def core_obs(c):
        if isinstance(c, Agg) and c.ty == "Core" and c.variant in TY_FIELDS and c.names:
            fs = [f for n, f in zip(c.names, c.fields) if n not in TY_FIELDS[c.variant]]
            ns = [n for n in c.names if n not in TY_FIELDS[c.variant]]
            return Agg("Core", c.variant + "~", [core_obs(f) for f in fs], ns)
        if isinstance(c, Agg):
            return Agg(c.ty, c.variant, [core_obs(f) for f in c.fields], c.names)
        return c
    r = p.ret
    if isinstance(r, Agg) and r.ty == "Result":
        parts.append(("ret", r.variant, z3.simplify(ex.to_val(st, core_obs(r.fields[0]))).sexpr() if r.variant == "Ok" else "err"))
    else:
        parts.append(("ret", "?", z3.simplify(ex.to_val(st, r)).sexpr()))
    for ev in p.events:
        # control-relevant calls: the recursive conversions with all their arguments (State modulo annotate)
        if ev["name"] in ("convert_node", "convert_vec", "convert_def", "convert_class", "convert_cntrl_flow",
                          "append_ret", "append_assign", "extract_class", "convert_builder", "convert_call",
                          "convert_handle", "convert_range_slice"):
            parts.append((ev["name"], tuple(z3.simplify(a).sexpr() for a in ev["argvals"])))
        # imports registered directly by a converter (not through Name::to_py) serve emitted code, not annotations
        if ev["name"].split("::")[-1] in ("add_from_import", "add_import"):
            parts.append((ev["name"], tuple(z3.simplify(a).sexpr() for a in ev["argvals"][1:])))
    return repr(parts)


def noninterference(run, mir, rp, short, file, sf):
    """2-safety of one generator function (signature (&ASTTy, &mut Imports, &State, &Context) -> GenResult) in the flag."""
    obid = short.replace("_", "-") + "-noninterference"
    ob = run.ob(obid, "E2", f"{short} with annotate=true and annotate=false on the same inputs: "
                "same Result discriminant, same non-annotation fields of the Core node, same recursive conversions, "
                "State setter arguments and directly registered (non-annotation) imports", [short, "State setters (inlined)"])
    try:
        fn = e2.find1(mir, file=file, name=short)
        ex = Exec(mir, max_paths=50000, inline=[SETTERS])
        ex.val_hook = val_hook
        st = State()
        node = Opq(z3.Const("node", Val), "NodeTy")
        an = re.findall(r"pub (\w+):", re.search(r"pub struct ASTTy \{(.*?)\}", common.read_repo("src/check/ast/mod.rs"), re.S).group(1))
        by = {"pos": Opq(z3.Const("pos", Val), "Position"), "node": node, "ty": Opq(z3.Const("ty", Val), "Option<Name>")}
        astv = Agg("ASTTy", None, [by[n] for n in an], an)
        vals = {}
        for f in sf:
            if f == "tup":
                vals[f] = z3.BitVec("state.tup", 64)
            elif f == "must_assign_to":
                vals[f] = Opq(z3.Const("state.must_assign_to", Val), "Option<(Core, Option<Name>)>")
            else:
                vals[f] = z3.Bool("state." + f)
        ann = vals["annotate"]
        state = Ref(ex.new_cell(st, Agg("State", None, [vals[f] for f in sf], sf)))
        imp = Ref(ex.new_cell(st, Opq(z3.Const("imp", Val), "Imports")))
        ctx = Ref(ex.new_cell(st, Opq(z3.Const("ctx", Val), "Context")))
        ends = e2.run_kernel(run, ex, fn, [Ref(ex.new_cell(st, astv)), imp, state, ctx], st)
        bad_ends = [p for p in ends if p.kind not in ("return", "panic")]
        if bad_ends:
            raise Unsupported(f"unexpected path ends {bad_ends[:2]}")
        ids = {}
        idT, idF = z3.IntVal(-1), z3.IntVal(-1)
        T, F = z3.BoolVal(True), z3.BoolVal(False)
        obs_of = {}
        for p in ends:
            o = observable(ex, p)
            k = ids.setdefault(o, len(ids))
            obs_of[k] = o
            c = conj(p.cond)
            cT = z3.simplify(z3.substitute(c, (ann, T)))
            cF = z3.simplify(z3.substitute(c, (ann, F)))
            if not z3.is_false(cT):
                idT = z3.If(cT, z3.IntVal(k), idT)
            if not z3.is_false(cF):
                idF = z3.If(cF, z3.IntVal(k), idF)
        d = ex.discr(st, node, "NodeTy")
        names_ = {"node.discriminant": d, "observable(annotate=on)": idT, "observable(annotate=off)": idF}
        names_.update({"state." + f: vals[f] for f in sf if f not in ("tup", "must_assign_to", "annotate")})
        run.samples.append({"obligation": ob.id, "paths": len(ends), "distinct_observables": len(ids)})

        def rp_model(model):
            r = fam_replay(rp, short.replace("_", "-"))(model)
            try:
                a, b = int(model["observable(annotate=on)"]), int(model["observable(annotate=off)"])
                r["observable_on"] = obs_of.get(a, "?")[:600]
                r["observable_off"] = obs_of.get(b, "?")[:600]
                nv = ex.enum_variants("NodeTy")
                r["node_kind"] = nv[int(model["node.discriminant"])]
            except Exception:
                pass
            return r
        e2.prove(run, ob, ex, [], idT == idF, names_, rp_model)
    except Unsupported as e:
        ob.inconclusive(str(e))


NODE_RS = "src/generate/ast/node.rs"


def slot_readers(mir_path, slots):
    """MIR items that mention the annotation slot (variant, index) of a Core value (type Option<Box<Core>>)."""
    pat = re.compile("|".join(r"as %s\)\.%d: std::option::Option<std::boxed::Box<generate::ast::node::Core>>" % (v, i) for v, i in slots))
    out, hdr = {}, None
    with open(mir_path) as f:
        for line in f:
            if line.startswith(("fn ", "const ", "static ", "promoted")):
                hdr = line.strip()
            elif hdr and pat.search(line):
                out[hdr] = out.get(hdr, 0) + 1
    return out


def ob_annotation_slots(run, mir, rp):
    """The annotation slots of Core (the `ty` fields) may only reach the printer: who else reads them?"""
    lay = e2.rust_enum(NODE_RS, "Core")
    slots = [(v, lay[v].index("ty")) for v in TY_FIELDS if isinstance(lay.get(v), (list, tuple)) and "ty" in lay[v]]
    ob0 = run.ob("annotation-slot-readers", "E2", "the `ty` slots of Core::{VarDef,FunArg,FunDef,FunDefOp} are read only by the "
                 "printer, the derived impls and the kernels encoded below", ["(all MIR items)"])
    if len(slots) != len(TY_FIELDS):
        ob0.inconclusive(f"Core layout changed: annotation slots found {slots}")
        return
    rd = slot_readers(run.extra["mir_dump"]["path"], slots)
    allowed = ("::fmt(", "::eq(", "::ne(", "::hash(", "::clone(", "fn to_py(", "fn convert_def(", "fn init(")
    extra = [h[:160] for h in rd if not any(a in h for a in allowed) and "/generate/ast/node.rs" not in h]
    run.samples.append({"obligation": ob0.id, "readers": sorted(h[:120] for h in rd)})
    if not any("fn to_py(" in h for h in rd):
        ob0.inconclusive("the printer no longer shows up as a reader of the annotation slots: the MIR pattern is stale")
    elif extra:
        ob0.inconclusive(f"new reader(s) of an annotation slot without an obligation: {extra}")
    else:
        ob0.discharged(f"{len(rd)} MIR items mention an annotation slot; all are printer/derived/encoded", 0, 0)

    ob = run.ob("init-slot-noninterference", "E2", "class.rs `init` (merges a user constructor with parent constructor calls): "
                "path set and result are independent of the return annotation slot of the user's constructor "
                "(self-composition over the slot)", ["init"])
    try:
        fn = e2.find1(mir, file=CLASS_RS, name="init")
        ex = Exec(mir, max_paths=20000)
        st = State()
        slot = z3.Const("ty_slot", Val)
        fields = {f: e2.opq("old_init." + f, "?") for f in lay["FunDef"]}
        fields["ty"] = Opq(slot, "Option<Box<Core>>")
        fundef = e2.mk_variant(NODE_RS, "Core", "FunDef", fields)
        is_fundef = z3.Bool("old_init.is_fundef")
        kinds = ex.enum_variants("Core")
        other = z3.Int("old_init.other_kind")
        core = Opq(z3.Const("old_init", Val), "Core",
                   {("d",): z3.If(is_fundef, z3.IntVal(kinds.index("FunDef")), other), ("v", "FunDef"): fundef})
        oi, some = e2.sym_option("old_init_opt", Ref(ex.new_cell(st, core)), "Option<&Core>")
        args = [Ref(ex.new_cell(st, oi)), Ref(ex.new_cell(st, e2.opq("class_args", "[Core]"))),
                Ref(ex.new_cell(st, e2.opq("parents", "[Core]")))]
        pre = [z3.Or(is_fundef, z3.And(other >= 0, other < len(kinds), other != kinds.index("FunDef")))]
        ends = e2.run_kernel(run, ex, fn, args, st, pre)
        bad_ends = [p for p in ends if p.kind not in ("return", "panic")]
        if bad_ends:
            raise Unsupported(f"unexpected path ends {bad_ends[:2]}")
        A, B = z3.Const("ty_slot.on", Val), z3.Const("ty_slot.off", Val)
        panic = z3.Const("obs:panic", Val)
        none = z3.Const("obs:none", Val)
        RA, RB = none, none
        for p in ends:
            c = conj(p.cond)
            o = panic if p.kind == "panic" else ex.to_val(p.state, p.ret)
            RA = z3.If(z3.substitute(c, (slot, A)), z3.substitute(o, (slot, A)), RA)
            RB = z3.If(z3.substitute(c, (slot, B)), z3.substitute(o, (slot, B)), RB)
        run.samples.append({"obligation": ob.id, "paths": len(ends)})
        names_ = {"old_init.is_some": some, "old_init.is_fundef": is_fundef,
                  "slot(on).is_some": ex.discr(st, Opq(A, "Option<Box<Core>>"), "Option"),
                  "slot(off).is_some": ex.discr(st, Opq(B, "Option<Box<Core>>"), "Option")}
        e2.prove(run, ob, ex, pre, RA == RB, names_, fam_replay(rp, "init"))
    except Unsupported as e:
        ob.inconclusive(str(e))


GEN_MOD_RS = "src/generate/mod.rs"


def ob_pipeline(run, mir, rp):
    """gen_arguments (entry of the generation stage) uses the flag only to build the State it hands to convert_node."""
    ob = run.ob("gen-arguments-noninterference", "E2", "gen_arguments with annotate=true and annotate=false on the same tree: the same calls with the "
                "same arguments in the same order (State::from and convert_node compared with the flag erased - their own inertness is the "
                "subject of the other obligations) and the same assembly of imports and statements; in particular nothing is added to or "
                "removed from the collected imports depending on the flag", ["gen_arguments"])
    try:
        fn = e2.find1(mir, file=GEN_MOD_RS, name="gen_arguments")
        gf = e2.rust_struct(GEN_MOD_RS, "GenArguments")
        if "annotate" not in gf:
            raise Unsupported(f"GenArguments fields {gf}")
        ex = Exec(mir, max_paths=5000)

        def hook(ex_, st_, v):
            if isinstance(v, Agg) and v.ty == "GenArguments" and v.names and "annotate" in v.names:
                return ex_.to_val(st_, Agg("GenArguments~", None, [f for n_, f in zip(v.names, v.fields) if n_ != "annotate"], [n_ for n_ in v.names if n_ != "annotate"]))
            return None
        ex.val_hook = hook
        st = State()
        ann = z3.Bool("gen_args.annotate")
        ga = Agg("GenArguments", None, [ann if f == "annotate" else Opq(z3.Const("gen_args." + f, Val), "?") for f in gf], gf)
        args = [Ref(ex.new_cell(st, Opq(z3.Const("ast_ty", Val), "ASTTy"))), Ref(ex.new_cell(st, ga)), Ref(ex.new_cell(st, Opq(z3.Const("ctx", Val), "Context")))]
        ends = e2.run_kernel(run, ex, fn, args, st)
        if any(p.kind not in ("return", "panic") for p in ends):
            raise Unsupported("unexpected path ends")
        ids, obs_of = {}, {}
        idT, idF = z3.IntVal(-1), z3.IntVal(-1)
        for p in ends:
            parts = [("end", p.kind, z3.simplify(ex.to_val(p.state, p.ret)).sexpr() if p.kind == "return" else "")]
            parts += [(ev["name"], tuple(z3.simplify(a).sexpr() for a in ev["argvals"])) for ev in p.events]
            o = repr(parts)
            k = ids.setdefault(o, len(ids))
            obs_of[k] = o
            c = conj(p.cond)
            cT = z3.simplify(z3.substitute(c, (ann, z3.BoolVal(True))))
            cF = z3.simplify(z3.substitute(c, (ann, z3.BoolVal(False))))
            if not z3.is_false(cT):
                idT = z3.If(cT, z3.IntVal(k), idT)
            if not z3.is_false(cF):
                idF = z3.If(cF, z3.IntVal(k), idF)
        if not any("convert_node" in o for o in ids):
            raise Unsupported("gen_arguments no longer calls convert_node")
        run.samples.append({"obligation": ob.id, "paths": len(ends), "distinct_observables": len(ids)})

        def rp_model(model):
            r = fam_replay(rp, "gen-arguments")(model)
            try:
                r["observable_on"] = obs_of.get(int(model["observable(annotate=on)"]), "?")[:600]
                r["observable_off"] = obs_of.get(int(model["observable(annotate=off)"]), "?")[:600]
            except Exception:
                pass
            return r
        e2.prove(run, ob, ex, [], idT == idF, {"observable(annotate=on)": idT, "observable(annotate=off)": idF}, rp_model)
    except Unsupported as e:
        ob.inconclusive(str(e))


def ob_printer_erasure(run, mir, rp):
    """What the printer emits for a node with an annotation is what it emits without it, plus the annotation."""
    import printkern
    ob = run.ob("printer-annotation-erasure", "E3-text", "to_py arms of Core::{VarDef, FunArg, FunDef}: for every setting of the other fields (vararg, "
                "default / value present, decorators) the text with the `ty` slot filled equals the text with the slot empty once the pieces "
                "`: <ty>` resp. ` -> <ty>` are removed; Core::FunDefOp prints the FunDef with the same slot", ["to_py (4 arms)"])
    try:
        claims, n = [], 0
        for kind, mark in (("VarDef", ": "), ("FunArg", ": "), ("FunDef", " -> ")):
            ex, ind, vals, out = printkern.run_arm(run, mir, kind)
            W, N = [], []
            for p, d in out:
                if d is None:
                    continue          # panic path (ind - 1 at level 0), not a text
                fl = printkern.flags_of(p.cond, kind)
                if fl is None:
                    raise Unsupported(f"{kind}: path condition not understood")
                slot = fl.pop(("discr", "ty"), None)
                if slot is None:
                    raise Unsupported(f"{kind}: a path does not look at the annotation slot")
                has = slot[0][0] == 1 if slot[0][1] else slot[0][0] != 1
                (W if has else N).append((fl, d))
            if not W or not N:
                raise Unsupported(f"{kind}: {len(W)} paths with, {len(N)} paths without annotation")
            for flw, with_ty in W:
                # every setting of the other fields that reaches this path reaches some path without annotation: compare with each compatible one
                comp = [(fln, d) for fln, d in N if all(fln.get(k, v) == v for k, v in flw.items())]
                if not comp:
                    raise Unsupported(f"{kind} {flw}: no path without annotation under the same flags")
                erased, i, removed = [], 0, 0
                with_ty = list(with_ty)
                while i < len(with_ty):
                    pc = with_ty[i]
                    nxt = with_ty[i + 1] if i + 1 < len(with_ty) else None
                    if pc[0] == "lit" and nxt and nxt[0] == "slot" and nxt[2].startswith("ty.") and pc[1].endswith(mark):
                        rest = pc[1][:-len(mark)]
                        if rest:
                            erased.append(("lit", rest))
                        i += 2
                        removed += 1
                        continue
                    erased.append(pc)
                    i += 1
                merged = []
                for pc in erased:            # merge adjacent literals the removal brought together
                    if merged and pc[0] == "lit" and merged[-1][0] == "lit":
                        merged[-1] = ("lit", merged[-1][1] + pc[1])
                    else:
                        merged.append(pc)
                for fln, without in comp:
                    n += 1
                    ok = removed == 1 and merged == list(without)
                    if not ok:
                        run.samples.append({"obligation": ob.id, "kind": kind, "flags": str({**flw, **fln}), "with": str(with_ty)[:300], "without": str(without)[:300]})
                    claims.append(z3.BoolVal(bool(ok)))
        # FunDefOp delegates to the FunDef arm with the slot copied
        fn_ex, _ind, vals, out = printkern.run_arm(run, mir, "FunDefOp")
        for p, d in out:
            calls_ = [ev for ev in p.events if ev["name"].split("::")[-1] == "to_py"]
            ok = False
            if len(calls_) == 1:
                a = calls_[0]["args"][0]
                a = fn_ex.read_ref(p.state, a) if isinstance(a, Ref) else a
                if isinstance(a, Agg) and a.variant == "FunDef" and a.names:
                    tyv = a.fields[a.names.index("ty")]
                    ok = z3.eq(fn_ex.to_val(p.state, tyv), fn_ex.to_val(p.state, vals["ty"])) and d == [("slot", "to_py", d[0][2], 0)] if d else False
            n += 1
            claims.append(z3.BoolVal(bool(ok)))
        if n < 9:
            raise Unsupported(f"only {n} comparisons")
        e2.prove(run, ob, ex, [], conj(claims), {}, fam_replay(rp, "printer"))
        run.samples.append({"obligation": ob.id, "comparisons": n})
    except Unsupported as e:
        ob.inconclusive(str(e))


def run(run):
    mir = e2.load_mir(run)
    rp = common.Replay()
    run.assume("inductive hypothesis: recursive conversions (convert_node/convert_vec) are themselves inert, so their results "
               "are compared with the annotate field of the State argument erased",
               "Imports is a write-only accumulator (typing imports may differ between the two runs)",
               "Name::to_py / ToPy callees only return an annotation and add imports (they take no State)",
               "verdict equality: the flag is not read before generation (checked: the readers are enumerated from the MIR)")
    run.trusted += ["rustc nightly MIR dump", "mirsym MIR semantics", "z3", "python3 ast (replay comparison)"]
    sf = re.findall(r"pub (\w+):", re.search(r"pub struct State \{(.*?)\n\}", common.read_repo(STATE_RS), re.S).group(1))
    if "annotate" not in sf:
        run.ob("readers", "E2", "State::annotate exists").inconclusive("State has no annotate field any more")
        rp.close()
        return
    idx = sf.index("annotate")
    readers = readers_of_annotate(mir, idx)
    ob0 = run.ob("readers", "E2", "the functions that read State::annotate are exactly the ones encoded below", ["(all MIR items)"])
    std_sig = {}
    import glob
    import os
    for path in sorted(glob.glob(os.path.join(common.REPO, "src/generate/convert/*.rs"))):
        for m in re.finditer(r"fn (\w+)\(\s*ast: &ASTTy,\s*imp: &mut Imports,\s*state: &State,\s*ctx: &Context,?\s*\) -> GenResult \{",
                             open(path).read()):
            std_sig[m.group(1)] = os.path.relpath(path, common.REPO)
    known = set(std_sig)
    names = sorted(f.name for f in readers)
    extra = [n for n in names if n.split("::")[-1] not in known and not n.endswith("State as Clone>::clone") and "::clone" not in n and "::fmt" not in n]
    if extra:
        ob0.inconclusive(f"new reader(s) of the flag without an obligation: {extra}")
    else:
        ob0.discharged(f"readers: {names}", 0, 0)
    run.samples.append({"obligation": ob0.id, "readers": names})

    targets = [("convert_def", DEF_RS), ("convert_class", CLASS_RS)]
    for f in readers:
        short = f.name.split("::")[-1]
        if short not in [t[0] for t in targets] and short in std_sig:
            targets.append((short, std_sig[short]))
    for short, file in targets:
        noninterference(run, mir, rp, short, file, sf)
    ob_annotation_slots(run, mir, rp)
    ob_pipeline(run, mir, rp)
    ob_printer_erasure(run, mir, rp)

    if run.clean():
        n, bad = program_family(rp)
        run.validated += n
        if bad:
            run.ob("family-annotate", "native", "both annotate settings agree on the program family").inconclusive(str(bad[:2])[:600])
    rp.close()
