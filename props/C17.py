"""C17 — the output's Python API mirrors the Mamba definitions: signature kernels (E2 + z3)."""
import re
import z3

import common
import e2
from e2 import conj, disj, opq, calls, result_kind
from mirsym import Exec, State, Opq, Agg, Ref, StrC, Seq, Val, Unsupported
from props import C01, C12, C15

LEVEL = "model_checking"
EXPLANATION = ("The kernels that decide the emitted signatures are executed symbolically from MIR: convert_def (function name, "
               "parameters converted in source order, variadic marker, defaults), the operator table (CoreFunOp::from and its "
               "Display round-trip against the documented dunder names), class.rs init (the constructor's parameter list is the "
               "user's or the class arguments, with self first), the closure that turns parent expressions into the inheritance "
               "list, and the closure that keys class-body statements by their own name. z3 decides each claim; models are "
               "replayed by calling the generated module from Python.")

CLASS_RS = "src/generate/convert/class.rs"
NODE_RS = "src/generate/ast/node.rs"
PY_RS = "src/check/context/function/python.rs"
# documented operator methods (docs/features: operator overloading): Mamba spelling -> dunder
OPERATORS = {"Add": ("+", "__add__", "a + b"), "Sub": ("-", "__sub__", "a - b"), "Mul": ("*", "__mul__", "a * b"),
             "Div": ("/", "__truediv__", "a / b"), "FDiv": ("//", "__floordiv__", "a // b"), "Pow": ("^", "__pow__", "a ** b"),
             "Mod": ("mod", "__mod__", "a % b"), "Eq": ("=", "__eq__", "a == b"), "Ge": (">", "__gt__", "a > b"),
             "Le": ("<", "__lt__", "a < b")}
ALSO = {"Geq": "__ge__", "Leq": "__le__", "Neq": "__ne__"}


def api_family(rp, only=None, extra_names=()):
    """(role, Mamba source, Python caller, expected stdout)."""
    progs = [(f"operator-undocumented-key-{nm}", f"def {nm}(a: Int) -> Int => a + 1\nclass W\n    def {nm}(self, a: Int) -> Int => a + 2", f"print({nm}(2), W().{nm}(2))", "3 4")
             for nm in extra_names if re.fullmatch(r"[A-Za-z_][A-Za-z0-9_]*", nm)]
    progs += [
        ("positional-and-keyword", "def f(x: Int, y: Int := 3) -> Int => x - y", "print(f(10), f(10, 1), f(y=1, x=5))", "7 9 4"),
        ("vararg", "def f(vararg xs: Int) -> Int => 3", "print(f(1, 2, 3))", "3"),
        ("vararg-class-argument-and-method", "class Bag(vararg items: Int)\n    def count: Int := 0\n    def add(self, first: Int, vararg more: Int) -> Int => first",
         "b = Bag(1, 2, 3); print(b.count, b.add(7, 8, 9))", "0 7"),
        ("abstract-type-parent-without-body", "type Shape\n    def area(self) -> Int\ntype Solid: Shape\nclass Cube(def side: Int): Solid\n    def area(self) -> Int => self.side * self.side",
         "print([b.__name__ for b in Solid.__bases__], issubclass(Cube, Shape), Cube(3).area())", "['Shape'] True 9"),
        ("abstract-type-parent-with-body", "type Shape\n    def area(self) -> Int\ntype Solid: Shape\n    def volume(self) -> Int\nclass Cube(def side: Int): Solid\n    def area(self) -> Int => self.side * self.side\n    def volume(self) -> Int => self.side",
         "print([b.__name__ for b in Solid.__bases__], issubclass(Cube, Shape), Cube(3).volume())", "['Shape'] True 3"),
        ("abstract-type-parent-last-line", "type Shape\n    def area(self) -> Int\ntype Solid: Shape", "print([b.__name__ for b in Solid.__bases__])", "['Shape']"),
        ("method-parameters", "class A\n    def m(self, p: Int, q: Int := 2) -> Int => p - q", "print(A().m(5), A().m(q=1, p=9))", "3 8"),
        ("constructor-class-arguments", "class P(def x: Int, def y: Int := 7)", "p = P(1); q = P(y=2, x=3); print(p.x, p.y, q.x, q.y)", "1 7 3 2"),
        ("constructor-user-init", "class B\n    def v: Int := 0\n    def __init__(self, a: Int, b: Int) => self.v := a - b", "print(B(5, 2).v, B(b=1, a=9).v)", "3 8"),
        ("constructor-parent-then-user", "class Base(def name: Str)\nclass C: Base(\"fixed\")\n    def extra: Int := 0\n    def __init__(self, n: Int) => self.extra := n + 1",
         "c = C(4); print(c.name, c.extra)", "fixed 5"),
        ("constructor-field-from-class-argument", "class Base(def name: Str)\nclass C(def n: Int, tag: Str): Base(tag)", "c = C(4, 't'); print(c.n, c.name, hasattr(c, 'tag'))", "4 t False"),
        ("constructor-parent-initialised-first", "class Base(def name: Str)\nclass C: Base(\"fixed\")\n    def label: Str := \"\"\n    def __init__(self) => self.label := self.name",
         "print(C().label)", "fixed"),
        ("constructor-with-parent", "class Base(def name: Str)\nclass C(def n: Int): Base(\"c\")", "c = C(4); print(c.n, c.name, [k.__name__ for k in C.__bases__])", "4 c ['Base']"),
        ("inheritance-order", "class M1\n    def who(self) -> Str => \"m1\"\nclass M2\n    def who(self) -> Str => \"m2\"\nclass D: M1, M2",
         "print(D().who(), [k.__name__ for k in D.__bases__])", "m1 ['M1', 'M2']"),
        ("methods-exist", "class E\n    def a(self) -> Int => 1\n    def b(self) -> Int => 2\n    def c: Int := 3", "e = E(); print(e.a(), e.b(), e.c)", "1 2 3"),
    ]
    for k, (sym, dunder, use) in OPERATORS.items():
        ret = "Bool" if k in ("Eq", "Ge", "Le") else "Int"
        val = "True" if ret == "Bool" else "41"
        progs.append((f"operator-{k}", f"class V(def x: Int)\n    def {sym} (self, other: V) -> {ret} => {val}",
                      f"a, b = V(1), V(2); print({use}, hasattr(V, '{dunder}'))", f"{val} True"))
    for k, (dunder, use) in {"Geq": ("__ge__", "a >= b"), "Leq": ("__le__", "a <= b"), "Neq": ("__ne__", "a != b")}.items():
        progs.append((f"operator-{k}", f"class V(def x: Int)\n    def {dunder}(self, other: V) -> Bool => True\n    def > (self, other: V) -> Bool => False",
                      f"a, b = V(1), V(2); print({use}, hasattr(V, '{dunder}'), a > b)", "True True False"))
    bad, n = [], 0
    for role, src, caller, want in progs:
        if only and not any(role.startswith(o) for o in only):
            continue
        n += 1
        st, out = rp.transpile(src)
        if st != "OK":
            bad.append({"role": role, "src": src, "why": f"{st}: {out[:160]}"})
            continue
        rc, so, se = C01.py_run(out + "\n" + caller + "\n")
        if rc != 0 or so.strip() != want:
            bad.append({"role": role, "src": src, "why": f"Python caller {caller!r} prints {so.strip()!r} (rc={rc} {se[-120:]}), the Mamba signature gives {want!r}; emitted {out.strip()[:300]!r}"})
    return n, bad


def fam_replay(rp, prefix, only=None, extra_names=()):
    def f(model):
        n, bad = api_family(rp, only, extra_names)
        if bad:
            return {"reproduced": True, "role": f"{prefix}:{bad[0]['role']}", "detail": f"{bad[0]['src']!r}: {bad[0]['why']}",
                    "all_roles": [b["role"] for b in bad]}
        return {"reproduced": False, "detail": f"{n} Python callers behave as the Mamba signatures read"}
    return f


def ob_operator_table(run, mir, rp):
    ob = run.ob("operator-dunder-table", "E2+z3", "CoreFunOp::from recognises exactly the documented operator method names, and Display of the "
                "operator it returns prints the same name (round trip), so `def + (..)` is emitted as __add__ etc.",
                ["CoreFunOp::from", "Display for CoreFunOp", "Display for NodeOp"])
    try:
        consts = dict(re.findall(r'pub const (\w+): &str = "([^"]*)"', common.read_repo(PY_RS)))
        src = common.read_repo(NODE_RS)
        m = re.search(r"impl Display for CoreFunOp \{(.*?)\n\}\n", src, re.S)
        if not m:
            raise Unsupported("Display for CoreFunOp not found")
        shown = {v: consts.get(c, "?" + c) for v, c in re.findall(r"CoreFunOp::(\w+)\s*=>\s*function::python::(\w+)", m.group(1))}
        nsrc = common.read_repo("src/parse/ast/node_op.rs")
        nodeop = {v: consts.get(c, "?" + c) for v, c in re.findall(r"NodeOp::(\w+)\s*=>\s*write!\(f,\s*\"\{(\w+)\}\"\)", nsrc)}
        fn = e2.find1(mir, file=NODE_RS, impl="impl CoreFunOp", name="from")
        ex = Exec(mir, max_paths=2000)
        want = {d: k for k, (_s, d, _u) in OPERATORS.items()}
        want.update({d: k for k, d in ALSO.items()})
        # every spelling the function compares its argument with (string constants of the path conditions of a run on a symbolic name)
        st = State()
        ends_sym = e2.run_kernel(run, ex, fn, [Opq(z3.Const("lit", Val), "&str")], st)
        keys = {m_ for p in ends_sym for cnd in p.cond for m_ in re.findall(r"str:([^\s,()]+)", str(cnd))}
        if len(keys) < len(want) // 2:
            raise Unsupported(f"only {len(keys)} compared spellings found in CoreFunOp::from")
        pool = sorted(set(want) | keys | {"__init__", "__str__", "size", "f", "__radd__", "__iadd__"})
        got = {}
        for lit in pool:
            st = State()
            ends = e2.run_kernel(run, ex, fn, [StrC(lit)], st)
            rets = [p for p in ends if p.kind == "return"]
            if len(rets) != 1:
                raise Unsupported(f"CoreFunOp::from({lit!r}): {len(rets)} return paths")
            r = rets[0].ret
            got[lit] = r.fields[0].variant if isinstance(r, Agg) and r.variant == "Some" and isinstance(r.fields[0], Agg) else None
        # symbolic name as well: nothing but the listed names is an operator
        st = State()
        sym = Opq(z3.Const("lit", Val), "&str")
        ends = e2.run_kernel(run, ex, fn, [sym], st)
        idx = z3.Int("name")
        g, w, rt = z3.IntVal(-1), z3.IntVal(-1), z3.BoolVal(True)
        ops = sorted(set(want.values()) | {v for v in got.values() if v})
        for i, lit in enumerate(pool):
            g = z3.If(idx == i, z3.IntVal(ops.index(got[lit]) if got[lit] else -2), g)
            w = z3.If(idx == i, z3.IntVal(ops.index(want[lit]) if lit in want else -2), w)
            rt = z3.If(idx == i, z3.BoolVal(got[lit] is None or shown.get(got[lit]) == lit), rt)
        parse_ok = all(nodeop.get(k) == d for k, (_s, d, _u) in OPERATORS.items())
        dom = z3.And(idx >= 0, idx < len(pool))
        found, block = [], []
        for _ in range(len(pool) + 1):
            r_, m_, dt, _s = e2.solve(ex, [dom, z3.Not(z3.And(g == w, rt, z3.BoolVal(parse_ok)))] + block)
            ob.solver_s += dt
            ob.queries += 1
            if r_ != z3.sat:
                break
            ki = m_.eval(idx).as_long()
            found.append(pool[ki])
            block.append(idx != ki)
        ob.reach = "sat"
        run.samples.append({"obligation": ob.id, "from": got, "display": shown, "parser_spelling": nodeop})
        if not found:
            ob.discharged(f"unsat over {len(pool)} names ({len(want)} documented operators)")
        else:
            rep = fam_replay(rp, "operator-table", only=["operator-"], extra_names=[k for k in found if k not in want])({})
            if rep["reproduced"]:
                ob.violated(rep["role"], {"names": found, "from": {k: got[k] for k in found}}, rep, rep["detail"])
            else:
                ob.inconclusive(f"solver reports {found} as mis-mapped ({ {k: got[k] for k in found} }; parser spelling ok: {parse_ok}) but the Python callers behave as documented")
    except Unsupported as e:
        ob.inconclusive(str(e))


def ob_init_arguments(run, mir, rp):
    ob = run.ob("init-arguments", "E2", "class.rs init: the synthesised / merged constructor is called __init__, carries no decorator, and its "
                "parameter list is the user's constructor's (if there is one) or the class arguments, unchanged and in order, with `self` "
                "put in front exactly when it is not already first", ["init", "init::{closure}"])
    try:
        lay = e2.rust_enum(NODE_RS, "Core")
        fn = e2.find1(mir, file=CLASS_RS, name="init")
        import mirsym

        def m_first(ex_, st_, fr, callee, a, at, dty):
            v = mirsym._deref_val(ex_, st_, a[0])
            if isinstance(v, Seq):
                if not v.parts:
                    return Agg("Option", "None", [])
                if v.parts[0][0] == "item":
                    return Agg("Option", "Some", [v.parts[0][1]])
            return NotImplemented
        # Vec::from(&[T]) copies the slice: the same sequence of values; first() of a known-empty vector is None
        ex = Exec(mir, max_paths=20000, models=[(r"^<Vec<.*> as From<&\[.*\]>>::from$", lambda ex_, st_, fr, callee, a, at, dty: mirsym._deref_val(ex_, st_, a[0])),
                                                (r"::first$", m_first)])
        st = State()
        fields = {f: e2.opq("old_init." + f, "?") for f in lay["FunDef"]}
        fundef = e2.mk_variant(NODE_RS, "Core", "FunDef", fields)
        is_fundef = z3.Bool("old_init.is_fundef")
        kinds = ex.enum_variants("Core")
        other = z3.Int("old_init.other_kind")
        core = Opq(z3.Const("old_init", Val), "Core", {("d",): z3.If(is_fundef, z3.IntVal(kinds.index("FunDef")), other), ("v", "FunDef"): fundef})
        oi, some = e2.sym_option("old_init_opt", Ref(ex.new_cell(st, core)), "Option<&Core>")
        class_args = e2.opq("class_args", "[Core]")
        args = [Ref(ex.new_cell(st, oi)), Ref(ex.new_cell(st, class_args)), Ref(ex.new_cell(st, e2.opq("parents", "[Core]")))]
        pre = [z3.Or(is_fundef, z3.And(other >= 0, other < len(kinds), other != kinds.index("FunDef")))]
        ends = e2.run_kernel(run, ex, fn, args, st, pre)
        claims, n = [], 0
        for p in ends:
            if p.kind == "panic":
                continue
            if p.kind != "return" or result_kind(p) != "Ok":
                raise Unsupported(f"unexpected path end {p}")
            r = p.ret.fields[0]
            if isinstance(r, Agg) and r.variant == "None":
                continue
            if not (isinstance(r, Agg) and r.variant == "Some" and isinstance(r.fields[0], Agg) and r.fields[0].variant == "FunDef"):
                raise Unsupported(f"result {str(r)[:100]}")
            n += 1
            fd = r.fields[0]
            get = lambda k: fd.fields[list(fd.names).index(k)]
            s = p.state
            shape = isinstance(get("id"), StrC) and get("id").s == "__init__" and isinstance(get("dec"), Seq) and not get("dec").parts
            arg = get("arg")
            # the base list: user's parameters / class arguments / nothing (a non-function named __init__)
            base_user = ex.to_val(s, fields["arg"])
            base_cls = ex.to_val(s, class_args)
            if isinstance(arg, Seq):
                parts = list(arg.parts)
                has_self = bool(parts) and parts[0][0] == "item" and isinstance(parts[0][1], Agg) and parts[0][1].variant == "Id" \
                    and isinstance(parts[0][1].fields[0], StrC) and parts[0][1].fields[0].s == "self"
                rest = Seq(parts[1:]) if has_self else arg
                restv = ex.to_val(s, rest)
                empty = ex.to_val(s, Seq([]))
                base_ok = z3.If(some, z3.If(is_fundef, restv == ex.uf("seq:cat", Val, Val, Val)(empty, base_user), restv == empty),
                                restv == ex.uf("seq:cat", Val, Val, Val)(empty, base_cls))
                claims.append(z3.Implies(conj(p.cond), z3.And(z3.BoolVal(shape and has_self), base_ok)))
            else:
                # passed through unchanged: only when its first parameter already is self
                v = ex.to_val(s, arg)
                base_ok = z3.If(some, z3.And(is_fundef, v == base_user), v == base_cls)
                first_self = any("str:self" in str(c) and not str(c).startswith("Not(") for c in p.cond)
                claims.append(z3.Implies(conj(p.cond), z3.And(z3.BoolVal(shape and first_self), base_ok)))
        if not n:
            raise Unsupported("no path builds a constructor")
        e2.prove(run, ob, ex, pre, conj(claims), {"old_init.is_some": some, "old_init.is_fundef": is_fundef},
                 fam_replay(rp, "init-arguments", only=["constructor-"]))
        run.samples.append({"obligation": ob.id, "paths": len(ends), "constructor_paths": n})
    except Unsupported as e:
        ob.inconclusive(str(e))


def ob_class_closures(run, mir, rp):
    ob = run.ob("parents-and-keys", "E2", "extract_class: a parent `P(args)` / `P` contributes exactly the name P to the inheritance list (the "
                "list is the element-wise image of the parents, so their order is kept); a function / operator in the body is keyed by its "
                "own name and a field by its own variable, so different definitions never overwrite each other",
                ["extract_class::{closure} (parent name)", "extract_class::{closure} (statement key)"])
    try:
        f_par = C12.closure_by_sig(mir, "extract_class", "&Core", "Result<Core,Box<UnimplementedErr>>")
        f_key = C12.closure_by_sig(mir, "extract_class", "(usize,&Core)")
        ex = Exec(mir, max_paths=2000)
        lay = e2.rust_enum(NODE_RS, "Core")
        claims = []
        # parent closure
        for shape in ("call", "type"):
            st = State()
            lit = e2.opq("parent.lit", "String")
            ty = e2.mk_variant(NODE_RS, "Core", "Type", {"lit": lit, "generics": e2.opq("parent.generics", "Vec<Core>")})
            par = ty if shape == "type" else e2.mk_variant(NODE_RS, "Core", "FunctionCall", {"function": ty, "args": e2.opq("parent.args", "Vec<Core>")})
            env = Ref(ex.new_cell(st, Agg("closure", f_par.args[0][1], [])))
            ends = e2.run_kernel(run, ex, f_par, [env, Ref(ex.new_cell(st, par))], st)
            rets = [p for p in ends if p.kind == "return"]
            if len(rets) != 1 or result_kind(rets[0]) != "Ok":
                raise Unsupported(f"parent closure on a {shape}: {[str(p)[:80] for p in ends]}")
            r = rets[0].ret.fields[0]
            s = rets[0].state
            if shape == "call":
                ok = isinstance(r, Agg) and r.variant == "Id"
                claims.append(z3.And(z3.BoolVal(ok), ex.to_val(s, r.fields[0]) == ex.to_val(s, lit)) if ok else z3.BoolVal(False))
            else:
                claims.append(ex.to_val(s, r) == ex.to_val(s, ty))
        # key closure
        for variant in ("FunDef", "FunDefOp", "VarDef"):
            st = State()
            vals = {f: e2.opq(f"{variant}.{f}", "?") for f in lay[variant]}
            stmt = e2.mk_variant(NODE_RS, "Core", variant, vals)
            env = Ref(ex.new_cell(st, Agg("closure", f_key.args[0][1], [])))
            i = z3.BitVec("i", 64)
            ends = e2.run_kernel(run, ex, f_key, [env, Agg("tuple", None, [i, Ref(ex.new_cell(st, stmt))])], st)
            rets = [p for p in ends if p.kind == "return"]
            if len(rets) != 1:
                raise Unsupported(f"key closure on {variant}: {len(rets)} return paths")
            key = rets[0].ret.fields[0]
            kept = rets[0].ret.fields[1].fields[1]
            s = rets[0].state
            claims.append(ex.to_val(s, kept) == ex.to_val(s, stmt))
            if variant == "FunDef":
                ok = isinstance(key, Agg) and key.variant == "Id"
                claims.append(z3.And(z3.BoolVal(ok), ex.to_val(s, key.fields[0]) == ex.to_val(s, vals["id"])) if ok else z3.BoolVal(False))
            elif variant == "VarDef":
                claims.append(ex.to_val(s, key) == ex.to_val(s, vals["var"]))
            else:
                ok = isinstance(key, Agg) and key.variant == "Id"
                fm = [ev for ev in rets[0].events if ev["name"] == "format"]
                claims.append(z3.BoolVal(ok and bool(fm)))
        e2.prove_each(run, ob, ex, [], claims, {}, fam_replay(rp, "parents-and-keys", only=["inheritance-", "methods-", "constructor-with-parent", "operator-"]))
    except Unsupported as e:
        ob.inconclusive(str(e))


def ob_constructor_assembly(run, mir, rp):
    ob = run.ob("constructor-assembly", "E2", "class.rs init: the constructor body is [one `Parent.__init__(self, <parent args>)` per parent, in "
                "order] ++ [the user's constructor statements] ++ [`self.x = x` for the class arguments that were not handed to a parent]; the "
                "closures build exactly those calls and assignments", ["init", "init::{closure#0..3}"])
    try:
        ex = Exec(mir, max_paths=2000)
        claims = []

        def one(name, argty_pred):
            c = [f for n, f in mir.fns.items() if re.match(r"^init::\{closure#\d+\}$", n) and len(f.args) == 2 and argty_pred(f)]
            if len(c) != 1:
                raise Unsupported(f"init closure {name}: {len(c)} candidates")
            return c[0]
        f0 = one("parent call", lambda f: f.args[1][1].strip() == "&Core" and f.ret.replace(" ", "") == "(Core,Vec<Core>)")
        f1 = one("argument variable", lambda f: f.args[1][1].strip() == "&Core" and f.ret.replace(" ", "") == "Option<Core>")
        f3 = one("assignment", lambda f: f.args[1][1].strip() == "Core" and f.ret.strip() == "Core")
        is_id = lambda v, s_: isinstance(v, Agg) and v.variant == "Id" and isinstance(v.fields[0], StrC) and v.fields[0].s == s_
        for shape in ("call", "type"):
            st = State()
            lit = e2.opq("p.lit", "String")
            ty = e2.mk_variant(NODE_RS, "Core", "Type", {"lit": lit, "generics": e2.opq("p.generics", "Vec<Core>")})
            pargs = e2.opq("p.args", "Vec<Core>")
            par = ty if shape == "type" else e2.mk_variant(NODE_RS, "Core", "FunctionCall", {"function": ty, "args": pargs})
            env = Ref(ex.new_cell(st, Agg("closure", f0.args[0][1].lstrip("&").replace("mut ", "").strip(), [])))
            ends = e2.run_kernel(run, ex, f0, [env, Ref(ex.new_cell(st, par))], st)
            rets = [p for p in ends if p.kind == "return"]
            ok = False
            if len(rets) == 1 and isinstance(rets[0].ret, Agg) and len(rets[0].ret.fields) == 2:
                call, args = rets[0].ret.fields
                if isinstance(call, Agg) and call.variant == "PropertyCall":
                    obj, prop = call.fields
                    good_obj = isinstance(obj, Agg) and obj.variant == "Id" and z3.eq(ex.to_val(st, obj.fields[0]), lit.term)
                    good_prop = isinstance(prop, Agg) and prop.variant == "FunctionCall" and is_id(prop.fields[0], "__init__")
                    if good_obj and good_prop and isinstance(prop.fields[1], Seq) and isinstance(args, Seq):
                        parts = prop.fields[1].parts
                        self_first = bool(parts) and parts[0][0] == "item" and is_id(parts[0][1], "self")
                        rest_ok = (len(parts) == 1) if shape == "type" else (len(parts) == 2 and parts[1][0] == "opq" and z3.eq(parts[1][1], pargs.term))
                        same_args = str(prop.fields[1]) == str(args)
                        ok = self_first and rest_ok and same_args
            claims.append(z3.BoolVal(bool(ok)))
        # assignment closure: self.<var> = <var>
        st = State()
        var = e2.opq("var", "Core")
        env = Ref(ex.new_cell(st, Agg("closure", f3.args[0][1].lstrip("&").replace("mut ", "").strip(), [])))
        ends = e2.run_kernel(run, ex, f3, [env, var], st)
        rets = [p for p in ends if p.kind == "return"]
        ok = False
        if len(rets) == 1 and isinstance(rets[0].ret, Agg) and rets[0].ret.variant == "Assign":
            a = rets[0].ret
            left, right, op = (a.fields[list(a.names).index(n)] for n in ("left", "right", "op"))
            ok = isinstance(left, Agg) and left.variant == "PropertyCall" and is_id(left.fields[0], "self") and \
                z3.eq(ex.to_val(st, left.fields[1]), var.term) and z3.eq(ex.to_val(st, right), var.term) and isinstance(op, Agg) and op.variant == "Assign"
        claims.append(z3.BoolVal(bool(ok)))
        # argument-variable closure: FunArg -> its variable, anything else -> nothing
        st = State()
        favar = e2.opq("fa.var", "Box<Core>")
        fa = e2.mk_variant(NODE_RS, "Core", "FunArg", {"vararg": z3.Bool("fa.vararg"), "var": favar, "ty": e2.opq("fa.ty", "?"), "default": e2.opq("fa.default", "?")})
        env = Ref(ex.new_cell(st, Agg("closure", f1.args[0][1].lstrip("&").replace("mut ", "").strip(), [])))
        ends = e2.run_kernel(run, ex, f1, [env, Ref(ex.new_cell(st, fa))], st)
        rets = [p for p in ends if p.kind == "return"]
        ok = len(rets) == 1 and isinstance(rets[0].ret, Agg) and rets[0].ret.variant == "Some" and z3.eq(ex.to_val(st, rets[0].ret.fields[0]), favar.term)
        claims.append(z3.BoolVal(bool(ok)))
        # order of the three parts in init
        lay = e2.rust_enum(NODE_RS, "Core")
        fn = e2.find1(mir, file=CLASS_RS, name="init")
        exi = Exec(mir, max_paths=20000)
        sti = State()
        body = e2.mk_variant(NODE_RS, "Core", "Block", {"statements": e2.opq("user.statements", "Vec<Core>")})
        fields = {f: e2.opq("old_init." + f, "?") for f in lay["FunDef"]}
        fields["body"] = body
        fundef = e2.mk_variant(NODE_RS, "Core", "FunDef", fields)
        oi = Agg("Option", "Some", [Ref(exi.new_cell(sti, fundef))])
        args = [Ref(exi.new_cell(sti, oi)), Ref(exi.new_cell(sti, e2.opq("class_args", "[Core]"))), Ref(exi.new_cell(sti, e2.opq("parents", "[Core]")))]
        ends = e2.run_kernel(run, exi, fn, args, sti)
        n_some = 0
        for p in ends:
            if p.kind != "return" or not (isinstance(p.ret, Agg) and p.ret.variant == "Ok"):
                continue
            r = p.ret.fields[0]
            if not (isinstance(r, Agg) and r.variant == "Some"):
                continue
            n_some += 1
            fd = r.fields[0]
            b = fd.fields[list(fd.names).index("body")]
            stmts = b.fields[0] if isinstance(b, Agg) and b.variant == "Block" else None
            ok = False
            if isinstance(stmts, Seq) and len(stmts.parts) == 3 and all(pt[0] == "opq" for pt in stmts.parts):
                t0, t1, t2 = (str(pt[1]).replace("\n", " ") for pt in stmts.parts)
                ok = ("unzip" in t0 and "parents" in t0 and t0.lstrip().startswith("p0:")) and ("user.statements" in t1) and \
                    ("class_args" in t2 and "filter" in t2 and "flat_map" in t2)
            claims.append(z3.Implies(conj(p.cond), z3.BoolVal(bool(ok))))
        if not n_some:
            raise Unsupported("init: no constructor path")
        e2.prove_each(run, ob, exi, [], claims, {}, fam_replay(rp, "constructor-assembly", only=["constructor-"]))
    except Unsupported as e:
        ob.inconclusive(str(e))


def ob_type_parent(run, mir, rp):
    ob = run.ob("type-definition-keeps-parent", "E2", "parse_type_def and the closure it hands to peek: every TypeDef / TypeAlias node built - with a body, "
                "without one, at the end of input, conditional - carries the type that was parsed and the parent that was parsed behind the `:` "
                "(the inheritance list of an abstract type starts here; checker and generator only see this node)",
                ["parse_type_def", "parse_type_def::{closure#0}"])
    try:
        import ckern
        from e2 import sym_option
        cl = [f for n, f in mir.fns.items() if re.match(r"^(.*::)?parse_type_def::\{closure#0\}$", n)]
        if len(cl) != 1 or len(cl[0].args) != 3:
            raise Unsupported(f"parse_type_def closure: {len(cl)} candidates")
        fnc = cl[0]
        order = sorted((int(m.group(1)), name) for name, place in fnc.debug.items() for m in [re.search(r"\(\*_1\)\.(\d+)", str(place))] if m)
        order = [n for _, n in order]
        if sorted(order) != ["isa", "start", "ty"]:
            raise Unsupported(f"closure captures changed: {order}")
        ex = Exec(mir, max_paths=5000)
        st = State()
        parent, _ = ckern.mk_ast("parent", opq("parent.node", "Node"))
        isa, isa_some = sym_option("isa", parent, "Option<Box<AST>>")
        ty, _ = ckern.mk_ast("ty", opq("ty.node", "Node"))
        capv = {"isa": Ref(ex.new_cell(st, isa)), "start": Ref(ex.new_cell(st, opq("start", "Position"))), "ty": Ref(ex.new_cell(st, ty))}
        env = Ref(ex.new_cell(st, Agg("closure", fnc.args[0][1].lstrip("&").strip(), [capv[n] for n in order])))
        ends = e2.run_kernel(run, ex, fnc, [env, Ref(ex.new_cell(st, opq("it", "LexIterator"))), Ref(ex.new_cell(st, opq("lex", "Lex")))], st)
        claims, built = [], set()

        def node_claims(p, exx, isa_v, ty_v, some):
            s_ = p.state
            out = []
            for a in calls(p, "AST::new"):
                n = a["args"][1]
                n = exx.read_ref(s_, n) if isinstance(n, Ref) else n
                if not isinstance(n, Agg) or n.variant not in ("TypeDef", "TypeAlias"):
                    out.append(z3.BoolVal(False))
                    continue
                built.add(n.variant + ("" if n.variant == "TypeAlias" else ("+body" if getattr(n.fields[list(n.names).index("body")], "variant", "") == "Some" else "")))
                f = lambda k: n.fields[list(n.names).index(k)]
                out.append(exx.to_val(s_, f("ty")) == exx.to_val(s_, ty_v))
                if n.variant == "TypeDef":
                    out.append(exx.to_val(s_, f("isa")) == exx.to_val(s_, isa_v))
                else:
                    out.append(z3.And(some, exx.to_val(s_, f("isa")) == exx.to_val(s_, exx.project(s_, isa_v, ("v", "Some")).fields[0])))
            return out
        n_ok = 0
        for p in ends:
            if result_kind(p) != "Ok":
                continue
            n_ok += 1
            cl_ = node_claims(p, ex, isa, ty, isa_some)
            claims.append(z3.Implies(conj(p.cond), conj(cl_ + [z3.BoolVal(len(cl_) >= 2)])))
        if n_ok < 3:
            raise Unsupported(f"closure: {n_ok} Ok paths")
        # the function itself: what it parsed is what the closure captures and what the end-of-input default carries
        fn = e2.find1(mir, file="src/parse/class.rs", name="parse_type_def")
        st2 = State()
        ends2 = e2.run_kernel(run, ex, fn, [Ref(ex.new_cell(st2, opq("it", "LexIterator")))], st2)
        n_peek = 0
        for p in ends2:
            pk = calls(p, "LexIterator::peek")
            if not pk:
                continue
            n_peek += 1
            s_ = p.state
            pi = calls(p, "LexIterator::parse_if")
            pa = calls(p, "LexIterator::parse")
            if len(pi) != 1 or len(pa) != 1:
                claims.append(z3.Not(conj(p.cond)))
                continue
            isa2 = ex.project(s_, ex.project(s_, pi[0]["ret"], ("v", "Ok")), ("f", 0), "Option<Box<AST>>")
            ty2 = ex.project(s_, ex.project(s_, pa[0]["ret"], ("v", "Ok")), ("f", 0), "Box<AST>")
            cl_ = node_claims(p, ex, isa2, ty2, z3.BoolVal(True))
            clo = pk[0]["args"][1]
            clo = ex.read_ref(s_, clo) if isinstance(clo, Ref) else clo
            caps_ok = z3.BoolVal(False)
            if isinstance(clo, Agg) and clo.ty == "closure" and len(clo.fields) == 3:
                rd = lambda v: ex.to_val(s_, ex.read_ref(s_, v) if isinstance(v, Ref) else v)
                caps_ok = z3.And(rd(clo.fields[order.index("isa")]) == ex.to_val(s_, isa2), rd(clo.fields[order.index("ty")]) == ex.to_val(s_, ty2))
            tok = pi[0]["args"][1]
            tok = ex.read_ref(s_, tok) if isinstance(tok, Ref) else tok
            claims.append(z3.Implies(conj(p.cond), conj(cl_ + [caps_ok, z3.BoolVal(len(cl_) >= 2 and getattr(tok, "variant", None) == "DoublePoint")])))
        if not n_peek:
            raise Unsupported("parse_type_def never reaches peek")
        if built != {"TypeDef", "TypeDef+body", "TypeAlias"}:
            raise Unsupported(f"node kinds built: {sorted(built)}")
        e2.prove_each(run, ob, ex, [], claims, {"a parent was parsed": isa_some}, fam_replay(rp, "type-parent", only=["abstract-type-"]))
        if ob.status == "discharged":
            n, bad = api_family(rp, ["abstract-type-"])
            run.validated += n
            if bad:
                ob.status = "pending"
                ob.inconclusive(f"abstract-type programs disagree although the kernel is as specified: {bad[:2]}")
    except Unsupported as e:
        ob.inconclusive(str(e))


def run(run):
    mir = e2.load_mir(run)
    rp = common.Replay()
    run.assume("recursive conversions are uninterpreted functions of the sub-tree they are given; convert_vec converts a list element-wise in order",
               "iterator map / collect keep the order of the slice they run over",
               "outside: the HashMap through which class bodies are re-ordered (only its keys and sort positions are encoded, see C12), the "
               "printer's parameter rendering (replayed, not encoded), keyword-only / positional-only markers (not in the language)")
    run.trusted += ["rustc nightly MIR dump", "mirsym MIR semantics", "z3", "python3 (replay callers)"]
    run.bounds = {"paths": "all paths of each kernel, loops cut at headers"}
    try:
        C01.ob_structure(run, mir, rp, only_fns=("convert_def",))
    except Unsupported as e:
        run.ob("structure-convert-def-encoding", "E2", "kernel is encodable").inconclusive(str(e))
    try:
        C15.ob_fundef_name(run, mir, rp)
    except Unsupported as e:
        run.ob("function-name-encoding", "E2", "kernel is encodable").inconclusive(str(e))
    ob_operator_table(run, mir, rp)
    ob_init_arguments(run, mir, rp)
    ob_class_closures(run, mir, rp)
    ob_constructor_assembly(run, mir, rp)
    ob_type_parent(run, mir, rp)
    if run.clean():
        n, bad = api_family(rp)
        run.validated += n
        if bad:
            run.ob("family-api", "native", "Python callers behave as the Mamba signatures read").inconclusive(str(bad[:2])[:700])
    rp.close()
