"""C03 — totality, restricted to lexer kernels and diagnostic rendering arithmetic (E2 + E1)."""
import os
import z3

import common
import e2
import lexkern
import poskern
from e2 import conj, disj
from lexkern import MAXN, SymState
from mirsym import Exec, State, Opq, Agg, Ref, Seq, Val, Unsupported
from poskern import MAXC, MAXL, valid_pos, sym_pos
from props import C18, C19

LEVEL = "model_checking"
EXPLANATION = ("Every overflow check, unwrap/expect and cast of the position, lexer-state and diagnostic-rendering "
               "kernels is a path end of the MIR executor; z3 shows each unreachable for all valid positions / lexer "
               "states within the bounds. Lexer steps additionally run under Kani (panic freedom, progress).")


UNIFY = "src/check/constrain/unify/"
MAXQ = 1 << 40      # constraints in a queue / `total` counter


def crash_family(rp):
    """Programs that must yield output or diagnostics - never a panic, abort or hang - whatever the unifier's queue does."""
    tup = ", ".join(str(i) for i in range(1, 31))
    progs = [
        ("reinsert-after-undercounted-pushes", f"def t := ({tup})\nprint(t)\nprint(t)\nprint(t)\nprint(t)\ndef f := \\x => x + 1"),
        ("reinsert-untyped-lambda-arith", "def f := \\x => x + 1"),
        ("reinsert-untyped-lambda-access", "def f := \\x => x.foo()"),
        ("reinsert-then-resolve", "class A\n    def v: Int := 1\ndef a := A()\ndef b := a.v + 1\nprint(b)"),
        ("tuple-print", "print((1, 2, 3, 4, 5, 6, 7, 8))\ndef f := \\x => x + 1"),
    ]
    bad = []
    for role, src in progs:
        st, out = rp.transpile(src)
        if st not in ("OK", "ERR"):
            bad.append({"role": role, "src": src, "status": st, "out": out[:200]})
    return len(progs), bad


def ob_unify_arith(run, mir, rp):
    """Queue arithmetic of the unifier: the progress counters are usize differences of `total` and the queue length."""
    def replay(model):
        n, bad = crash_family(rp)
        if bad:
            b = bad[0]
            return {"reproduced": True, "role": f"unify-arith:{b['role']}", "detail": f"program {b['src'][:160]!r}: {b['status']} {b['out']}"}
        return {"reproduced": False, "detail": f"{n} programs end with output or diagnostics"}
    for oid, file, name, nargs in (("unify-reinsert-arith", UNIFY + "link.rs", "reinsert", 3),
                                   ("unify-link-arith", UNIFY + "link.rs", "unify_link", 4),
                                   ("unify-type-arith", UNIFY + "ty.rs", "unify_type", 5)):
        try:
            fn = e2.find1(mir, file=file, name=name)
            ex = Exec(mir, max_paths=20000)
            st = State()
            total = z3.BitVec("total", 64)
            args = []
            for an, aty in fn.args:
                t = aty.strip()
                if t == "usize":
                    args.append(total)
                else:
                    args.append(Ref(ex.new_cell(st, Opq(z3.Const(f"arg{an}", Val), t.lstrip("&").replace("mut ", "").strip()))))
            ends = e2.run_kernel(run, ex, fn, args, st)
            lens = [ev["ret"] for p in ends for ev in p.events if ev["name"].endswith("Constraints::len")]
            pre = [z3.ULE(total, MAXQ)] + [z3.ULE(l, MAXQ) for l in lens if z3.is_bv(l)]
            names = {"total": total}
            for i, l in enumerate(lens[:1]):
                if z3.is_bv(l):
                    names["queue.len"] = l
            e2.no_panic(run, oid, f"{name}: no arithmetic panic for any queue length and `total` <= 2^40 (the queue may be longer "
                        "than `total`: pushes are not all counted)", ex, ends, pre, names, replay, [name])
        except Unsupported as e:
            run.ob(oid, "E2", f"{name} encodable").inconclusive(str(e))


def ob_reinsert_once(run, mir, rp):
    """Termination mechanism of unification: a constraint goes back into the queue at most once."""
    def replay(model):
        n, bad = crash_family(rp)
        if bad:
            b = bad[0]
            return {"reproduced": True, "role": f"reinsert-once:{b['role']}", "detail": f"program {b['src'][:160]!r}: {b['status']} {b['out']}"}
        return {"reproduced": False, "detail": f"{n} programs end with output or diagnostics"}
    ob = run.ob("unify-reinsert-once", "E2", "Constraints::reinsert refuses (Err) exactly the constraints that carry the flag, whatever "
                "their other fields are, and queues the flagged copy otherwise; Constraint::flag sets the flag", ["Constraints::reinsert", "Constraint::flag"])
    try:
        ITER = "src/check/constrain/constraint/iterator.rs"
        CMOD = "src/check/constrain/constraint/mod.rs"
        fn = e2.find1(mir, file=ITER, impl="impl Constraints", name="reinsert")
        ex = Exec(mir, max_paths=5000, inline=[r"Constraint::flag$"])
        st = State()
        cv, vals = e2.sym_struct(CMOD, "Constraint", "c")
        selfv = Ref(ex.new_cell(st, Opq(z3.Const("queue", Val), "Constraints")))
        ends = e2.run_kernel(run, ex, fn, [selfv, Ref(ex.new_cell(st, cv))], st)
        claims = []
        for p in ends:
            if p.kind != "return":
                raise Unsupported(f"unexpected path end {p}")
            c = conj(p.cond)
            kind = e2.result_kind(p)
            if kind is None:
                raise Unsupported(f"result {p.ret}")
            pushes = [ev for ev in p.events if ev["name"].endswith("push_back")]
            if kind == "Err":
                claims.append(z3.Implies(c, z3.And(vals["is_flag"], z3.BoolVal(not pushes))))
            else:
                ok = z3.BoolVal(False)
                if len(pushes) == 1:
                    item = pushes[0]["args"][1]
                    item = ex.read_ref(p.state, item) if isinstance(item, Ref) else item
                    if isinstance(item, Agg) and item.names and "is_flag" in item.names:
                        fl = item.fields[list(item.names).index("is_flag")]
                        same = [ex.to_val(p.state, a) == ex.to_val(p.state, vals[n]) for n, a in zip(item.names, item.fields)
                                if n not in ("is_flag",)]
                        ok = z3.And(fl == z3.BoolVal(True), *same)
                claims.append(z3.Implies(c, z3.And(z3.Not(vals["is_flag"]), ok)))
        e2.prove(run, ob, ex, [], conj(claims), {"constraint.is_flag": vals["is_flag"], "constraint.is_sub": vals["is_sub"]}, replay)
    except Unsupported as e:
        ob.inconclusive(str(e))


def ob_parser_loops(run, mir, rp):
    """The parser's generic loops go round only when there is a token left that is not Eof, and hand it to a body that succeeded."""
    ob = run.ob("parser-loop-guards", "E2", "LexIterator::peek_while_fn goes round its loop only if a token is left, the caller's test holds for "
                "it, it is not Eof and the loop body returned Ok (an error ends the loop at once); eat_while goes round only through eat_if on "
                "a token that compared equal - so every round trip either consumes a token or belongs to a body that did not fail",
                ["LexIterator::peek_while_fn", "LexIterator::eat_while"])
    try:
        IT_RS = "src/parse/iterator.rs"
        claims = []
        fn = e2.find1(mir, file=IT_RS, impl="LexIterator<'a>", name="peek_while_fn")
        ex = Exec(mir, max_paths=5000)
        tokens = ex.enum_variants("Token")
        st = State()
        args = []
        for an, aty in fn.args:
            t = aty.strip()
            args.append(Ref(ex.new_cell(st, Opq(z3.Const(f"a{an}", Val), t.lstrip("&").replace("mut ", "").strip()))) if t.startswith("&") else Opq(z3.Const(f"a{an}", Val), t))
        ends = e2.run_kernel(run, ex, fn, args, st)
        n_back = 0
        lexf = e2.rust_struct("src/parse/lex/token.rs", "Lex")
        for p in ends:
            if p.kind != "loop_back":
                continue
            n_back += 1
            s = p.state
            pk = [e_ for e_ in p.events if e_["name"].endswith("Peekable::peek")]
            chk = [e_ for e_ in p.events if e_["name"].endswith("Fn::call")]
            body = [e_ for e_ in p.events if e_["name"].endswith("FnMut::call_mut")]
            if not (pk and chk and body):
                claims.append(z3.Implies(conj(p.cond), z3.BoolVal(False)))
                continue
            lexv = ex.project(s, ex.project(s, pk[-1]["ret"], ("v", "Some")), ("f", 0), "&&Lex")
            tok = ex.project(s, lexv, ("f", lexf.index("token")), "Token")
            claims.append(z3.Implies(conj(p.cond), z3.And(ex.discr(s, pk[-1]["ret"], "Option") == 1,
                                                         chk[-1]["ret"] if z3.is_bool(chk[-1]["ret"]) else z3.BoolVal(False),
                                                         ex.discr(s, tok, "Token") != tokens.index("Eof"),
                                                         ex.discr(s, body[-1]["ret"], "Result") == 0)))
        fn2 = e2.find1(mir, file=IT_RS, impl="LexIterator<'a>", name="eat_while")
        ex2 = Exec(mir, max_paths=5000)
        st2 = State()
        a2 = [Ref(ex2.new_cell(st2, Opq(z3.Const("it", Val), "LexIterator"))), Ref(ex2.new_cell(st2, Opq(z3.Const("token", Val), "Token")))]
        ends2 = e2.run_kernel(run, ex2, fn2, a2, st2)
        claims2 = []
        for p in ends2:
            if p.kind != "loop_back":
                continue
            n_back += 1
            eq = [e_ for e_ in p.events if e_["name"].endswith("PartialEq::eq")]
            ei = [e_ for e_ in p.events if e_["name"].endswith("LexIterator::eat_if")]
            ok = bool(eq) and bool(ei) and z3.eq(ei[-1]["argvals"][1], ex2.to_val(p.state, a2[1]))
            claims2.append(z3.Implies(conj(p.cond), z3.And(z3.BoolVal(ok), eq[-1]["ret"] if eq and z3.is_bool(eq[-1]["ret"]) else z3.BoolVal(False))))
        if n_back < 2:
            raise Unsupported(f"{n_back} loop back edges")

        def replay(model):
            progs = ["def f(x: Int) => x +", "class A\n    def", "match x\n    1 =>", "if a then\n", "def x := [1, 2,", "def x := (1, 2", "import", "from a import",
                     "def f(a: Int, ", "x handle\n    err: E =>", "for i in", "def x := {1 => 2,", "class A: B(", "type T: Int when", "\\x: Int =>"]
            bad = []
            old = os.environ.get("VERIF_REPLAY_TIMEOUT")
            os.environ["VERIF_REPLAY_TIMEOUT"] = "20"       # a parser that needs 20 s for 20 characters does not terminate
            try:
                for src in progs:
                    stt, out = rp.transpile(src)
                    if stt not in ("OK", "ERR"):
                        bad.append((src, stt))
                        break
            finally:
                if old is None:
                    os.environ.pop("VERIF_REPLAY_TIMEOUT", None)
                else:
                    os.environ["VERIF_REPLAY_TIMEOUT"] = old
            if bad:
                return {"reproduced": True, "role": f"parser-loop:{bad[0][1]}", "detail": f"{bad[0][0]!r}: {bad[0][1]}"}
            return {"reproduced": False, "detail": f"{len(progs)} truncated programs end with diagnostics"}
        e2.prove(run, ob, ex, [], conj(claims), {}, replay)
        if ob.status == "discharged":
            ob.status = "pending"
            e2.prove(run, ob, ex2, [], conj(claims2), {}, replay)
    except Unsupported as e:
        ob.inconclusive(str(e))


def run(run):
    mir = e2.load_mir(run)
    rp = common.Replay()
    run.assume("positions: invisible() or all four coordinates in [1, 2^31-2]; lexer state: indents and caret in [1, 2^20]",
               "offset in {0,1}; <= 2^20 source lines; str::lines().nth / count, String::from_utf8 contract stubs",
               "formatting machinery uninterpreted; unwind edges not followed",
               "outside the claim: parser, context builder, constraint generation, unification, generation, "
               "stack depth and time bounds (not executable by Kani, not loop-free integer facts)")
    run.trusted += ["rustc nightly MIR dump (-C overflow-checks=on)", "mirsym MIR semantics", "z3", "Kani/CBMC (E1 part)"]
    run.bounds = {"coordinates": f"<= {MAXC}", "lexer_state": f"<= {MAXN}", "source_lines": f"<= {MAXL}"}

    # 1. rendering
    try:
        ex, st, ends, inp = poskern.run_format_location(run, mir)
        sl, sp, el, ep = inp["pos"]
        lines = poskern.lines_term(ex, st, inp["srcs"])
        L = ex.uf("linecount", Val, z3.BitVecSort(64))(ex.to_val(st, lines))
        pre = [valid_pos(inp["pos"]), z3.ULE(inp["offset"], 1), z3.ULE(L, MAXL)]
        names = {"pos.start.line": sl, "pos.start.pos": sp, "pos.end.line": el, "pos.end.pos": ep,
                 "offset": inp["offset"], "linecount": L, "source.is_some": inp["src_some"]}
        small = [z3.And(z3.ULE(L, 50), *[z3.ULE(x, 60) for x in inp["pos"]])]
        e2.no_panic(run, "render-location", "format_location + closures + get_width: no overflow, unwrap or cast panic "
                    "for any valid position", ex, ends, pre, names, C19.replay_render(rp, "render-location", panic_only=True),
                    ["format_location", "format_location::{closure#0..2}", "Position::get_width"], prefer=[small])
    except Unsupported as e:
        run.ob("render-location", "E2", "format_location encodable").inconclusive(str(e))

    # 2. format_err (loop over causes havocked)
    try:
        fn = e2.find1(mir, file=poskern.RESULT_RS, name="format_err")
        ex = Exec(mir, inline=poskern.POS_INLINE, models=poskern.POS_MODELS)
        st = State()
        pos, v = sym_pos("pos")
        some = z3.Bool("pos.is_some")
        posopt = Opq(z3.Const("posopt", Val), "Option<Position>",
                     {("d",): z3.If(some, z3.IntVal(1), z3.IntVal(0)), ("v", "Some"): Agg("Option", "Some", [pos])})
        f = Ref(ex.new_cell(st, Opq(z3.Const("f", Val), "Formatter")))
        args = [f, Opq(z3.Const("msg", Val), "&str"), Ref(ex.new_cell(st, Opq(z3.Const("path", Val), "Option<PathBuf>"))),
                posopt, Ref(ex.new_cell(st, Opq(z3.Const("source", Val), "Option<String>"))),
                Opq(z3.Const("causes", Val), "&[Cause]")]
        ends = e2.run_kernel(run, ex, fn, args, st)
        e2.no_panic(run, "render-err", "format_err (header, loop body over causes from a havocked loop state): no panic of its own",
                    ex, ends, [valid_pos(v)], {"pos.is_some": some}, C19.replay_render(rp, "render-err", panic_only=True), ["format_err"])
    except Unsupported as e:
        run.ob("render-err", "E2", "format_err encodable").inconclusive(str(e))

    # 3. State kernels
    for k in (0, 1, 2):
        try:
            ex, st, S, tok, ends = lexkern.run_state_token(run, mir, k)
            d = ex.discr(st, tok, "Token")
            slt = ex.to_val(st, ex.project(st, ex.project(st, tok, ("v", "Str")), ("f", 0), "std::string::String"))
            small = [z3.And(S.cur <= 41, S.li <= 41, z3.ULE(S.line, 50), z3.ULE(S.col, 50), z3.ULE(lexkern.nl_of(ex, slt), 2))]
            e2.no_panic(run, f"state-token-k{k}", f"State::token with {k} pending newline(s), any token: no overflow / cast panic",
                        ex, ends, [S.inv()], C18.names_of(S, {"token.discriminant": d, "str.newlines": lexkern.nl_of(ex, slt),
                                                              "str.tail_nonempty": lexkern.tail_of(ex, slt)}),
                        C18.state_replay(rp, ex, "state-token", k), ["State::token", "State::newline", "Lex::new"], prefer=[small])
        except Unsupported as e:
            run.ob(f"state-token-k{k}", "E2", "State::token encodable").inconclusive(str(e))
    for name in ("space", "flush_indents"):
        try:
            fn = e2.find1(mir, file=lexkern.STATE_RS, impl="impl State", name=name)
            ex = Exec(mir, inline=lexkern.STATE_INLINE, models=lexkern.LEX_MODELS)
            st = State()
            S = SymState(ex, st, 1)
            ends = e2.run_kernel(run, ex, fn, [S.ref], st)
            e2.no_panic(run, f"state-{name}", f"State::{name}: no overflow / cast panic", ex, ends, [S.inv()],
                        C18.names_of(S), C18.family_replay(rp, f"state-{name}"), [f"State::{name}"])
        except Unsupported as e:
            run.ob(f"state-{name}", "E2", f"State::{name} encodable").inconclusive(str(e))

    # 4. Lex::new, CaretPos, get_width, LexErr::fmt
    try:
        fn = e2.find1(mir, file=lexkern.TOKEN_RS, impl="impl Lex", name="new")
        ex = Exec(mir, inline=lexkern.STATE_INLINE, models=lexkern.LEX_MODELS)
        st = State()
        line, col = z3.BitVec("start.line", 64), z3.BitVec("start.pos", 64)
        tok = Opq(z3.Const("tok", Val), "Token")
        ends = e2.run_kernel(run, ex, fn, [Agg("CaretPos", None, [line, col]), tok], st)
        hyp = [z3.UGE(line, 1), z3.ULE(line, MAXN), z3.UGE(col, 1), z3.ULE(col, MAXN)]

        def rp_new(model):
            for kind, s_ in (("str", ""), ("str", "a\n"), ("doc", ""), ("doc", "a\nb"), ("id", "x")):
                stt, out = rp.req("lexnew", int(model.get("start.line", 1)) % 100000 + 1, int(model.get("start.pos", 1)) % 100000 + 1, kind, common.hexs(s_))
                if stt != "OK":
                    return {"reproduced": True, "role": f"lex-new:{kind}", "detail": f"Lex::new {kind}({s_!r}): {stt} {out[:80]}"}
            return {"reproduced": False, "detail": "Lex::new does not panic on the family"}
        e2.no_panic(run, "lex-new", "Lex::new: no overflow / cast panic for any token", ex, ends, hyp,
                    {"start.line": line, "start.pos": col}, rp_new, ["Lex::new"])
    except Unsupported as e:
        run.ob("lex-new", "E2", "Lex::new encodable").inconclusive(str(e))

    try:
        fn = e2.find1(mir, file=poskern.POSITION_RS, impl="impl Position", name="get_width")
        ex = Exec(mir, inline=poskern.POS_INLINE)
        st = State()
        pos, v = sym_pos("pos")
        ends = e2.run_kernel(run, ex, fn, [Ref(ex.new_cell(st, pos))], st)

        def rp_w(model):
            a = [int(model[k]) for k in ("pos.start.line", "pos.start.pos", "pos.end.line", "pos.end.pos")]
            stt, out = rp.req("width", *a)
            if stt != "OK":
                return {"reproduced": True, "role": "get-width:panic", "detail": f"get_width{tuple(a)}: {stt} {out[:80]}"}
            return {"reproduced": False, "detail": f"get_width{tuple(a)} = {out}"}
        e2.no_panic(run, "get-width", "Position::get_width: the `as i32` subtraction cannot overflow for columns <= 2^31-2",
                    ex, ends, [valid_pos(v)], {"pos.start.line": v[0], "pos.start.pos": v[1], "pos.end.line": v[2], "pos.end.pos": v[3]},
                    rp_w, ["Position::get_width"])
    except Unsupported as e:
        run.ob("get-width", "E2", "get_width encodable").inconclusive(str(e))
    try:
        import lexstep
        lexstep.obligations(run, mir, rp, C18.lexstep_replay(rp), want=("panic",))
    except Unsupported as e:
        run.ob("lexer-step-no-panic", "E2", "into_tokens encodable").inconclusive(str(e))
    ob_unify_arith(run, mir, rp)
    ob_reinsert_once(run, mir, rp)
    ob_parser_loops(run, mir, rp)
    if os.environ.get("VERIF_NO_KANI") != "1":
        import e1
        names = list(e1.QUICK_B) + ["step_other_char"]
        if run.tier == "thorough":
            fam = e1.kani_runner.FAMILIES
            names = fam["step2"] + fam["step3"] + fam["step_other"] + fam["state"]
        e1.run(run, names, lambda n: "panic freedom and progress of one real lexer step / State method (Kani: every reachable "
               "unwrap, overflow, index or slice panic is a failed check)", C18.kani_step_replay(rp), only_panics=True)
    rp.close()
