"""C03 — totality, restricted to lexer kernels and diagnostic rendering arithmetic (E2 + E1)."""
import os
import re
import z3

import common
import e2
import lexkern
import poskern
from e2 import conj, disj, result_kind
from lexkern import MAXN, SymState
from mirsym import Exec, State, Opq, Agg, Ref, Seq, Val, Unsupported
from poskern import MAXC, MAXL, valid_pos, sym_pos
from props import C18, C19

LEVEL = "model_checking"
EXPLANATION = ("Every overflow check, unwrap/expect and cast of the position, lexer-state and diagnostic-rendering "
               "kernels is a path end of the MIR executor; z3 shows each unreachable for all valid positions / lexer "
               "states within the bounds. Lexer steps additionally run under Kani (panic freedom, progress).")


UNIFY = "src/check/constrain/unify/"
MAXQ = 1 << 40      # constraints in a queue / `total` counter


def crash_family(rp):
    """Programs that must yield output or diagnostics - never a panic, abort or hang - whatever the unifier's queue does."""
    tup = ", ".join(str(i) for i in range(1, 31))
    progs = [
        ("reinsert-after-undercounted-pushes", f"def t := ({tup})\nprint(t)\nprint(t)\nprint(t)\nprint(t)\ndef f := \\x => x + 1"),
        ("reinsert-untyped-lambda-arith", "def f := \\x => x + 1"),
        ("reinsert-untyped-lambda-access", "def f := \\x => x.foo()"),
        ("reinsert-then-resolve", "class A\n    def v: Int := 1\ndef a := A()\ndef b := a.v + 1\nprint(b)"),
        ("tuple-print", "print((1, 2, 3, 4, 5, 6, 7, 8))\ndef f := \\x => x + 1"),
    ]
    bad = []
    for role, src in progs:
        st, out = rp.transpile(src)
        if st not in ("OK", "ERR"):
            bad.append({"role": role, "src": src, "status": st, "out": out[:200]})
    return len(progs), bad


def ob_unify_arith(run, mir, rp):
    """Queue arithmetic of the unifier: the progress counters are usize differences of `total` and the queue length."""
    def replay(model):
        n, bad = crash_family(rp)
        if bad:
            b = bad[0]
            return {"reproduced": True, "role": f"unify-arith:{b['role']}", "detail": f"program {b['src'][:160]!r}: {b['status']} {b['out']}"}
        return {"reproduced": False, "detail": f"{n} programs end with output or diagnostics"}
    for oid, file, name, nargs in (("unify-reinsert-arith", UNIFY + "link.rs", "reinsert", 3),
                                   ("unify-link-arith", UNIFY + "link.rs", "unify_link", 4),
                                   ("unify-type-arith", UNIFY + "ty.rs", "unify_type", 5)):
        try:
            fn = e2.find1(mir, file=file, name=name)
            ex = Exec(mir, max_paths=20000)
            st = State()
            total = z3.BitVec("total", 64)
            args = []
            for an, aty in fn.args:
                t = aty.strip()
                if t == "usize":
                    args.append(total)
                else:
                    args.append(Ref(ex.new_cell(st, Opq(z3.Const(f"arg{an}", Val), t.lstrip("&").replace("mut ", "").strip()))))
            ends = e2.run_kernel(run, ex, fn, args, st)
            lens = [ev["ret"] for p in ends for ev in p.events if ev["name"].endswith("Constraints::len")]
            pre = [z3.ULE(total, MAXQ)] + [z3.ULE(l, MAXQ) for l in lens if z3.is_bv(l)]
            names = {"total": total}
            for i, l in enumerate(lens[:1]):
                if z3.is_bv(l):
                    names["queue.len"] = l
            e2.no_panic(run, oid, f"{name}: no arithmetic panic for any queue length and `total` <= 2^40 (the queue may be longer "
                        "than `total`: pushes are not all counted)", ex, ends, pre, names, replay, [name])
        except Unsupported as e:
            run.ob(oid, "E2", f"{name} encodable").inconclusive(str(e))


def ob_reinsert_once(run, mir, rp):
    """Termination mechanism of unification: a constraint goes back into the queue at most once."""
    def replay(model):
        n, bad = crash_family(rp)
        if bad:
            b = bad[0]
            return {"reproduced": True, "role": f"reinsert-once:{b['role']}", "detail": f"program {b['src'][:160]!r}: {b['status']} {b['out']}"}
        return {"reproduced": False, "detail": f"{n} programs end with output or diagnostics"}
    ob = run.ob("unify-reinsert-once", "E2", "Constraints::reinsert refuses (Err) exactly the constraints that carry the flag, whatever "
                "their other fields are, and queues the flagged copy otherwise; Constraint::flag sets the flag", ["Constraints::reinsert", "Constraint::flag"])
    try:
        ITER = "src/check/constrain/constraint/iterator.rs"
        CMOD = "src/check/constrain/constraint/mod.rs"
        fn = e2.find1(mir, file=ITER, impl="impl Constraints", name="reinsert")
        ex = Exec(mir, max_paths=5000, inline=[r"Constraint::flag$"])
        st = State()
        cv, vals = e2.sym_struct(CMOD, "Constraint", "c")
        selfv = Ref(ex.new_cell(st, Opq(z3.Const("queue", Val), "Constraints")))
        ends = e2.run_kernel(run, ex, fn, [selfv, Ref(ex.new_cell(st, cv))], st)
        claims = []
        for p in ends:
            if p.kind != "return":
                raise Unsupported(f"unexpected path end {p}")
            c = conj(p.cond)
            kind = e2.result_kind(p)
            if kind is None:
                raise Unsupported(f"result {p.ret}")
            pushes = [ev for ev in p.events if ev["name"].endswith("push_back")]
            if kind == "Err":
                claims.append(z3.Implies(c, z3.And(vals["is_flag"], z3.BoolVal(not pushes))))
            else:
                ok = z3.BoolVal(False)
                if len(pushes) == 1:
                    item = pushes[0]["args"][1]
                    item = ex.read_ref(p.state, item) if isinstance(item, Ref) else item
                    if isinstance(item, Agg) and item.names and "is_flag" in item.names:
                        fl = item.fields[list(item.names).index("is_flag")]
                        same = [ex.to_val(p.state, a) == ex.to_val(p.state, vals[n]) for n, a in zip(item.names, item.fields)
                                if n not in ("is_flag",)]
                        ok = z3.And(fl == z3.BoolVal(True), *same)
                claims.append(z3.Implies(c, z3.And(z3.Not(vals["is_flag"]), ok)))
        e2.prove(run, ob, ex, [], conj(claims), {"constraint.is_flag": vals["is_flag"], "constraint.is_sub": vals["is_sub"]}, replay)
    except Unsupported as e:
        ob.inconclusive(str(e))


def ob_parser_loops(run, mir, rp):
    """The parser's generic loops go round only when there is a token left that is not Eof, and hand it to a body that succeeded."""
    ob = run.ob("parser-loop-guards", "E2", "LexIterator::peek_while_fn goes round its loop only if a token is left, the caller's test holds for "
                "it, it is not Eof and the loop body returned Ok (an error ends the loop at once); eat_while goes round only through eat_if on "
                "a token that compared equal - so every round trip either consumes a token or belongs to a body that did not fail",
                ["LexIterator::peek_while_fn", "LexIterator::eat_while"])
    try:
        IT_RS = "src/parse/iterator.rs"
        claims = []
        fn = e2.find1(mir, file=IT_RS, impl="LexIterator<'a>", name="peek_while_fn")
        ex = Exec(mir, max_paths=5000)
        tokens = ex.enum_variants("Token")
        st = State()
        args = []
        for an, aty in fn.args:
            t = aty.strip()
            args.append(Ref(ex.new_cell(st, Opq(z3.Const(f"a{an}", Val), t.lstrip("&").replace("mut ", "").strip()))) if t.startswith("&") else Opq(z3.Const(f"a{an}", Val), t))
        ends = e2.run_kernel(run, ex, fn, args, st)
        n_back = 0
        lexf = e2.rust_struct("src/parse/lex/token.rs", "Lex")
        for p in ends:
            if p.kind != "loop_back":
                continue
            n_back += 1
            s = p.state
            pk = [e_ for e_ in p.events if e_["name"].endswith("Peekable::peek")]
            chk = [e_ for e_ in p.events if e_["name"].endswith("Fn::call")]
            body = [e_ for e_ in p.events if e_["name"].endswith("FnMut::call_mut")]
            if not (pk and chk and body):
                claims.append(z3.Implies(conj(p.cond), z3.BoolVal(False)))
                continue
            lexv = ex.project(s, ex.project(s, pk[-1]["ret"], ("v", "Some")), ("f", 0), "&&Lex")
            tok = ex.project(s, lexv, ("f", lexf.index("token")), "Token")
            claims.append(z3.Implies(conj(p.cond), z3.And(ex.discr(s, pk[-1]["ret"], "Option") == 1,
                                                         chk[-1]["ret"] if z3.is_bool(chk[-1]["ret"]) else z3.BoolVal(False),
                                                         ex.discr(s, tok, "Token") != tokens.index("Eof"),
                                                         ex.discr(s, body[-1]["ret"], "Result") == 0)))
        fn2 = e2.find1(mir, file=IT_RS, impl="LexIterator<'a>", name="eat_while")
        ex2 = Exec(mir, max_paths=5000)
        st2 = State()
        a2 = [Ref(ex2.new_cell(st2, Opq(z3.Const("it", Val), "LexIterator"))), Ref(ex2.new_cell(st2, Opq(z3.Const("token", Val), "Token")))]
        ends2 = e2.run_kernel(run, ex2, fn2, a2, st2)
        claims2 = []
        for p in ends2:
            if p.kind != "loop_back":
                continue
            n_back += 1
            eq = [e_ for e_ in p.events if e_["name"].endswith("PartialEq::eq")]
            ei = [e_ for e_ in p.events if e_["name"].endswith("LexIterator::eat_if")]
            ok = bool(eq) and bool(ei) and z3.eq(ei[-1]["argvals"][1], ex2.to_val(p.state, a2[1]))
            claims2.append(z3.Implies(conj(p.cond), z3.And(z3.BoolVal(ok), eq[-1]["ret"] if eq and z3.is_bool(eq[-1]["ret"]) else z3.BoolVal(False))))
        if n_back < 2:
            raise Unsupported(f"{n_back} loop back edges")

        def replay(model):
            progs = ["def f(x: Int) => x +", "class A\n    def", "match x\n    1 =>", "if a then\n", "def x := [1, 2,", "def x := (1, 2", "import", "from a import",
                     "def f(a: Int, ", "x handle\n    err: E =>", "for i in", "def x := {1 => 2,", "class A: B(", "type T: Int when", "\\x: Int =>"]
            bad = []
            old = os.environ.get("VERIF_REPLAY_TIMEOUT")
            os.environ["VERIF_REPLAY_TIMEOUT"] = "20"       # a parser that needs 20 s for 20 characters does not terminate
            try:
                for src in progs:
                    stt, out = rp.transpile(src)
                    if stt not in ("OK", "ERR"):
                        bad.append((src, stt))
                        break
            finally:
                if old is None:
                    os.environ.pop("VERIF_REPLAY_TIMEOUT", None)
                else:
                    os.environ["VERIF_REPLAY_TIMEOUT"] = old
            if bad:
                return {"reproduced": True, "role": f"parser-loop:{bad[0][1]}", "detail": f"{bad[0][0]!r}: {bad[0][1]}"}
            return {"reproduced": False, "detail": f"{len(progs)} truncated programs end with diagnostics"}
        e2.prove(run, ob, ex, [], conj(claims), {}, replay)
        if ob.status == "discharged":
            ob.status = "pending"
            e2.prove(run, ob, ex2, [], conj(claims2), {}, replay)
    except Unsupported as e:
        ob.inconclusive(str(e))


CLSS_RS = "src/check/context/clss/mod.rs"


def _subterm_ids(t):
    seen, stack = set(), [t]
    while stack:
        x = stack.pop()
        if x.get_id() in seen:
            continue
        seen.add(x.get_id())
        stack.extend(x.children())
    return seen


def ob_class_recursion(run, mir, rp):
    """Context::class collects the ancestors of a class by recursion over its parents: termination needs a measure."""
    ob = run.ob("class-lookup-recursion-guarded", "E2", "the class look-up that inherits from the parents (recursively, through a closure over `parents`) carries "
                "the list of classes whose ancestors are being collected: it returns an error without recursing when the class it is asked for is in that "
                "list, and every recursive call gets the list extended by the current class name - so the recursion depth is bounded by the number of "
                "classes and a cyclic or self inheritance is a diagnostic, not a stack overflow", ["Context::class (+ the function and closure that recurse)"])
    try:
        cands = []
        for n, f in mir.fns.items():
            if not (f.impl_at and f.impl_at[0].endswith(CLSS_RS)) or "{closure" in n:
                continue
            kids = [g for m_, g in mir.fns.items() if m_.startswith(n + "::{closure#")]
            txt = " ".join(str(b.term) for g in kids for b in g.blocks.values() if b.term)
            if kids and re.search(r"LookupClass<.*>>::class|::class_\w+|Context::\w*class\w*", txt) and any("inherit" in str(b.term) for g in [f] + kids for b in g.blocks.values() if b.term):
                cands.append((n, f, kids))
        if len(cands) != 1:
            raise Unsupported(f"functions that inherit from recursively looked-up parents: {[c[0] for c in cands]}")
        name, fn, kids = cands[0]
        ex = Exec(mir, max_paths=20000)
        st = State()
        args, below, cname = [], None, None
        for an, aty in fn.args:
            t = aty.strip()
            if t.startswith("&[") or t.startswith("&Vec<") or t.startswith("&std::vec::Vec<") or t.startswith("&HashSet<"):
                below = Opq(z3.Const("below", Val), t.lstrip("&"))
                args.append(Ref(ex.new_cell(st, below)) if not t.startswith("&[") else below)
            elif "StringName" in t:
                snf = e2.rust_struct("src/check/name/string_name/mod.rs", "StringName")
                cname = Opq(z3.Const("class.name", Val), "String")
                sn = e2.mk_struct("src/check/name/string_name/mod.rs", "StringName", {f_: (cname if f_ == "name" else Opq(z3.Const("class." + f_, Val), "?")) for f_ in snf})
                args.append(Ref(ex.new_cell(st, sn)))
            elif t.startswith("&"):
                args.append(Ref(ex.new_cell(st, Opq(z3.Const(f"a{an}", Val), t.lstrip("&")))))
            else:
                args.append(Opq(z3.Const(f"a{an}", Val), t))
        if cname is None:
            raise Unsupported(f"{name}: no StringName parameter")
        claims, n_rec, n_guard = [], 0, 0
        if below is None:
            # no record of the classes below: nothing bounds the recursion
            claims.append(z3.BoolVal(False))
        else:
            ends = e2.run_kernel(run, ex, fn, args, st)
            bt, ct = ex.to_val(st, below), ex.to_val(st, cname)
            for p in ends:
                s = p.state
                guards = [e_ for e_ in p.events if e_["name"].split("::")[-1] == "contains" and z3.eq(e_["argvals"][0], bt) and ct.get_id() in _subterm_ids(e_["argvals"][1])]
                maps = [e_ for e_ in p.events if e_["name"] == "Iterator::map" and isinstance(e_["args"][1], Agg) and e_["args"][1].ty == "closure" and
                        mirsym_fn(ex, e_["args"][1]) in kids]
                if maps:
                    n_rec += 1
                    caps = [ex.to_val(s, ex.read_ref(s, c_) if isinstance(c_, Ref) else c_) for c_ in maps[0]["args"][1].fields]
                    grown = [c_ for c_ in caps if bt.get_id() in _subterm_ids(c_) and ct.get_id() in _subterm_ids(c_) and not z3.eq(c_, bt)]
                    ok = len(guards) == 1 and z3.is_bool(guards[0]["ret"]) and bool(grown)
                    claims.append(z3.Implies(conj(p.cond), z3.And(z3.BoolVal(bool(ok)), z3.Not(guards[0]["ret"]) if ok else z3.BoolVal(False))))
                if guards and z3.is_bool(guards[0]["ret"]):
                    taken = e2.solve(ex, list(p.cond) + [guards[0]["ret"]])[0] == z3.sat
                    if taken:
                        n_guard += 1
                        claims.append(z3.Implies(z3.And(conj(p.cond), guards[0]["ret"]), z3.BoolVal(result_kind(p) == "Err" and not maps)))
            # the recursive closure hands the grown list on
            for g in kids:
                if not any("class" in str(b.term) for b in g.blocks.values() if b.term):
                    continue
                stc = State()
                grown_v = Opq(z3.Const("below+class", Val), "Vec<String>")
                caps = [Ref(ex.new_cell(stc, Opq(z3.Const(f"cap{i}", Val), "?"))) for i in range(4)]
                envty = g.args[0][1].strip()
                # captures in order of first use are not known here: every captured value is tried as the list
                handed = False
                for i in range(3):
                    stc = State()
                    caps = [Ref(ex.new_cell(stc, Opq(z3.Const(f"cap{j}", Val), "?"))) for j in range(4)]
                    caps[i] = Ref(ex.new_cell(stc, grown_v))
                    env = Agg("closure", envty.lstrip("&").replace("mut ", "").strip(), caps)
                    try:
                        endc = e2.run_kernel(run, ex, g, [Ref(ex.new_cell(stc, env)) if envty.startswith("&") else env, Ref(ex.new_cell(stc, Opq(z3.Const("parent", Val), "TrueName")))], stc)
                    except Unsupported:
                        continue
                    gv = ex.to_val(stc, grown_v)
                    for p in endc:
                        rec = [e_ for e_ in p.events if "class" in e_["name"].split("::")[-1]]
                        if rec and any(z3.eq(a, gv) for a in rec[-1]["argvals"]):
                            handed = True
                claims.append(z3.BoolVal(handed))
            if not n_rec or not n_guard:
                claims.append(z3.BoolVal(False))

        def replay(model):
            bad = []
            for nm, src in (("self-inheritance", "class A: A\n"), ("two-cycle", "class A: B\nclass B: A\n"), ("self-inheriting-type", "type A: A\n"),
                            ("self-inheritance-used", "class A: A\ndef a := A()\n"), ("three-cycle", "class A: B\nclass B: C\nclass C: A\ndef a := A()\n")):
                st_, out = rp.transpile(src)
                if st_ not in ("OK", "ERR"):
                    bad.append((nm, f"{src!r}: {st_} {out[:80]!r}"))
            if bad:
                return {"reproduced": True, "role": "inheritance-cycle:" + "+".join(b[0] for b in bad), "detail": bad[0][1]}
            return {"reproduced": False, "detail": "5 programs with cyclic inheritance end with output or diagnostics"}
        e2.prove(run, ob, ex, [], conj(claims), {}, replay)
        if ob.status == "discharged":
            r_ = replay({})
            run.validated += 5
            if r_["reproduced"]:
                ob.status = "pending"
                ob.inconclusive("cyclic inheritance still crashes although the look-up is guarded: " + r_["detail"])
        run.samples.append({"obligation": ob.id, "function": name, "has_list_parameter": below is not None, "recursing_paths": n_rec, "guard_paths": n_guard})
    except Unsupported as e:
        ob.inconclusive(str(e))


def mirsym_fn(ex, v):
    import mirsym
    return mirsym.fn_of_value(ex, v)


def ob_definition_panics(run, mir, rp):
    ob = run.ob("definition-no-explicit-panic", "E2", "id_from_var (every form of definition): no path ends in an explicit panic! / unreachable! / expect - a "
                "definition the checker cannot handle (an empty tuple of variables) is a diagnostic", ["id_from_var"])
    try:
        fn = e2.find1(mir, file="src/check/constrain/generate/definition.rs", name="id_from_var")
        import ckern
        pan, n = [], 0
        ex = None
        for with_ty in (True, False):
            for with_expr in (True, False):
                ex = Exec(mir, max_paths=20000)
                st = State()
                var, _ = ckern.mk_ast("var", e2.opq("var.node", "Node"))
                ty = Agg("Option", "Some", [e2.opq("ty.v", "Name")]) if with_ty else Agg("Option", "None", [])
                e_ast, _ = ckern.mk_ast("init", e2.opq("init.node", "Node"))
                expr = Agg("Option", "Some", [Ref(ex.new_cell(st, e_ast))]) if with_expr else Agg("Option", "None", [])
                ctx, constr = ckern.refs(ex, st, "ctx", "constr")
                env, _ev = ckern.sym_env(ex, st)
                ends = e2.run_kernel(run, ex, fn, [Ref(ex.new_cell(st, var)), Ref(ex.new_cell(st, ty)), Ref(ex.new_cell(st, expr)), z3.Bool("mutable"), ctx, constr, env], st)
                n += len(ends)
                for p in ends:
                    if (p.kind == "panic" and "attempt to" not in (p.detail or "")) or p.kind == "diverge":
                        pan.append((conj(p.cond), f"{p.kind}: {p.detail}", with_ty, with_expr))

        def replay(model):
            bad = []
            for src in ("def () := ()\n", "def () := (1, 2)\n", "def ()\n", "def (): Int := 1\n"):
                st_, out = rp.transpile(src)
                if st_ not in ("OK", "ERR"):
                    bad.append(f"{src!r}: {st_} {out[:80]!r}")
            if bad:
                return {"reproduced": True, "role": "definition-panics:empty-tuple-of-variables", "detail": "; ".join(bad[:2])}
            return {"reproduced": False, "detail": "4 definitions of an empty tuple end with diagnostics"}
        if not pan:
            ob.reach = "sat"
            ob.discharged(f"no explicit panic among {n} path ends")
        else:
            e2.prove(run, ob, ex, [], z3.Not(disj([c for c, _d, _t, _e in pan])), {}, replay)
            ob.detail += f"; panic sites: {sorted({d[:80] for _c, d, _t, _e in pan})[:3]}"
        run.samples.append({"obligation": ob.id, "path_ends": n, "explicit_panic_paths": len(pan)})
    except Unsupported as e:
        ob.inconclusive(str(e))


def ob_map_exp_panics(run, mir, rp):
    """Renaming the identifiers of an expectation: a block stands for its last statement - an empty block (a comment-only body) has none."""
    EXP = "src/check/constrain/constraint/expected.rs"
    try:
        import ckern
        import mirsym
        fn = e2.find1(mir, file=EXP, impl="impl MapExp for Expected", name="map_exp")

        def m_last(ex_, st_, fr, callee, a, at, dty):
            # contract of <[T]>::last: Some exactly when the slice is not empty
            v = mirsym._deref_val(ex_, st_, a[0])
            t = ex_.to_val(st_, v)
            n = ex_.uf("seq:len", Val, z3.BitVecSort(64))(t)
            return Opq(ex_.uf("call:last/1", Val, Val)(t), "Option<&AST>", {("d",): z3.If(n == 0, z3.IntVal(0), z3.IntVal(1))})

        def m_cloned(ex_, st_, fr, callee, a, at, dty):
            v = mirsym._deref_val(ex_, st_, a[0])       # Option<&T>::cloned keeps the variant (Clone = identity)
            return v
        ex = Exec(mir, max_paths=5000, models=[(r"^core::slice::<impl \[.*\]>::last$", m_last), (r"^Option::<&.*>::cloned$", m_cloned)])
        ends_all = []
        for kind in ("Block", "other"):
            st = State()
            if kind == "Block":
                node = ckern.mk_node("Block", {"statements": e2.opq("statements", "Vec<AST>")})
            else:
                node = e2.opq("node", "Node")
            ast, _ = ckern.mk_ast("ast", node)
            e = e2.mk_struct(EXP, "Expected", {"pos": e2.opq("pos", "Position"), "an_or_a": z3.Bool("an"), "expect": e2.mk_variant(EXP, "Expect", "Expression", {"ast": ast})})
            ends_all += e2.run_kernel(run, ex, fn, [Ref(ex.new_cell(st, e)), Ref(ex.new_cell(st, e2.opq("vm", "VarMapping"))), Ref(ex.new_cell(st, e2.opq("gvm", "VarMapping")))], st)

        def replay(model):
            bad = []
            for src in ("def f() -> Int =>\n    # todo\n", "def c := True\ndef x := if c then\n    # nothing\nelse\n    2\n", "def g(x: Int) -> Int =>\n    match x\n        1 =>\n            # nothing\n        _ => 2\n",
                        "def f() =>\n    # todo\n", "while True do\n    # nothing\n"):
                st_, out = rp.transpile(src)
                if st_ not in ("OK", "ERR"):
                    bad.append(f"{src!r}: {st_} {out[:80]!r}")
            if bad:
                return {"reproduced": True, "role": "map-exp-panics:comment-only-block", "detail": "; ".join(bad[:2])}
            return {"reproduced": False, "detail": "5 comment-only blocks end with output or diagnostics"}
        e2.no_panic(run, "map-exp-no-panic", "Expected::map_exp (renaming the identifiers of an expectation; a block stands for its last statement): no unwrap / expect / "
                    "panic is reachable for any expression, in particular not for an EMPTY block (a comment-only body; `last()` is Some exactly when the block "
                    "is not empty - contract stub)", ex, ends_all, [], {}, replay, ["<Expected as MapExp>::map_exp"])
    except Unsupported as e:
        run.ob("map-exp-no-panic", "E2", "map_exp encodable").inconclusive(str(e))


def run(run):
    mir = e2.load_mir(run)
    rp = common.Replay()
    run.assume("positions: invisible() or all four coordinates in [1, 2^31-2]; lexer state: indents and caret in [1, 2^20]",
               "offset in {0,1}; <= 2^20 source lines; str::lines().nth / count, String::from_utf8 contract stubs",
               "formatting machinery uninterpreted; unwind edges not followed",
               "outside the claim: parser, context builder, constraint generation, unification, generation, "
               "stack depth and time bounds (not executable by Kani, not loop-free integer facts)")
    run.trusted += ["rustc nightly MIR dump (-C overflow-checks=on)", "mirsym MIR semantics", "z3", "Kani/CBMC (E1 part)"]
    run.bounds = {"coordinates": f"<= {MAXC}", "lexer_state": f"<= {MAXN}", "source_lines": f"<= {MAXL}"}

    # 1. rendering
    try:
        ex, st, ends, inp = poskern.run_format_location(run, mir)
        sl, sp, el, ep = inp["pos"]
        lines = poskern.lines_term(ex, st, inp["srcs"])
        L = ex.uf("linecount", Val, z3.BitVecSort(64))(ex.to_val(st, lines))
        pre = [valid_pos(inp["pos"]), z3.ULE(inp["offset"], 1), z3.ULE(L, MAXL)]
        names = {"pos.start.line": sl, "pos.start.pos": sp, "pos.end.line": el, "pos.end.pos": ep,
                 "offset": inp["offset"], "linecount": L, "source.is_some": inp["src_some"]}
        small = [z3.And(z3.ULE(L, 50), *[z3.ULE(x, 60) for x in inp["pos"]])]
        e2.no_panic(run, "render-location", "format_location + closures + get_width: no overflow, unwrap or cast panic "
                    "for any valid position", ex, ends, pre, names, C19.replay_render(rp, "render-location", panic_only=True),
                    ["format_location", "format_location::{closure#0..2}", "Position::get_width"], prefer=[small])
    except Unsupported as e:
        run.ob("render-location", "E2", "format_location encodable").inconclusive(str(e))

    # 2. format_err (loop over causes havocked)
    try:
        fn = e2.find1(mir, file=poskern.RESULT_RS, name="format_err")
        ex = Exec(mir, inline=poskern.POS_INLINE, models=poskern.POS_MODELS)
        st = State()
        pos, v = sym_pos("pos")
        some = z3.Bool("pos.is_some")
        posopt = Opq(z3.Const("posopt", Val), "Option<Position>",
                     {("d",): z3.If(some, z3.IntVal(1), z3.IntVal(0)), ("v", "Some"): Agg("Option", "Some", [pos])})
        f = Ref(ex.new_cell(st, Opq(z3.Const("f", Val), "Formatter")))
        args = [f, Opq(z3.Const("msg", Val), "&str"), Ref(ex.new_cell(st, Opq(z3.Const("path", Val), "Option<PathBuf>"))),
                posopt, Ref(ex.new_cell(st, Opq(z3.Const("source", Val), "Option<String>"))),
                Opq(z3.Const("causes", Val), "&[Cause]")]
        ends = e2.run_kernel(run, ex, fn, args, st)
        e2.no_panic(run, "render-err", "format_err (header, loop body over causes from a havocked loop state): no panic of its own",
                    ex, ends, [valid_pos(v)], {"pos.is_some": some}, C19.replay_render(rp, "render-err", panic_only=True), ["format_err"])
    except Unsupported as e:
        run.ob("render-err", "E2", "format_err encodable").inconclusive(str(e))

    # 3. State kernels
    for k in (0, 1, 2):
        try:
            ex, st, S, tok, ends = lexkern.run_state_token(run, mir, k)
            d = ex.discr(st, tok, "Token")
            slt = ex.to_val(st, ex.project(st, ex.project(st, tok, ("v", "Str")), ("f", 0), "std::string::String"))
            small = [z3.And(S.cur <= 41, S.li <= 41, z3.ULE(S.line, 50), z3.ULE(S.col, 50), z3.ULE(lexkern.nl_of(ex, slt), 2))]
            e2.no_panic(run, f"state-token-k{k}", f"State::token with {k} pending newline(s), any token: no overflow / cast panic",
                        ex, ends, [S.inv()], C18.names_of(S, {"token.discriminant": d, "str.newlines": lexkern.nl_of(ex, slt),
                                                              "str.tail_nonempty": lexkern.tail_of(ex, slt)}),
                        C18.state_replay(rp, ex, "state-token", k), ["State::token", "State::newline", "Lex::new"], prefer=[small])
        except Unsupported as e:
            run.ob(f"state-token-k{k}", "E2", "State::token encodable").inconclusive(str(e))
    for name in ("space", "flush_indents"):
        try:
            fn = e2.find1(mir, file=lexkern.STATE_RS, impl="impl State", name=name)
            ex = Exec(mir, inline=lexkern.STATE_INLINE, models=lexkern.LEX_MODELS)
            st = State()
            S = SymState(ex, st, 1)
            ends = e2.run_kernel(run, ex, fn, [S.ref], st)
            e2.no_panic(run, f"state-{name}", f"State::{name}: no overflow / cast panic", ex, ends, [S.inv()],
                        C18.names_of(S), C18.family_replay(rp, f"state-{name}"), [f"State::{name}"])
        except Unsupported as e:
            run.ob(f"state-{name}", "E2", f"State::{name} encodable").inconclusive(str(e))

    # 4. Lex::new, CaretPos, get_width, LexErr::fmt
    try:
        fn = e2.find1(mir, file=lexkern.TOKEN_RS, impl="impl Lex", name="new")
        ex = Exec(mir, inline=lexkern.STATE_INLINE, models=lexkern.LEX_MODELS)
        st = State()
        line, col = z3.BitVec("start.line", 64), z3.BitVec("start.pos", 64)
        tok = Opq(z3.Const("tok", Val), "Token")
        ends = e2.run_kernel(run, ex, fn, [Agg("CaretPos", None, [line, col]), tok], st)
        hyp = [z3.UGE(line, 1), z3.ULE(line, MAXN), z3.UGE(col, 1), z3.ULE(col, MAXN)]

        def rp_new(model):
            for kind, s_ in (("str", ""), ("str", "a\n"), ("doc", ""), ("doc", "a\nb"), ("id", "x")):
                stt, out = rp.req("lexnew", int(model.get("start.line", 1)) % 100000 + 1, int(model.get("start.pos", 1)) % 100000 + 1, kind, common.hexs(s_))
                if stt != "OK":
                    return {"reproduced": True, "role": f"lex-new:{kind}", "detail": f"Lex::new {kind}({s_!r}): {stt} {out[:80]}"}
            return {"reproduced": False, "detail": "Lex::new does not panic on the family"}
        e2.no_panic(run, "lex-new", "Lex::new: no overflow / cast panic for any token", ex, ends, hyp,
                    {"start.line": line, "start.pos": col}, rp_new, ["Lex::new"])
    except Unsupported as e:
        run.ob("lex-new", "E2", "Lex::new encodable").inconclusive(str(e))

    try:
        fn = e2.find1(mir, file=poskern.POSITION_RS, impl="impl Position", name="get_width")
        ex = Exec(mir, inline=poskern.POS_INLINE)
        st = State()
        pos, v = sym_pos("pos")
        ends = e2.run_kernel(run, ex, fn, [Ref(ex.new_cell(st, pos))], st)

        def rp_w(model):
            a = [int(model[k]) for k in ("pos.start.line", "pos.start.pos", "pos.end.line", "pos.end.pos")]
            stt, out = rp.req("width", *a)
            if stt != "OK":
                return {"reproduced": True, "role": "get-width:panic", "detail": f"get_width{tuple(a)}: {stt} {out[:80]}"}
            return {"reproduced": False, "detail": f"get_width{tuple(a)} = {out}"}
        e2.no_panic(run, "get-width", "Position::get_width: the `as i32` subtraction cannot overflow for columns <= 2^31-2",
                    ex, ends, [valid_pos(v)], {"pos.start.line": v[0], "pos.start.pos": v[1], "pos.end.line": v[2], "pos.end.pos": v[3]},
                    rp_w, ["Position::get_width"])
    except Unsupported as e:
        run.ob("get-width", "E2", "get_width encodable").inconclusive(str(e))
    try:
        import lexstep
        lexstep.obligations(run, mir, rp, C18.lexstep_replay(rp), want=("panic",))
    except Unsupported as e:
        run.ob("lexer-step-no-panic", "E2", "into_tokens encodable").inconclusive(str(e))
    ob_unify_arith(run, mir, rp)
    ob_reinsert_once(run, mir, rp)
    ob_parser_loops(run, mir, rp)
    ob_class_recursion(run, mir, rp)
    ob_definition_panics(run, mir, rp)
    ob_map_exp_panics(run, mir, rp)
    if os.environ.get("VERIF_NO_KANI") != "1":
        import e1
        names = list(e1.QUICK_B) + ["step_other_char"]
        if run.tier == "thorough":
            fam = e1.kani_runner.FAMILIES
            names = fam["step2"] + fam["step3"] + fam["step_other"] + fam["state"]
        e1.run(run, names, lambda n: "panic freedom and progress of one real lexer step / State method (Kani: every reachable "
               "unwrap, overflow, index or slice panic is a failed check)", C18.kani_step_replay(rp), only_panics=True)
    rp.close()
