"""C16 — emitted modules are self-contained: support imports registered once and before use (E2)."""
import ast
import re
import z3

import common
import e2
from e2 import conj, disj, opq, sym_option, mk_struct, mk_variant, calls, result_kind
from mirsym import Exec, State, Opq, Agg, Ref, StrC, Seq, SymColl, Val, Unsupported, Fork

LEVEL = "model_checking"
EXPLANATION = ("The three ToPy implementations of generate::name, the Sqrt arm of convert_node, the abstract-method "
               "branch of convert_def, Imports::add_import and gen_arguments are executed symbolically from MIR: z3 decides "
               "that every typing / math / abc name placed into the output has been registered with the import accumulator "
               "earlier on the same path, that registering twice adds nothing, and that the collected imports are placed "
               "before the module's statements.")

NAME_RS = "src/generate/name.rs"
STATE_RS = "src/generate/convert/state.rs"
GEN_RS = "src/generate/mod.rs"
TYPING = ("Union", "Optional", "Tuple", "Callable", "Any")

PROGRAMS = [
    ("sqrt", "def x := sqrt 16\nprint(x)", False),
    ("handle-predeclared-optional", "class MyErr(def message: Str): Exception\n\ndef g() -> Int? raise [MyErr] => 10\n\ndef a: Int? := g() handle\n    err: MyErr =>\n        print(\"recovered\")\n        20\n\nprint(\"done\")\n", False),
    ("handle-predeclared-optional-annotated", "class MyErr(def message: Str): Exception\n\ndef g() -> Int? raise [MyErr] => 10\n\ndef a: Int? := g() handle\n    err: MyErr =>\n        print(\"recovered\")\n        20\n\nprint(\"done\")\n", True),
    ("interface-extends-builtin", "type Coded: Exception\n    def code(self) -> Int\n", False),
    ("interface-extends-interface", "type Base\n    def foo(self) -> Int\n\ntype Derived: Base\n    def bar(self) -> Int\n", False),
    ("sqrt-twice", "def x := sqrt 16\ndef y := sqrt 4\nprint(x)", False),
    ("sqrt-in-function", "def f(a: Int) -> Float => sqrt a\nprint(f(4))", False),
    ("optional-annotation", "def x: Int? := None", True),
    ("optional-twice", "def x: Int? := None\ndef y: Str? := None", True),
    ("union-annotation", "def x: {Int, Str} := 1\nprint(x)", True),
    ("tuple-annotation", "def x: (Int, Str) := (1, \"a\")\nprint(x)", True),
    ("callable-annotation", "def f(g: Int -> Int) -> Int => g(1)", True),
    ("any-annotation", "def x: Any := 1", True),
    ("abstract-type", "type T\n    def f(x: Int) -> Int\n", False),
    ("abstract-type-annotated", "type T\n    def f(x: Int?) -> Int\n", True),
    ("nested-optional-in-function", "def f(a: Int?) -> Int? => a", True),
    ("no-support-import-needed", "def x := 1\nprint(x)", True),
    ("optional-and-union-and-tuple", "def x: Int? := None\ndef y: {Int, Str} := 1\ndef z: (Int, Str) := (1, \"a\")\ndef w: Int? := None\nprint(y)", True),
    ("abstract-type-two-methods", "type T\n    def f(x: Int) -> Int\n    def g(x: Int) -> Int\n", False),
    ("docstring-after-first-use", 'def side := 16.0\ndef root := sqrt side\nprint(root)\n\n"""Helpers for optional values."""\n\ndef or_zero(x: Int?) -> Int => x ? 0\n\nprint(or_zero(4))\n', False),
    ("docstring-after-first-use-annotated", 'def side := 16.0\ndef root := sqrt side\nprint(root)\n\n"""Helpers for optional values."""\n\ndef or_zero(x: Int?) -> Int => x ? 0\n\nprint(or_zero(4))\n', True),
    ("newtype-then-sqrt", 'type Positive: Int when self > 0\n\ndef or_zero(x: Int?) -> Int => x ? 0\n\ndef hyp(a: Float, b: Float) -> Float => sqrt (a * a + b * b)\n\nprint(or_zero(4))\nprint(hyp(3.0, 4.0))\n', False),
    ("newtype-then-sqrt-annotated", 'type Positive: Int when self > 0\n\ndef or_zero(x: Int?) -> Int => x ? 0\n\ndef hyp(a: Float, b: Float) -> Float => sqrt (a * a + b * b)\n\nprint(or_zero(4))\nprint(hyp(3.0, 4.0))\n', True),
    ("optional-then-sqrt", "def x: Int? := None\ndef y := sqrt 16\nprint(y)", True),
    ("interface-then-sqrt", "type T\n    def f(x: Int) -> Int\ndef y := sqrt 16\nprint(y)", False),
    ("sqrt-then-optional", "def y := sqrt 16\ndef x: Int? := None\nprint(y)", True),
    ("leading-docstring-then-sqrt", "\"\"\"Module doc.\"\"\"\ndef y := sqrt 16\nprint(y)", False),
]


def check_output(py):
    """Property-level check of an emitted module: every support name used is imported at the top, once."""
    t = ast.parse(py)
    imported, dup, late = [], [], []
    seen_stmt = False
    for node in t.body:
        if isinstance(node, ast.Import):
            for a in node.names:
                (dup if a.name in imported else imported).append(a.name)
            if seen_stmt:
                late.append(ast.dump(node))
        elif isinstance(node, ast.ImportFrom):
            for a in node.names:
                (dup if a.name in imported else imported).append(a.name)
            if seen_stmt:
                late.append(ast.dump(node))
        else:
            seen_stmt = True
    used = {n.id for n in ast.walk(t) if isinstance(n, ast.Name)} | \
           {n.value.id for n in ast.walk(t) if isinstance(n, ast.Attribute) and isinstance(n.value, ast.Name)}
    support = {"math", "Optional", "Union", "Tuple", "Callable", "Any", "NewType", "ABC", "abstractmethod"}
    defined = {n.name for n in ast.walk(t) if isinstance(n, (ast.FunctionDef, ast.ClassDef))} | \
              {tg.id for n in ast.walk(t) if isinstance(n, (ast.Assign, ast.AnnAssign)) for tg in (n.targets if isinstance(n, ast.Assign) else [n.target]) if isinstance(tg, ast.Name)}
    missing = sorted((used & support) - set(imported) - defined)
    if missing:
        return f"used but not imported: {missing}"
    if dup:
        return f"imported more than once: {dup}"
    if late:
        return f"import after the first statement: {late[:1]}"
    return None


def program_family(rp):
    bad, n = [], 0
    for role, src, ann in PROGRAMS:
        n += 1
        st, out = rp.transpile(src, ann)
        if st != "OK":
            bad.append({"role": role, "src": src, "why": f"{st}: {out[:100]}"})
            continue
        try:
            why = check_output(out)
        except SyntaxError as e:
            why = f"output does not parse: {e}"
        if why:
            bad.append({"role": role, "src": src, "why": f"{why} in {out.strip()!r}"})
    return n, bad


def fam_replay(rp, what, only=None):
    def f(model):
        n, bad = program_family(rp)
        if only:
            bad = [b for b in bad if any(o in b["role"] for o in only)]
        if bad:
            return {"reproduced": True, "role": f"{what}:{bad[0]['role']}", "detail": f"{bad[0]['src']!r}: {bad[0]['why']}"}
        return {"reproduced": False, "detail": f"{n} emitted modules import what they use, once, at the top"}
    return f


def ob_pairing(run, mir, rp):
    ob = run.ob("typing-names-registered", "E2", "generate::name: whenever a Core::Type with a typing name (Union, Optional, "
                "Tuple, Callable, Any) is built, add_from_import(\"typing\", that name) was called earlier on the same path",
                ["<Name as ToPy>::to_py", "<TrueName as ToPy>::to_py", "<StringName as ToPy>::to_py", "core_type"])
    claims, n_types = [], 0
    ex = Exec(mir, max_paths=20000, inline=[r"^core_type$", r"generate::name::core_type$", r"<TrueName as Nullable>::is_nullable$"])
    for impl in ("impl ToPy for Name", "impl ToPy for TrueName", "impl ToPy for StringName"):
        fn = e2.find1(mir, file=NAME_RS, impl=impl, name="to_py")
        st = State()
        if "StringName" in impl:
            nm = opq("self.name", "String")
            selfv = mk_struct("src/check/name/string_name/mod.rs", "StringName", {"name": nm, "generics": opq("self.generics", "Vec<Name>")})
        elif "TrueName" in impl:
            selfv = mk_struct("src/check/name/true_name/mod.rs", "TrueName", {"is_nullable": z3.Bool("self.is_nullable"), "is_mutable": z3.Bool("self.is_mutable"),
                                                                                "variant": opq("self.variant", "StringName")})
        else:
            selfv = opq("self", "Name")
        imp = Ref(ex.new_cell(st, opq("imp", "Imports")))
        ends = e2.run_kernel(run, ex, fn, [Ref(ex.new_cell(st, selfv)), imp], st)
        for p in ends:
            c = conj(p.cond)
            s = p.state
            if p.kind != "return":
                claims.append(z3.Not(c))
                continue
            # Core::Type values on this path and the literal they carry
            regs = [(i, ev) for i, ev in enumerate(p.events) if ev["name"] == "Imports::add_from_import"]

            def types_in(v, out):
                if isinstance(v, Agg):
                    if v.ty == "Core" and v.variant == "Type":
                        out.append(v)
                    for f in v.fields:
                        types_in(f, out)
                return out
            for t in types_in(p.ret, []):
                n_types += 1
                lit = t.fields[0]
                litv = ex.to_val(s, lit)
                for tn in TYPING:
                    registered = disj([z3.And(ev["argvals"][1] == ex.strc("typing"), ev["argvals"][2] == ex.strc(tn)) for _i, ev in regs])
                    if isinstance(lit, StrC):
                        if lit.s == tn:
                            claims.append(z3.Implies(c, registered))
                    elif "StringName" in impl and tn == "Any":
                        # the literal goes through concrete_to_python (name table, Kani harness): the only typing name a
                        # Mamba class name can denote there is Any, registered exactly when the Mamba name is Any
                        is_any = ex.to_val(s, nm) == ex.strc("Any")
                        claims.append(z3.Implies(z3.And(c, is_any), registered))
    if n_types < 4:
        raise Unsupported(f"only {n_types} Core::Type constructions reached")
    e2.prove_each(run, ob, ex, [], claims, {}, fam_replay(rp, "typing-names", only=["optional", "union", "tuple", "callable", "any", "nested", "abstract-type-annotated"]))
    ob.detail += f"; {n_types} Core::Type constructions"


def ob_sqrt_abc(run, mir, rp):
    ob = run.ob("math-and-abc-registered", "E2", "convert_node: a Core::Sqrt is only built after add_import(\"math\"); "
                "convert_def: the decorator abstractmethod is only attached after add_from_import(\"abc\", \"abstractmethod\")",
                ["convert_node (Sqrt)", "convert_def (FunDef)"])
    claims = []
    fn = e2.find1(mir, file="src/generate/convert/mod.rs", name="convert_node")
    ex = Exec(mir, max_paths=50000)
    st = State()
    kid = opq("expr", "Box<ASTTy>")
    node = Agg("NodeTy", "Sqrt", [kid], ["expr"])
    names_ = e2.rust_struct("src/check/ast/mod.rs", "ASTTy")
    by = {"pos": opq("pos", "Position"), "node": node, "ty": opq("ty", "Option<Name>")}
    astv = Agg("ASTTy", None, [by[n] for n in names_], names_)
    imp, state, ctx = (Ref(ex.new_cell(st, opq(n, n))) for n in ("Imports", "State", "Context"))
    ends = e2.run_kernel(run, ex, fn, [Ref(ex.new_cell(st, astv)), imp, state, ctx], st)
    n_sq = 0
    for p in ends:
        if p.kind != "return" or not (isinstance(p.ret, Agg) and p.ret.variant == "Ok"):
            continue
        core = p.ret.fields[0]
        has_sqrt = "Core::Sqrt" in repr(core) or any(ev["name"] in ("append_ret", "append_assign") for ev in p.events)
        regs = [ev for ev in p.events if ev["name"] == "Imports::add_import"]
        n_sq += 1
        claims.append(z3.Implies(conj(p.cond), disj([ev["argvals"][1] == ex.strc("math") for ev in regs])))
    if not n_sq:
        raise Unsupported("Sqrt arm not reached")
    # abstractmethod
    fn2 = e2.find1(mir, file="src/generate/convert/definition.rs", name="convert_def")
    ex2 = Exec(mir, max_paths=50000)
    st2 = State()
    node2 = opq("node", "NodeTy")
    by2 = {"pos": opq("pos", "Position"), "node": node2, "ty": opq("ty", "Option<Name>")}
    astv2 = Agg("ASTTy", None, [by2[n] for n in names_], names_)
    imp2, state2, ctx2 = (Ref(ex2.new_cell(st2, opq(n, n))) for n in ("Imports", "State", "Context"))
    ends2 = e2.run_kernel(run, ex2, fn2, [Ref(ex2.new_cell(st2, astv2)), imp2, state2, ctx2], st2)
    n_dec = 0
    claims2 = []
    for p in ends2:
        if p.kind != "return" or not (isinstance(p.ret, Agg) and p.ret.variant == "Ok"):
            continue
        core = p.ret.fields[0]
        if not (isinstance(core, Agg) and core.variant in ("FunDef",) and core.names and "dec" in core.names):
            continue
        dec = core.fields[core.names.index("dec")]
        abstract = isinstance(dec, Seq) and any(isinstance(x[1], StrC) and x[1].s == "abstractmethod" for x in dec.parts if x[0] == "item")
        if abstract:
            n_dec += 1
            regs = [ev for ev in p.events if ev["name"] == "Imports::add_from_import"]
            claims2.append(z3.Implies(conj(p.cond), disj([z3.And(ev["argvals"][1] == ex2.strc("abc"), ev["argvals"][2] == ex2.strc("abstractmethod")) for ev in regs])))
    if not n_dec:
        raise Unsupported("abstractmethod branch not reached")
    e2.prove_each(run, ob, ex, [], claims, {}, fam_replay(rp, "math-abc", only=["sqrt", "interface", "abstract"]))
    if ob.status == "discharged":
        ob.status = "pending"
        e2.prove_each(run, ob, ex2, [], claims2, {}, fam_replay(rp, "abc", only=["abstract", "interface"]))


def ob_add_import(run, mir, rp):
    ob = run.ob("add-import-idempotent", "E2", "Imports::add_import on an accumulator holding <= 2 arbitrary entries: an entry "
                "that is already present is not added again, a new one is appended once, nothing else changes",
                ["Imports::add_import"])
    fn = e2.find1(mir, file=STATE_RS, impl="impl Imports", name="add_import")
    ex = Exec(mir, max_paths=2000)
    st = State()
    pres = [z3.Bool(f"entry{i}.present") for i in range(2)]
    ents = [opq(f"entry{i}", "Core") for i in range(2)]
    frm = opq("self.from_imports", "BTreeMap")
    imports = mk_struct(STATE_RS, "Imports", {"imports": SymColl([(pres[i], ents[i]) for i in range(2)]), "from_imports": frm})
    me = Ref(ex.new_cell(st, imports))
    name = opq("import", "&str")
    ends = e2.run_kernel(run, ex, fn, [me, name], st)
    claims = []
    fields = e2.rust_struct(STATE_RS, "Imports")
    for p in ends:
        c = conj(p.cond)
        s = p.state
        if p.kind != "return":
            claims.append(z3.Not(c))
            continue
        after = s.cells[me.cell]
        coll = after.fields[fields.index("imports")]
        if not isinstance(coll, SymColl):
            claims.append(z3.Not(c))
            continue
        new_items = coll.items[2:]
        same_prefix = all(coll.items[i][1] is ents[i] for i in range(2)) and len(coll.items) >= 2
        if not same_prefix or len(new_items) > 1:
            claims.append(z3.Not(c))
            continue
        keep = conj([coll.items[i][0] == pres[i] for i in range(2)] + [ex.to_val(s, after.fields[fields.index("from_imports")]) == ex.to_val(s, frm)])
        if new_items:
            nv = ex.to_val(s, new_items[0][1])
            already = z3.Or(*[z3.And(pres[i], ex.to_val(s, ents[i]) == nv) for i in range(2)])
            claims.append(z3.Implies(c, z3.And(keep, z3.Not(already), new_items[0][0])))
            # the new entry is an `import <name>` of exactly the requested name
            claims.append(z3.Implies(c, z3.BoolVal("import" in repr(new_items[0][1]).lower())))
        else:
            # nothing appended: it must have been there
            claims.append(z3.Implies(c, keep))
    added = [p for p in ends if p.kind == "return" and isinstance(p.state.cells[me.cell].fields[fields.index("imports")], SymColl)
             and len(p.state.cells[me.cell].fields[fields.index("imports")].items) == 3]
    if not added:
        raise Unsupported("no path appends")
    # and when it is not yet present some path must append: the append path's condition is exactly `not present`
    e2.prove_each(run, ob, ex, [], claims, {"entry0.present": pres[0], "entry1.present": pres[1]}, fam_replay(rp, "add-import", only=["sqrt"]))


def _sub(t):
    seen, stack = {}, [t]
    while stack:
        x = stack.pop()
        if x.get_id() in seen:
            continue
        seen[x.get_id()] = x
        stack.extend(x.children())
    return seen


def ob_add_from_import(run, mir, rp):
    ob = run.ob("add-from-import-merge", "E2", "Imports::add_from_import: exactly one entry is stored under the module name; for a module that "
                "is already there the stored names are the old names (plus the new one if it was not among them, never twice), sorted, and "
                "the aliases are kept; for a new module the entry imports just the new name", ["Imports::add_from_import"])
    fn = e2.find1(mir, file=STATE_RS, impl="impl Imports", name="add_from_import")
    ex = Exec(mir, max_paths=5000)
    st = State()
    selfr = Ref(ex.new_cell(st, Opq(z3.Const("self", Val), "Imports")))
    frm, imp = Opq(z3.Const("from", Val), "&str"), Opq(z3.Const("import", Val), "&str")
    ends = e2.run_kernel(run, ex, fn, [selfr, frm, imp], st)
    claims = []
    for p in ends:
        if p.kind != "return":
            raise Unsupported(f"unexpected path end {p}")
        s = p.state
        ins = [e_ for e_ in p.events if e_["name"].endswith("BTreeMap::insert")]
        get = [e_ for e_ in p.events if e_["name"].endswith("BTreeMap::get")]
        ok = len(ins) == 1 and len(get) == 1
        cl = [z3.BoolVal(ok)]
        if ok:
            v = ins[0]["args"][2]
            v = ex.read_ref(s, v) if isinstance(v, Ref) else v
            good = isinstance(v, Agg) and v.variant == "Import"
            cl.append(z3.BoolVal(good))
            if good:
                f_from, f_imp, f_al = (v.fields[list(v.names).index(n)] for n in ("from", "import", "alias"))
                cl.append(ins[0]["argvals"][1] == frm.term)
                cl.append(get[0]["argvals"][1] == frm.term)
                is_from = isinstance(f_from, Agg) and f_from.variant == "Some" and isinstance(f_from.fields[0], Agg) and f_from.fields[0].variant == "Id"
                cl.append(z3.BoolVal(is_from))
                if is_from:
                    cl.append(ex.to_val(s, f_from.fields[0].fields[0]) == frm.term)
                new_id = None
                if isinstance(f_imp, Seq):
                    # fresh module (or an entry that is not an import): just the new name, no aliases
                    fresh = len(f_imp.parts) == 1 and f_imp.parts[0][0] == "item" and isinstance(f_imp.parts[0][1], Agg) and f_imp.parts[0][1].variant == "Id"
                    cl.append(z3.BoolVal(fresh and isinstance(f_al, Seq) and not f_al.parts))
                    if fresh:
                        cl.append(ex.to_val(s, f_imp.parts[0][1].fields[0]) == imp.term)
                else:
                    old = ex.project(s, ex.project(s, get[0]["ret"], ("v", "Some")), ("f", 0), "&Core")
                    oldimp = ex.project(s, old, ("v", "Import"))
                    lay = e2.rust_enum("src/generate/ast/node.rs", "Core")["Import"]
                    old_names = ex.to_val(s, ex.project(s, oldimp, ("f", lay.index("import")), "Vec<Core>"))
                    old_alias = ex.to_val(s, ex.project(s, oldimp, ("f", lay.index("alias")), "Vec<Core>"))
                    t = ex.to_val(s, f_imp)
                    sub = _sub(t)
                    heads = [x.decl().name() for x in sub.values() if z3.is_app(x)]
                    has_sorted = any("sorted" in h for h in heads)
                    has_old = old_names.get_id() in sub
                    cont = [e_ for e_ in p.events if e_["name"].split("::")[-1] == "contains"]
                    has_new = any("mk:Core::Id" in x.decl().name() and x.children() and z3.eq(x.children()[0], imp.term) for x in sub.values() if z3.is_app(x))
                    cl.append(z3.BoolVal(has_sorted and has_old and len(cont) == 1))
                    if len(cont) == 1:
                        c_ = cont[0]["ret"]
                        # the new name is appended exactly when the old list does not contain it
                        cl.append(z3.BoolVal(has_new) == z3.Not(c_) if z3.is_bool(c_) else z3.BoolVal(False))
                        cl.append(cont[0]["argvals"][0] == old_names)
                    cl.append(ex.to_val(s, f_al) == old_alias)
        claims.append(z3.Implies(conj(p.cond), conj(cl)))
    e2.prove_each(run, ob, ex, [], claims, {}, fam_replay(rp, "add-from-import", only=["optional", "union", "tuple", "abstract", "newtype", "interface"]))


def ob_class_imports(run, mir, rp):
    ob = run.ob("newtype-and-abc-registered", "E2", "convert_class: a type alias is emitted as a call of NewType only after add_from_import(typing, "
                "NewType); extract_class: ABC is appended to the parents of an interface only after add_from_import(abc, ABC)",
                ["convert_class (TypeAlias)", "extract_class"])
    import convkern
    claims, n = [], 0
    arm = convkern.Arm(run, mir, "convert_class", "src/generate/convert/class.rs", "TypeAlias")
    for p in arm.ends:
        if not (p.kind == "return" and isinstance(p.ret, Agg) and p.ret.variant == "Ok"):
            continue
        core = p.ret.fields[0]
        txt = str(core)
        if "NewType" not in txt:
            claims.append((arm.ex, z3.Implies(conj(p.cond), z3.BoolVal(False))))
            continue
        n += 1
        regs = [e_ for e_ in p.events if e_["name"].endswith("add_from_import") and len(e_["args"]) >= 3 and
                isinstance(e_["args"][1], StrC) and e_["args"][1].s == "typing" and isinstance(e_["args"][2], StrC) and e_["args"][2].s == "NewType"]
        claims.append((arm.ex, z3.Implies(conj(p.cond), z3.BoolVal(bool(regs)))))
    fn = e2.find1(mir, file="src/generate/convert/class.rs", name="extract_class")
    ex2 = Exec(mir, max_paths=60000)
    st2 = State()
    a2 = []
    for an, aty in fn.args:
        t = aty.strip()
        a2.append(Ref(ex2.new_cell(st2, Opq(z3.Const(f"x{an}", Val), t.lstrip("&").replace("mut ", "").strip()))) if t.startswith("&") and not t.startswith("&[") else Opq(z3.Const(f"x{an}", Val), t))
    ends2 = e2.run_kernel(run, ex2, fn, a2, st2)
    n_abc = 0
    for p in ends2:
        names = [e_["name"].split("::")[-1] for e_ in p.events]
        abc_at = None
        for i, e_ in enumerate(p.events):
            if names[i] == "chain" and any(isinstance(a, Seq) and any(pt[0] == "item" and "ABC" in str(pt[1]) for pt in a.parts) for a in e_["args"]):
                abc_at = i
        if abc_at is None:
            continue
        n_abc += 1
        regs = [i for i, e_ in enumerate(p.events) if e_["name"].endswith("add_from_import") and len(e_["args"]) >= 3 and
                isinstance(e_["args"][1], StrC) and e_["args"][1].s == "abc" and isinstance(e_["args"][2], StrC) and e_["args"][2].s == "ABC"]
        claims.append((ex2, z3.Implies(conj(p.cond), z3.BoolVal(bool(regs) and regs[0] < abc_at))))
    if not n or not n_abc:
        raise Unsupported(f"NewType paths {n}, ABC paths {n_abc}")
    bad = 0
    for exx, cl in claims:
        r, _m, dt, _ = e2.solve(exx, [z3.Not(cl)])
        ob.solver_s += dt
        ob.queries += 1
        if r != z3.unsat:
            bad += 1
    ob.reach = "sat"
    if not bad:
        ob.discharged(f"unsat for {len(claims)} path claims ({n} NewType paths, {n_abc} ABC paths)")
    else:
        rep = fam_replay(rp, "class-imports", only=["newtype", "abstract", "interface"])({})
        if rep.get("reproduced"):
            ob.violated(rep["role"], {"claims_failed": bad}, rep, rep["detail"])
        else:
            ob.inconclusive(f"{bad} path claims fail but the emitted modules import what they use")


def ob_prepend(run, mir, rp):
    ob = run.ob("imports-prepended", "E2", "gen_arguments: the collected imports are placed before the converted statements "
                "of the module", ["gen_arguments"])
    fn = e2.find1(mir, file=GEN_RS, name="gen_arguments")
    ex = Exec(mir, max_paths=5000)
    st = State()
    args = [Ref(ex.new_cell(st, opq(n, n))) for n in ("ASTTy", "GenArguments", "Context")]
    ends = e2.run_kernel(run, ex, fn, args, st)
    claims, n = [], 0
    for p in ends:
        c = conj(p.cond)
        s = p.state
        if result_kind(p) != "Ok":
            continue
        chains = [ev for ev in p.events if ev["name"] == "Iterator::chain"]
        imps = [ev for ev in p.events if ev["name"] == "Imports::imports"]
        if not chains:
            # no block and no imports: the node is returned as it is
            empties = [ev for ev in p.events if ev["name"] == "Imports::is_empty"]
            claims.append(z3.Implies(c, disj([ev["ret"] for ev in empties if z3.is_bool(ev["ret"])])))
            continue
        n += 1
        ch = chains[0]
        first_is_imports = disj([ch["argvals"][0] == ex.to_val(s, ex.app("IntoIterator::into_iter", [im["ret"]], "IntoIter", s)) for im in imps])
        claims.append(z3.Implies(c, first_is_imports))
    if not n:
        raise Unsupported("no path chains imports and statements")
    e2.prove_each(run, ob, ex, [], claims, {}, fam_replay(rp, "prepended"))


def ob_threaded(run, mir, rp):
    """Every callee of a converter that may register an import gets the ONE accumulator the output's import block is built from."""
    import convkern
    ob = run.ob("imports-threaded", "E2", "every arm of the typed-AST -> Core converters (all node kinds of convert_node, convert_def, convert_class, "
                "convert_cntrl_flow, convert_call, convert_handle, ...): on every path, every call that takes an import accumulator (Name::to_py, "
                "recursive conversions, add_import / add_from_import) is handed the arm's own `imp` - never a fresh or different Imports value, "
                "whose registrations would be lost", ["all converter arms (convkern.specs)"])
    bad, n_arms, n_calls, skipped = [], 0, 0, []
    ex_any = None
    for sp in convkern.specs():
        try:
            arm = convkern.Arm(run, mir, sp["fn"], sp["file"], sp["kind"])
        except Unsupported as e:
            skipped.append(f"{sp['fn']}:{sp['kind']}: {e}")
            continue
        n_arms += 1
        ex_any = arm.ex
        n_calls += sum(1 for p in arm.ends for ev in p.events if any(isinstance(a, Ref) and a.cell == arm.imp_ref.cell for a in ev["args"]))
        for p, ev, i in arm.foreign_imports():
            bad.append(f"{sp['fn']}:{sp['kind']}: {ev['name']} argument {i}")
    if skipped:
        return ob.inconclusive(f"arms not encodable: {skipped[:3]}")
    if n_arms < 40 or n_calls < 100:
        return ob.inconclusive(f"only {n_arms} arms / {n_calls} calls with the accumulator seen")
    run.samples.append({"obligation": ob.id, "arms": n_arms, "calls_with_accumulator": n_calls, "foreign": sorted(set(bad))[:6]})
    e2.prove(run, ob, ex_any, [], z3.BoolVal(not bad), {}, fam_replay(rp, "imports-threaded"))
    if bad:
        ob.detail += f"; foreign accumulators: {sorted(set(bad))[:4]}"


USER_IMPORTS = [(None, ["math"], []), (None, ["numpy"], ["np"]), (None, ["json", "os"], ["opsys"]), (None, ["json", "os"], ["j", "opsys"]),
                ("typing", ["Optional", "Union"], []), ("abc", ["ABC"], ["Base"]), ("collections", ["OrderedDict", "defaultdict"], ["dd"]),
                ("a", ["b", "c", "d"], ["e", "f"]), ("a", ["b", "c"], ["d", "e"])]


def import_line(frm, names, aliases):
    return (f"from {frm} " if frm else "") + "import " + ", ".join(names) + (" as " + ", ".join(aliases) if aliases else "")


def ob_user_imports(run, mir, rp):
    ob = run.ob("user-imports-reproduced", "E2+text", "to_py, the Core::Import arm, every MIR path: the text is `[from M ]import <names>[ as <aliases>]` - "
                "the `from` part exactly when there is a module, the `as` part exactly when there are aliases, however many - so the user's import line comes "
                "out as written (decided on the printer's templates for every module / 1-3 names / 0-2 aliases combination; the real pipeline is replayed)",
                ["to_py (Import, Id)"])
    import printkern

    def replay(model):
        src = "\n".join(import_line(*u) for u in USER_IMPORTS) + "\nprint(1)"
        bad = []
        for annotate in (False, True):
            r = rp.transpile(src, annotate=annotate)
            if r[0] != "OK":
                bad.append(("pipeline", r[1][:200]))
                continue
            lines = r[1].split("\n")
            for u in USER_IMPORTS:
                if import_line(*u) not in lines:
                    bad.append((import_line(*u), [ln for ln in lines if "import" in ln and u[1][0] in ln][:1]))
        if bad:
            return {"reproduced": True, "role": "user-import:" + ("aliases-dropped" if any(" as " in b[0] for b in bad) else "line-changed"),
                    "detail": f"import line {bad[0][0]!r} of the source comes out as {bad[0][1]}", "failing": [b[0] for b in bad][:6]}
        return {"reproduced": False, "detail": f"all {len(USER_IMPORTS)} import lines are reproduced verbatim, annotate on and off"}
    try:
        pm = printkern.PrinterModel(run, mir, ["Import", "Id"])
        I = lambda n: {"k": "Id", "lit": n}
        mism = []
        if pm.unknown:
            mism.append(("arm", f"conditions or pieces outside the documented text model: {pm.unknown}"))
        else:
            for frm, names, aliases in USER_IMPORTS:
                t = {"k": "Import", "from": I(frm) if frm else None, "import": [I(n) for n in names], "alias": [I(a) for a in aliases]}
                try:
                    text = pm.render(t, 0)
                except Unsupported as e:
                    mism.append((import_line(frm, names, aliases), f"model: {e}"))
                    continue
                run.paths += 1
                if text != import_line(frm, names, aliases):
                    mism.append((import_line(frm, names, aliases), text))
        ob.queries += len(USER_IMPORTS)
        ob.reach = "sat"
        if mism:
            rep = replay({})
            if rep.get("reproduced"):
                ob.violated(rep["role"], {"template_mismatches": [list(map(str, m_)) for m_ in mism[:4]]}, rep, rep["detail"])
            else:
                ob.inconclusive(f"the printer's Import templates differ from the documented text ({mism[:2]}) but the replayed import lines come out unchanged")
            return
        rep = replay({})
        run.validated += 2 * len(USER_IMPORTS)
        if rep.get("reproduced"):
            ob.inconclusive(f"the real pipeline changes user imports although the printer arm is as specified: {rep['detail']}")
        else:
            ob.discharged(f"{pm.paths} MIR paths of the Import / Id arms; {len(USER_IMPORTS)} combinations rendered from the templates equal the source line", 0, pm.paths)
    except Unsupported as e:
        ob.inconclusive(str(e))


def run(run):
    mir = e2.load_mir(run)
    rp = common.Replay()
    run.assume("Imports::add_from_import / BTreeMap internals are uninterpreted (the pairing obligations compare the call's arguments)",
               "concrete_to_python maps Any to Any (decided by the Kani table harness)",
               "outside: free-name analysis of whole outputs; NewType / ABC in convert_class (HashMap re-ordering loops)")
    run.trusted += ["rustc nightly MIR dump", "mirsym MIR semantics", "z3", "python3 ast (replay)"]
    run.bounds = {"accumulator_entries": 2}
    for f in (ob_pairing, ob_sqrt_abc, ob_add_import, ob_add_from_import, ob_class_imports, ob_prepend, ob_threaded, ob_user_imports):
        try:
            f(run, mir, rp)
        except Unsupported as e:
            run.ob(f.__name__[3:] + "-encoding", "E2", "kernel is encodable").inconclusive(f"unsupported construct: {e}")
    if run.clean():
        n, bad = program_family(rp)
        run.validated += n
        if bad:
            run.ob("family-imports", "native", "emitted modules import what they use").inconclusive(str(bad[:2])[:600])
    rp.close()
