"""C18 — token positions exact, indentation balanced (E2 MIR->z3 kernels + E1 Kani harnesses)."""
import os
import re
import z3

import common
import e2
import lexkern
from e2 import conj, disj
from lexkern import MAXN, SymState, run_state_token, summarize_token_paths, tok_kind
from mirsym import Exec, State, Opq, Agg, Ref, StrC, Seq, Val, Unsupported

LEVEL = "model_checking"
EXPLANATION = ("State::token/newline/space/flush_indents, Lex::new and the CaretPos arithmetic are executed "
               "symbolically from MIR over the whole i32/usize range (bounded only by 2^20 on coordinates); "
               "z3 decides span/caret exactness per step and composes the extracted Indent/Dedent counts over "
               "sequences of lines for balance; one lexer step per token start is model-checked with Kani over "
               "a symbolic look-ahead window.")


def names_of(S, extra=None):
    d = dict(S.vars())
    if extra:
        d.update(extra)
    return d


# ------------------------------------------------------------------------------------------------
# native replays


def tokens_check(rp, src):
    """Property-level check of a real token stream: spans cover the token text, ordered,
    non-overlapping, lines do not drift, indents balanced, single trailing Eof."""
    st, toks = rp.tokens(src)
    if st != "OK":
        return None if st == "ERR" else f"{st}: {toks}"
    lines = src.split("\n")
    depth = 0
    prev_end = (1, 1)
    for i, t in enumerate(toks):
        kind = t["tok"].split("(")[0]
        if kind == "Indent":
            depth += 1
            continue
        if kind == "Dedent":
            depth -= 1
            if depth < 0:
                return f"dedent below zero at token {i}"
            continue
        if kind in ("NL", "Eof"):
            continue
        text = t["text"]
        if kind == "DocStr":
            continue
        sl, sp, el, ep = t["sl"], t["sp"], t["el"], t["ep"]
        if not (1 <= sl <= len(lines)):
            return f"token {t['tok']} on line {sl} outside the {len(lines)} source lines"
        if "\n" not in text:
            got = lines[sl - 1][sp - 1:sp - 1 + len(text)]
            if got != text or el != sl or ep != sp + len(text):
                return f"token {t['tok']} span ({sl},{sp})-({el},{ep}) covers {got!r}, not {text!r}"
        else:
            if el != sl + text.count("\n"):
                return f"multi-line token {t['tok']!r} ends on line {el}, expected {sl + text.count(chr(10))}"
        if (sl, sp) < prev_end:
            return f"token {t['tok']} at ({sl},{sp}) overlaps previous end {prev_end}"
        prev_end = (el, ep) if "\n" not in text else (el, 1)
    if depth != 0:
        return f"unbalanced indentation: {depth} indent(s) not closed before end of input"
    if not toks or toks[-1]["tok"] != "Eof" or sum(1 for t in toks if t["tok"] == "Eof") != 1:
        return "stream does not end with a single Eof"
    return None


TOKEN_FAMILY = [
    "x := 1", "def f(x: Int) -> Int => x + 1", "a <= b >= c != d", "x := \"abc\" + y", "x := \"\"\ny := 2",
    "x := \"a\nb\"\ny := 2", "if a then\n    b\nelse\n    c\nd", "if a then\n    if b then\n        c\nd",
    "if a then\n  b\n    c\n        d\ne", "for i in 0 ..= 10 .. 2 do\n    print(i)", "a :: b ::= c",
    "x := 1 << 2", "x := 1 >> 2", "x <<= 2", "x >>= 2", "x := 10E2 + 3.5", "# comment\nx := 1  # trailing",
    "x := \"a {b} c\"", "class A\n    def x: Int := 1\n\n    def f(self) -> Int => self.x\n", "a\r\nb",
    "x := \"a\n\"\ny := 2", "f(a)(b).c[d]", "x := not a and b or c", "x := a _and_ b _or_ c",
    "x := 2E3E5", "x := 2E3Ex", "1 + 2E3Ey", "x := 2E", "a := 1.2.3", "a := 1..2", "a := 1 ..= 2", "x := 12abc", "x := 1.5E2",
    "# c", "x # c", "x := \"} {\"", "x := \"a {b} c {d}\"", "x := \"{\"", "x := \"}\"", "abc_1 := _x9", "a<=b>=c!=d->e=>f",
    "a::=b..=c", "x := \"\\\"\"", "i := isa_x", "if_ := 1",
]


def family_replay(rp, what):
    def f(model):
        for src in TOKEN_FAMILY:
            why = tokens_check(rp, src)
            if why:
                return {"reproduced": True, "role": f"{what}:{src!r}", "detail": why, "source": src}
        return {"reproduced": False, "detail": f"{len(TOKEN_FAMILY)} family inputs lex with exact spans"}
    return f


def step_check(rp, text, cur, li, ttl, line, col, nnl):
    """One real lexer step (into_tokens through the hook) from the given state on `text` (the step
    must consume all of it); property-level expectations on spans and caret. Returns None or why."""
    st, out = rp.req("step", common.hexs(text[0]), common.hexs(text[1:] + " "), cur, li, 1 if ttl else 0, line, col, nnl)
    if st == "ERR":
        return None
    if st != "OK":
        return f"{st}: {out[:100]}"
    rows = out.split("\n")
    consumed, pl, pc, cur2, li2, ttl2, nnl2 = (int(x) for x in rows[0].split("\t"))
    if consumed != len(text):
        return f"step on {text!r} consumed {consumed} characters, the token has {len(text)}"
    toks = [r.split("\t") for r in rows[1:]]
    for t in toks:
        if (int(t[2]), int(t[3])) != (line, col):
            return f"emitted {t[0]} starts at ({t[2]},{t[3]}), the caret was at ({line},{col})"
    want_line = line + text.count("\n")
    if pl != want_line:
        return f"caret line after {text!r} is {pl}, expected {want_line}"
    if "\n" not in text and pc != col + len(text):
        return f"caret column after {text!r} is {pc}, expected {col + len(text)}"
    if toks:
        last = toks[-1]
        if int(last[4]) != want_line or ("\n" not in text and int(last[5]) != col + len(text)):
            return f"token {last[0]} ends at ({last[4]},{last[5]}), expected line {want_line}" + \
                ("" if "\n" in text else f" column {col + len(text)}")
    if cur2 != li or nnl2 != 0 or ttl2 != 1:
        return f"state after token: cur_indent={cur2} (line_indent was {li}), pending={nnl2}, token_this_line={ttl2}"
    return None


def text_for(ex, model):
    d = int(model.get("token.discriminant", -1))
    if d == ex.discr_of_variant("Token", "Str"):
        return "str", '"' + "x\n" * min(int(model.get("str.newlines", 0)), 40) + \
            ("y" if model.get("str.tail_nonempty") else "") + '"'
    if d == ex.discr_of_variant("Token", "DocStr"):
        return "docstr", None
    return "plain", "pass"


def state_replay(rp, ex, what, k):
    def f(model):
        kind, text = text_for(ex, model)
        cur, li = int(model["cur_indent"]), int(model["line_indent"])
        line, col = int(model["pos.line"]), int(model["pos.pos"])
        texts = [text] if text else []
        if kind == "str":
            texts += ['""', '"a\n"', '"a\nb"']
        if kind == "docstr":
            for s_ in ("", "a\n", "a\nb"):
                stt, out = rp.req("lexnew", 3, 5, "doc", common.hexs(s_))
                if stt != "OK" or int(out.split("\t")[0]) != 3 + s_.count("\n"):
                    return {"reproduced": True, "role": f"{what}:docstr-lines", "detail":
                            f"DocStr({s_!r}) at line 3 ends on line {out.split(chr(9))[0] if stt == 'OK' else stt}, expected {3 + s_.count(chr(10))}"}
            return {"reproduced": False, "detail": "doc-string line arithmetic is exact"}
        for t in texts:
            why = step_check(rp, t, cur, li, bool(model.get("token_this_line")), line, col, k)
            if why:
                role = kind
                if kind == "str":
                    body = t[1:-1]
                    role = "empty-string" if body == "" else ("string-trailing-newline" if body.endswith("\n") else "string-multiline")
                return {"reproduced": True, "role": f"{what}:{role}", "detail": why, "state": [cur, li, line, col, k], "text": t}
        return {"reproduced": False, "detail": f"real step on {texts} from the model state behaves as required"}
    return f


# ------------------------------------------------------------------------------------------------
# E2 obligations


def ob_state_token(run, mir, rp):
    summaries = {}
    for k in (0, 1, 2):
        ob = run.ob(f"state-token-k{k}", "E2",
                    f"State::token(t), t != NL, {k} pending newline(s): every emitted Lex starts at the caret, "
                    "order is [one pending NL] layout [NL] [other pending NLs] token, cur_indent' = line_indent, "
                    "token_this_line' = true, nothing stays pending, caret advances by width(t) columns and by the "
                    "number of newline characters of a (doc-)string in lines", ["State::token", "Lex::new", "CaretPos::offset_pos", "CaretPos::offset_line"])
        try:
            ex, st, S, tok, ends = run_state_token(run, mir, k)
            sums = summarize_token_paths(ex, st, S, ends, tok)
            summaries[k] = (ex, st, S, tok, ends, sums)
            d = ex.discr(st, tok, "Token")
            nl_idx = ex.discr_of_variant("Token", "NL")
            str_idx, doc_idx = ex.discr_of_variant("Token", "Str"), ex.discr_of_variant("Token", "DocStr")
            width = ex.uf("width", Val, z3.BitVecSort(64))(ex.to_val(st, tok))
            hyp = [S.inv(), d != nl_idx]
            cl = []
            panics = [conj(p.cond) for p in ends if p.kind == "panic"]
            cl.append(z3.Not(disj(panics)))
            cl.append(disj([s["cond"] for s in sums]))
            for s in sums:
                a = s["after"]
                c = []
                # every emitted lex starts at the caret before the call
                seen_token = False
                shape = []
                for it in s["items"]:
                    if it[0] == "pending":
                        shape.append(("P", it[1]))
                        continue
                    start = it[2]
                    if start is None:
                        c.append(z3.BoolVal(False))
                        continue
                    c.append(z3.And(start[0] == S.line, start[1] == S.col))
                    shape.append((it[0], it[1]))
                    if it[0] == "item" and it[1] is None:
                        seen_token = True
                        c.append(ex.to_val(st, it[4]) == ex.to_val(st, tok))
                # order
                want_prefix = [("P", k - 1)] if k > 0 else []
                rest_pending = [("P", i) for i in range(0, k - 1)]
                ok_shapes = [
                    want_prefix + [("rep", "Indent")] + rest_pending + [("item", None)],
                    want_prefix + [("rep", "Dedent"), ("item", "NL")] + rest_pending + [("item", None)],
                ]
                c.append(z3.BoolVal(shape in ok_shapes and seen_token))
                # state afterwards
                c.append(a["cur_indent"] == S.li)
                c.append(a["line_indent"] == S.li)
                c.append(a["token_this_line"] == z3.BoolVal(True) if not z3.is_bool(a["token_this_line"]) else a["token_this_line"])
                c.append(z3.BoolVal(isinstance(a["newlines"], Seq) and len(a["newlines"].parts) == 0))
                line2, col2 = a["pos"].fields
                # caret: columns advance by the width, lines by the newline characters inside (doc)strings
                sval = None
                nlc = z3.BitVecVal(0, 64)
                for idx, var in ((str_idx, "Str"), (doc_idx, "DocStr")):
                    payload = ex.project(st, ex.project(st, tok, ("v", var)), ("f", 0), "std::string::String")
                    nlc = z3.If(d == idx, lexkern.nl_of(ex, ex.to_val(st, payload)), nlc)
                c.append(line2 == S.line + nlc)
                c.append(z3.Implies(nlc == 0, col2 == S.col + width))
                cl.append(z3.Implies(s["cond"], conj(c)))
            slt = ex.to_val(st, ex.project(st, ex.project(st, tok, ("v", "Str")), ("f", 0), "std::string::String"))
            small = [z3.And(S.cur <= 41, S.li <= 41, z3.ULE(S.line, 50), z3.ULE(S.col, 50),
                            z3.ULE(lexkern.nl_of(ex, slt), 2))]
            e2.prove(run, ob, ex, hyp, conj(cl),
                     names_of(S, {"token.discriminant": d, "width": width,
                                  "str.newlines": ex.uf("newlines", Val, z3.BitVecSort(64))(slt),
                                  "str.tail_nonempty": ex.uf("tail_nonempty", Val, z3.BoolSort())(slt)}),
                     state_replay(rp, ex, f"state-token", k), prefer=[small])
        except Unsupported as e:
            ob.inconclusive(f"unsupported: {e}")
    return summaries


def ob_state_misc(run, mir, rp):
    out = {}
    # token(NL)
    ob = run.ob("state-newline", "E2", "State::token(NL) emits nothing, queues one NL at the caret, resets "
                "line_indent to 1 and token_this_line to false, moves the caret to (line+1, 1), keeps cur_indent",
                ["State::token", "State::newline"])
    try:
        ex, st, S, tok, ends = run_state_token(run, mir, 1, token=Agg("Token", "NL", []))
        cl = [z3.Not(disj([conj(p.cond) for p in ends if p.kind == "panic"]))]
        rets = [p for p in ends if p.kind == "return"]
        cl.append(disj([conj(p.cond) for p in rets]))
        for p in rets:
            a = S.after(p)
            nl = a["newlines"]
            okq = isinstance(nl, Seq) and len(nl.parts) == 2 and nl.parts[0][1] is S.pending[0]
            c = [z3.BoolVal(isinstance(p.ret, Seq) and len(p.ret.parts) == 0), z3.BoolVal(bool(okq))]
            if okq:
                kind, start, end, _t = tok_kind(ex, st, nl.parts[1][1])
                c += [z3.BoolVal(kind == "NL"), start[0] == S.line, start[1] == S.col]
            c += [a["line_indent"] == 1, z3.Not(a["token_this_line"]), a["cur_indent"] == S.cur,
                  a["pos"].fields[0] == S.line + 1, a["pos"].fields[1] == 1]
            cl.append(z3.Implies(conj(p.cond), conj(c)))
        e2.prove(run, ob, ex, [S.inv()], conj(cl), names_of(S), family_replay(rp, "state-newline"))
        out["newline"] = (ex, st, S, ends)
    except Unsupported as e:
        ob.inconclusive(f"unsupported: {e}")

    ob = run.ob("state-space", "E2", "State::space advances the caret by one column and counts the space as "
                "indentation exactly when no token was seen on this line", ["State::space"])
    try:
        fn = e2.find1(mir, file=lexkern.STATE_RS, impl="impl State", name="space")
        ex = Exec(mir, inline=lexkern.STATE_INLINE, models=lexkern.LEX_MODELS)
        st = State()
        S = SymState(ex, st, 1)
        ends = e2.run_kernel(run, ex, fn, [S.ref], st)
        cl = [z3.Not(disj([conj(p.cond) for p in ends if p.kind == "panic"]))]
        rets = [p for p in ends if p.kind == "return"]
        cl.append(disj([conj(p.cond) for p in rets]))
        for p in rets:
            a = S.after(p)
            c = [a["pos"].fields[0] == S.line, a["pos"].fields[1] == S.col + 1,
                 a["line_indent"] == S.li + z3.If(S.ttl, z3.BitVecVal(0, 32), z3.BitVecVal(1, 32)),
                 a["cur_indent"] == S.cur, a["token_this_line"] == S.ttl,
                 z3.BoolVal(isinstance(a["newlines"], Seq) and len(a["newlines"].parts) == 1)]
            cl.append(z3.Implies(conj(p.cond), conj(c)))
        e2.prove(run, ob, ex, [S.inv()], conj(cl), names_of(S), family_replay(rp, "state-space"))
        out["space"] = (ex, st, S, ends)
    except Unsupported as e:
        ob.inconclusive(f"unsupported: {e}")

    ob = run.ob("state-flush", "E2", "flush_indents emits only Dedent tokens at the caret and resets cur_indent to 1",
                ["State::flush_indents"])
    try:
        fn = e2.find1(mir, file=lexkern.STATE_RS, impl="impl State", name="flush_indents")
        ex = Exec(mir, inline=lexkern.STATE_INLINE, models=lexkern.LEX_MODELS)
        st = State()
        S = SymState(ex, st, 0)
        ends = e2.run_kernel(run, ex, fn, [S.ref], st)
        cl = [z3.Not(disj([conj(p.cond) for p in ends if p.kind == "panic"]))]
        rets = [p for p in ends if p.kind == "return"]
        cl.append(disj([conj(p.cond) for p in rets]))
        flush_n = []
        for p in rets:
            a = S.after(p)
            ok = isinstance(p.ret, Seq) and len(p.ret.parts) == 1 and p.ret.parts[0][0] == "rep"
            c = [z3.BoolVal(bool(ok)), a["cur_indent"] == 1]
            if ok:
                kind, start, end, _t = tok_kind(ex, st, p.ret.parts[0][1])
                c += [z3.BoolVal(kind == "Dedent"), start[0] == S.line, start[1] == S.col]
                flush_n.append((conj(p.cond), p.ret.parts[0][2]))
            cl.append(z3.Implies(conj(p.cond), conj(c)))
        e2.prove(run, ob, ex, [S.inv()], conj(cl), names_of(S), family_replay(rp, "state-flush"))
        out["flush"] = (ex, st, S, ends, flush_n)
    except Unsupported as e:
        ob.inconclusive(f"unsupported: {e}")
    return out


def ob_balance(run, mir, rp, summaries, misc, tier):
    """Compose the extracted Indent/Dedent counts over sequences of lines: #Indent = #Dedent at end."""
    K = 4 if tier == "quick" else 6
    ob = run.ob("indent-balance", "E2+z3",
                f"for every sequence of <= {K} lines with arbitrary indentation (not assumed to be multiples of 4) "
                "the Indent tokens emitted by the first token of each line equal the Dedent tokens emitted by "
                "later lines plus flush_indents at end of input", ["State::token", "State::flush_indents"])
    try:
        if 0 not in summaries or "flush" not in misc:
            raise Unsupported("summaries not available")
        ex, st, S, tok, ends, sums = summaries[0]
        _exf, _stf, Sf, _endsf, flush_n = misc["flush"]
        d = ex.discr(st, tok, "Token")
        # counts as functions of (cur, li): the token kind does not matter for layout (checked here)
        ind = z3.BitVecVal(0, 64)
        ded = z3.BitVecVal(0, 64)
        for s in sums:
            ind = z3.If(s["cond"], s["n_indent"], ind)
            ded = z3.If(s["cond"], s["n_dedent"], ded)
        fl = z3.BitVecVal(0, 64)
        for c, n in flush_n:
            fl = z3.If(c, n, fl)
        lis = [z3.BitVec(f"indent_line{i}", 32) for i in range(K)]
        n = z3.Int("n_lines")
        total_i = z3.BitVecVal(0, 64)
        total_d = z3.BitVecVal(0, 64)
        cur = z3.BitVecVal(1, 32)
        hyp = [d != ex.discr_of_variant("Token", "NL"), S.inv(), Sf.inv()]
        nls = z3.BitVec("used_lines", 32)
        hyp.append(z3.And(nls >= 0, nls <= K))
        for i, l in enumerate(lis):
            hyp.append(z3.And(l >= 1, l <= MAXN))
            used = nls > i
            sub = [(S.cur, cur), (S.li, l)]
            total_i = total_i + z3.If(used, z3.substitute(ind, *sub), z3.BitVecVal(0, 64))
            total_d = total_d + z3.If(used, z3.substitute(ded, *sub), z3.BitVecVal(0, 64))
            cur = z3.If(used, l, cur)     # cur' = li (proved per step in state-token-k*)
        total_d = total_d + z3.substitute(fl, (Sf.cur, cur))
        names = {f"indent_line{i}": l for i, l in enumerate(lis)}
        names["used_lines"] = nls

        def rp_balance(model):
            k = int(model.get("used_lines", K))
            k = k if k < (1 << 31) else 0
            ind_ = [int(model[f"indent_line{i}"]) for i in range(min(k, K))]
            if any(x > 200 for x in ind_):
                return family_replay(rp, "balance")(model)
            src = "\n".join(" " * (x - 1) + "a" for x in ind_)
            why = tokens_check(rp, src)
            if why:
                return {"reproduced": True, "role": "balance:indentation-not-multiple-of-4"
                        if any((x - 1) % 4 for x in ind_) else "balance:multiple-of-4",
                        "detail": f"{src!r}: {why}", "source": src}
            return family_replay(rp, "balance")(model)
        small = [z3.And(*[l <= 41 for l in lis])]
        # 1. inductive step (covers any number of lines): with pending(cur) := what flush_indents
        #    would emit from cur_indent = cur, one first-token-of-line step keeps
        #    #Indent - #Dedent so far == pending(cur); initially pending(1) == 0.
        fl_cur = z3.substitute(fl, (Sf.cur, S.cur))
        fl_li = z3.substitute(fl, (Sf.cur, S.li))
        fl_1 = z3.substitute(fl, (Sf.cur, z3.BitVecVal(1, 32)))
        step = z3.And(ind - ded == fl_li - fl_cur, fl_1 == 0)
        hyp_step = [d != ex.discr_of_variant("Token", "NL"), S.inv(), z3.substitute(Sf.inv(), (Sf.cur, S.cur))]
        r, m, dt, _s = e2.solve(ex, hyp_step + [z3.Not(step)], 60000)
        ob.solver_s += dt
        ob.queries += 1
        if r == z3.unsat:
            ob.discharged(f"inductive step unsat in {dt:.2f}s (any number of lines)")
            ob.reach = "sat"
            return
        # 2. the invariant is not inductive: look for a real unbalanced sequence of <= K lines
        e2.prove(run, ob, ex, hyp, total_i == total_d, names, rp_balance, prefer=[small])
    except Unsupported as e:
        ob.inconclusive(f"unsupported: {e}")


def ob_lex_new(run, mir, rp):
    ob = run.ob("lex-new-span", "E2", "Lex::new: end = (start.line + #newline characters of a (doc-)string, "
                "start.pos + width) for single-line tokens; no panic", ["Lex::new", "CaretPos::offset_line", "CaretPos::offset_pos"])
    try:
        fn = e2.find1(mir, file=lexkern.TOKEN_RS, impl="impl Lex", name="new")
        ex = Exec(mir, inline=lexkern.STATE_INLINE, models=lexkern.LEX_MODELS)
        st = State()
        line, col = z3.BitVec("start.line", 64), z3.BitVec("start.pos", 64)
        tok = Opq(z3.Const("tok", Val), "Token")
        ends = e2.run_kernel(run, ex, fn, [Agg("CaretPos", None, [line, col]), tok], st)
        d = ex.discr(st, tok, "Token")
        width = ex.uf("width", Val, z3.BitVecSort(64))(ex.to_val(st, tok))
        nlc = z3.BitVecVal(0, 64)
        tails = {}
        for var in ("Str", "DocStr"):
            payload = ex.project(st, ex.project(st, tok, ("v", var)), ("f", 0), "std::string::String")
            lt = ex.to_val(st, payload)
            nls = lexkern.nl_of(ex, lt)
            tails[var] = (nls, lexkern.tail_of(ex, lt))
            nlc = z3.If(d == ex.discr_of_variant("Token", var), nls, nlc)
        hyp = [z3.UGE(line, 1), z3.ULE(line, MAXN), z3.UGE(col, 1), z3.ULE(col, MAXN)]
        cl = [z3.Not(disj([conj(p.cond) for p in ends if p.kind == "panic"]))]
        rets = [p for p in ends if p.kind == "return"]
        cl.append(disj([conj(p.cond) for p in rets]))
        for p in rets:
            pos, t = p.ret.fields
            s_, e_ = pos.fields[0].fields, pos.fields[1].fields
            c = [s_[0] == line, s_[1] == col, e_[0] == line + nlc, z3.Implies(nlc == 0, e_[1] == col + width),
                 ex.to_val(st, t) == ex.to_val(st, tok)]
            cl.append(z3.Implies(conj(p.cond), conj(c)))
        names = {"start.line": line, "start.pos": col, "token.discriminant": d, "width": width,
                 "str.newlines": tails["Str"][0], "str.tail_nonempty": tails["Str"][1],
                 "docstr.newlines": tails["DocStr"][0], "docstr.tail_nonempty": tails["DocStr"][1]}

        def rp_lexnew(model):
            dd = int(model.get("token.discriminant", -1))
            cases = []
            for var, kind in (("Str", "str"), ("DocStr", "doc")):
                if dd == ex.discr_of_variant("Token", var):
                    n, tail = int(model[f"{kind if kind=='str' else 'docstr'}.newlines"]), bool(model[f"{kind if kind=='str' else 'docstr'}.tail_nonempty"])
                    if n <= 50:
                        cases.append((kind, "x\n" * n + ("y" if tail else "")))
            cases += [("str", ""), ("str", "a"), ("str", "a\nb"), ("str", "a\n"), ("doc", "a\nb\nc"), ("id", "abc")]
            for kind, s in cases:
                stt, out = rp.req("lexnew", 3, 5, kind, common.hexs(s))
                if stt != "OK":
                    return {"reproduced": True, "role": f"lex-new:{kind}:panic", "detail": f"Lex::new((3,5), {kind}({s!r})): {stt} {out[:80]}"}
                el, ep = (int(x) for x in out.split("\t"))
                want = 3 + (s.count("\n") if kind in ("str", "doc") else 0)
                if el != want:
                    role = "empty-string" if s == "" else ("trailing-newline" if s.endswith("\n") else "other")
                    return {"reproduced": True, "role": f"lex-new:line:{role}",
                            "detail": f"Lex::new((3,5), {kind}({s!r})).end.line = {el}, the text has {s.count(chr(10))} newline(s) so it must be {want}"}
            return {"reproduced": False, "detail": "Lex::new end lines are exact on the model and the family"}
        e2.prove(run, ob, ex, hyp, conj(cl), names, rp_lexnew)
    except Unsupported as e:
        ob.inconclusive(f"unsupported: {e}")


def ob_caret(run, mir, rp):
    ob = run.ob("caret-arith", "E2", "CaretPos::{offset_pos,offset_line,newline,offset} compute line/column sums "
                "without wrap-around or panic for coordinates <= 2^20", ["CaretPos::offset_pos", "CaretPos::offset_line", "CaretPos::newline", "CaretPos::offset"])
    try:
        cl, hyp = [], []
        ex = Exec(mir, inline=lexkern.STATE_INLINE)
        st = State()
        line, col, k = z3.BitVec("line", 64), z3.BitVec("pos", 64), z3.BitVec("k", 64)
        ol, oc = z3.BitVec("offset.line", 64), z3.BitVec("offset.pos", 64)
        hyp = [z3.UGE(x, 1) for x in (line, col, ol, oc)] + [z3.ULE(x, MAXN) for x in (line, col, k, ol, oc)]
        me = Agg("CaretPos", None, [line, col])
        specs = {
            "offset_pos": ([me, k], lambda r: z3.And(r[0] == line, r[1] == col + k)),
            "offset_line": ([me, k], lambda r: z3.And(r[0] == line + k, r[1] == col)),
            "newline": ([me], lambda r: z3.And(r[0] == line + 1, r[1] == 1)),
            "offset": ([me, Ref(ex.new_cell(st, Agg("CaretPos", None, [ol, oc])))],
                       lambda r: z3.And(r[0] == line + ol - 1, r[1] == col + oc - 1)),
        }
        for name, (args, spec) in specs.items():
            fn = e2.find1(mir, file=lexkern.POSITION_RS, impl="impl CaretPos", name=name)
            ends = e2.run_kernel(run, ex, fn, args, st)
            cl.append(z3.Not(disj([conj(p.cond) for p in ends if p.kind == "panic"])))
            cl.append(disj([conj(p.cond) for p in ends if p.kind == "return"]))
            for p in ends:
                if p.kind == "return":
                    cl.append(z3.Implies(conj(p.cond), spec(p.ret.fields)))

        def rp_caret(model):
            l, c, kk = int(model["line"]), int(model["pos"]), int(model["k"])
            a, b = int(model["offset.line"]), int(model["offset.pos"])
            for op, args, want in (("offset_pos", [kk], (l, c + kk)), ("offset_line", [kk], (l + kk, c)),
                                   ("newline", [], (l + 1, 1)), ("offset", [a, b], (l + a - 1, c + b - 1))):
                stt, out = rp.req("caret", op, l, c, *args)
                got = tuple(int(x) for x in out.split()) if stt == "OK" else None
                if got != want:
                    return {"reproduced": True, "role": f"caret:{op}", "detail": f"({l},{c}).{op}{tuple(args)} = {stt} {out[:60]}, expected {want}"}
            return {"reproduced": False, "detail": "caret arithmetic agrees on the model values"}
        e2.prove(run, ob, ex, hyp, conj(cl), {"line": line, "pos": col, "k": k, "offset.line": ol, "offset.pos": oc}, rp_caret)
    except Unsupported as e:
        ob.inconclusive(f"unsupported: {e}")


MNEMONIC = {"comma": ",", "colon": ":", "lparen": "(", "rparen": ")", "lbrack": "[", "rbrack": "]", "lbrace": "{",
            "rbrace": "}", "bar": "|", "dot": ".", "lt": "<", "gt": ">", "plus": "+", "minus": "-", "star": "*",
            "slash": "/", "bslash": "\\", "caret": "^", "eq": "=", "bang": "!", "question": "?", "space": " ",
            "nl": "\n", "cr": "\r"}


def step_native(rp, c0, rest, ttl, col):
    """One real into_tokens step; property-level expectations for a fixed-width token start."""
    st, out = rp.req("step", common.hexs(c0), common.hexs(rest), 1, 1, 1 if ttl else 0, 1, col, 0)
    if st == "ERR":
        return None
    if st != "OK":
        return f"{st}: {out[:100]}"
    rows = out.split("\n")
    consumed, pl, pc, cur2, li2, ttl2, nnl2 = (int(x) for x in rows[0].split("\t"))
    if consumed < 1:
        return "no progress"
    text = (c0 + rest)[:consumed]
    toks = [r.split("\t") for r in rows[1:]]
    if c0 in " \n\r":
        want = (2, 1) if "\n" in text else (1, col + 1)
        if (pl, pc) != want or toks:
            return f"layout character {c0!r}: caret ({pl},{pc}), expected {want}, tokens {toks}"
        return None
    if len(toks) != 1:
        return f"{len(toks)} tokens for {text!r}"
    t = toks[0]
    import binascii
    spelled = binascii.unhexlify(t[1]).decode() if t[1] else ""
    if spelled != text:
        return f"step on {c0 + rest!r} consumed {text!r} but produced token {t[0]} spelled {spelled!r}"
    if (int(t[2]), int(t[3]), int(t[4]), int(t[5])) != (1, col, 1, col + consumed) or (pl, pc) != (1, col + consumed):
        return f"token {t[0]} span ({t[2]},{t[3]})-({t[4]},{t[5]}), caret after ({pl},{pc}); consumed {consumed} from column {col}"
    return None


def kani_step_replay(rp):
    def f(name, failed, values):
        m = re.match(r"step(\d)_(\w+)$", name)
        if not m:
            return {"reproduced": False, "detail": "no native replay for this harness"}
        la, c0 = int(m.group(1)), MNEMONIC[m.group(2)]
        cands = []
        if values:
            flat = [v for v in values]
            try:
                if len(flat) >= la + 3 and all(len(x) == 1 for x in flat[:la]):
                    bs = [x[0] for x in flat[:la]]
                    rest = flat[la:]
                else:
                    bs = flat[0][:la]
                    rest = flat[1:]
                n = int.from_bytes(bytes(rest[0]), "little")
                ttl = bool(rest[1][0])
                col = int.from_bytes(bytes(rest[2]), "little")
                cands.append(("".join(chr(b) for b in bs[:n]), ttl, col))
            except Exception:
                pass
        # fall back to a small systematic window (the harness's own domain, sampled)
        for a in "=<>:./-x 1\n":
            for b in "=x >":
                cands.append((a + b, False, 1))
                cands.append((a, True, 7))
        cands.append(("", False, 1))
        for rest, ttl, col in cands:
            why = step_native(rp, c0, rest, ttl, col)
            if why:
                return {"reproduced": True, "role": f"step-advance:first-char={c0!r}", "detail": f"{c0 + rest!r} at column {col}: {why}",
                        "input": c0 + rest, "column": col}
        return {"reproduced": False, "detail": f"{len(cands)} native steps from {c0!r} behave as required"}
    return f


def lexstep_replay(rp):
    """Replay for the E2 lexer-step obligations: the model's own input through one real step, then the token family."""
    def mk(what):
        def f(model):
            try:
                n = int(model.get("input.len", 0))
                c0 = chr(int(model.get("first_char", 32)))
                la = "".join(chr(int(model.get(f"lookahead[{i}]", 32))) for i in range(min(n, 4)))
                if n <= 4 and all(32 <= ord(ch) < 127 or ch in "\n\r" for ch in c0 + la):
                    cur, li = int(model.get("cur_indent", 1)), int(model.get("line_indent", 1))
                    line, col = int(model.get("pos.line", 1)), int(model.get("pos.pos", 1))
                    if max(cur, li, line, col) <= 1000:
                        st, out = rp.req("step", common.hexs(c0), common.hexs(la), cur, li, 1 if model.get("token_this_line") else 0, line, col, 0)
                        if st in ("PANIC", "CRASH"):
                            return {"reproduced": True, "role": f"{what}:panic:first-char={c0!r}", "detail": f"step on {c0 + la!r}: {st} {out[:100]}"}
                        if st == "OK":
                            rows = out.split("\n")
                            consumed, pl, pc = (int(x) for x in rows[0].split("\t")[:3])
                            toks = [r.split("\t") for r in rows[1:]]
                            text = (c0 + la)[:consumed]
                            import binascii
                            if toks and "\n" not in text:
                                t = toks[-1]
                                spelled = binascii.unhexlify(t[1]).decode() if t[1] else ""
                                if spelled != text and not t[0].startswith(("Str(", "DocStr(")):
                                    return {"reproduced": True, "role": f"{what}:first-char={c0!r}", "detail": f"step on {c0 + la!r} took {text!r} but produced {t[0]} spelled {spelled!r}"}
                                if (int(t[4]), int(t[5])) != (line, col + consumed) or (pl, pc) != (line, col + consumed):
                                    return {"reproduced": True, "role": f"{what}:first-char={c0!r}", "detail": f"step on {c0 + la!r}: token ends ({t[4]},{t[5]}), caret ({pl},{pc}), {consumed} characters from column {col}"}
            except Exception as e:   # pragma: no cover
                pass
            if "panic" in what:
                for src in TOKEN_FAMILY:
                    st, toks = rp.tokens(src)
                    if st in ("PANIC", "CRASH"):
                        return {"reproduced": True, "role": f"{what}:panic:{src!r}", "detail": f"tokenize({src!r}): {st} {toks}"}
                return {"reproduced": False, "detail": "no panic on the model input or the token family"}
            return family_replay(rp, what)(model)
        return f
    return mk


def kani_part(run, rp, tier, quick_set):
    import e1
    names = list(quick_set) + ["state_token_nl", "state_space", "table_long_names"]
    if tier == "thorough":
        fam = e1.kani_runner.FAMILIES
        names = fam["step2"] + fam["step3"] + fam["step_other"] + fam["state"] + fam["state_order_quick"] + fam["table"]
    descs = {"step": "one real lexer step from this first character over a symbolic look-ahead window: exactly one token, span = characters consumed, caret advanced by exactly those characters, kind = longest canonical spelling, progress, no panic",
             "state": "one State method from a symbolic state: result length/content and state afterwards",
             "table": "name table against the documented keyword / type-name list"}
    e1.run(run, names, lambda n: descs[n.split("_")[0][:5].rstrip("23")] if n.split("_")[0][:5].rstrip("23") in descs else descs["state"],
           kani_step_replay(rp))


def run(run):
    mir = e2.load_mir(run)
    rp = common.Replay()
    run.assume(f"caret coordinates, token widths, indentation and newline counts <= 2^20 (= {MAXN})",
               "str::lines().count() = #newline characters + (1 if the text after the last newline is non-empty else 0)",
               "Token::width is an uninterpreted function of the token in the State/Lex::new kernels (its table is checked separately)",
               "Vec push/append/pop/from_elem follow their documented sequence semantics (abstract sequence model)",
               "unwind edges are not followed")
    run.trusted += ["rustc nightly MIR dump", "mirsym MIR semantics", "z3", "Kani 0.68 / CBMC 6.11 (E1 part)"]
    run.bounds = {"coordinates": f"<= {MAXN}", "pending_newlines": "0..2", "balance_lines": "4 (quick) / 6 (thorough)",
                  "outside": "whole-tokenize runs; consumers of positions; column after a multi-line string"}
    summaries = ob_state_token(run, mir, rp)
    misc = ob_state_misc(run, mir, rp)
    ob_balance(run, mir, rp, summaries, misc, run.tier)
    ob_lex_new(run, mir, rp)
    ob_caret(run, mir, rp)
    import lexstep
    def interp_replay(what):
        base = lexstep_replay(rp)(what)
        if what != "interpolation-offset":
            return base

        def f(model):
            cases = [('x := "a{b}"', [(1, 9)]), ('"{ab} c {d}"', [(1, 3), (1, 10)]), ('def y := 1\nprint("v={y} w={y}")', [(2, 11), (2, 17)]),
                     ('"{a + b}"', [(1, 3), (1, 5), (1, 7)])]
            bad = []
            for src, want_pos in cases:
                st_, toks = rp.tokens(src)
                if st_ != "OK":
                    bad.append(f"{src!r}: {st_}")
                    continue
                got = []
                for t in toks:
                    if t["tok"].startswith("Str("):
                        got += [(int(a), int(b)) for a, b in re.findall(r"start: CaretPos \{ line: (\d+), pos: (\d+) \}", t["tok"])]
                if got != want_pos:
                    bad.append(f"{src!r}: interpolated tokens start at {got}, their characters are at {want_pos}")
            if bad:
                return {"reproduced": True, "role": "interpolation-offset", "detail": "; ".join(bad[:2])}
            return {"reproduced": False, "detail": f"{len(cases)} interpolated strings: inner tokens sit on their characters"}
        return f
    lexstep.obligations(run, mir, rp, interp_replay, want=("advance", "invariants", "interp"))
    run.assume("lexer step (E2): the character iterator follows its documented contract over an arbitrary ASCII stream of <= 2^20 "
               "characters; Strings are modelled by their length; as_op_or_id returns a token spelled like the lexeme (decided by "
               "the Kani table harness); tokenize_direct (re-lexing of interpolations) is uninterpreted")
    if os.environ.get("VERIF_NO_KANI") != "1":
        import e1
        kani_part(run, rp, run.tier, e1.QUICK_A)
        run.bounds["kani"] = "look-ahead 2 bytes (quick: 8 token starts; thorough: all 24 starts, look-ahead 2 and 3), ASCII, column <= 1000, indentation <= 13"
    rp.close()
