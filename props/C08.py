"""C08 — raises must be declared or handled: caught-set decision and scoping (E2, MIR -> z3)."""
import re
import z3

import ckern
import common
import e2
from e2 import conj, disj, opq, sym_option, mk_struct, mk_variant, calls, result_kind
from mirsym import Exec, State, Opq, Agg, Ref, StrC, Seq, SymColl, Val, Unsupported, Fork

LEVEL = "model_checking"
EXPLANATION = ("check_raises_caught and its closures are executed symbolically from MIR over bounded symbolic sets "
               "(<= 2 raised, <= 2 caught names; class look-up and ancestor test free): an error is returned iff, inside a "
               "function, some raised class is unknown or has no caught ancestor. The Handle arm of gen_flow is executed "
               "with the Environment setters inlined: the guarded expression sees before ∪ arms, everything after sees "
               "exactly the set from before. The raise statement and the context-function call must consult the check.")

STMT_RS = ckern.GEN + "statement.rs"
FLOW_RS = ckern.GEN + "control_flow.rs"
CALL_RS = ckern.GEN + "call.rs"

PRE = ('class MyErr1: Exception("Something went wrong")\nclass MyErr2(msg: Str): Exception(msg)\n\n'
       'def g(x: Int) -> Int raise [MyErr1] =>\n    if x < 0 then\n        raise MyErr1()\n    else\n        return x + 2\n\n')


def family(rp):
    f = e2.Family(rp)
    f.add("call-unhandled-in-function", PRE + "def f() -> Int =>\n    g(1)\n", "reject")
    f.add("call-declared-in-function", PRE + "def f() -> Int raise [MyErr1] =>\n    g(1)\n", "accept")
    f.add("call-handled", PRE + "def f() -> Int =>\n    def a := g(1) handle\n        err: MyErr1 => 0\n    a\n", "accept")
    f.add("handle-then-unhandled-call", PRE + "def f() -> Int =>\n    def a := g(1) handle\n        err: MyErr1 => 0\n    g(2)\n", "reject")
    f.add("unhandled-call-then-handle", PRE + "def f() -> Int =>\n    def b := g(2)\n    def a := g(1) handle\n        err: MyErr1 => 0\n    a\n", "reject")
    f.add("call-handled-wrong-class", PRE + "def f() -> Int =>\n    def a := g(1) handle\n        err: MyErr2 => 0\n    a\n", "reject")
    f.add("call-handled-by-ancestor", PRE + "def f() -> Int =>\n    def a := g(1) handle\n        err: Exception => 0\n    a\n", "accept")
    f.add("call-top-level", PRE + "g(1)\n", "accept")
    f.add("raise-undeclared", PRE + "def f() -> Int =>\n    raise MyErr1()\n", "reject")
    f.add("raise-declared", PRE + "def f() -> Int raise [MyErr1] =>\n    raise MyErr1()\n", "accept")
    f.add("raise-declared-ancestor", PRE + "def f() -> Int raise [Exception] =>\n    raise MyErr1()\n", "accept")
    f.add("declare-non-exception", "class NotErr\n    def a: Int := 1\ndef f() -> Int raise [NotErr] => 1\n", "reject")
    f.add("call-in-loop-unhandled", PRE + "def f() -> Int =>\n    for i in 0 .. 3 do g(i)\n    2\n", "reject")
    f.add("call-in-loop-handled", PRE + "def f() -> Int raise [MyErr1] =>\n    for i in 0 .. 3 do g(i)\n    2\n", "accept")
    f.add("declare-exception-subclass", PRE + "def k() -> Int raise [MyErr2] => 1\n", "accept")
    f.add("declare-exception-itself", "def k() -> Int raise [Exception] => 1\n", "accept")
    f.add("call-in-branch-unhandled", PRE + "def f() -> Int =>\n    if True then\n        g(1)\n    2\n", "reject")
    return f


def ob_check_raises(run, mir, rp, fam):
    ob = run.ob("caught-set-decision", "E2", "check_raises_caught: Err iff inside a function and some raised name is "
                "unknown or no caught name is an ancestor of its class; outside functions always Ok",
                ["check_raises_caught", "::{closure#0}", "::{closure#0}::{closure#0}", "::{closure#1}"])
    fn = e2.find1(mir, file=STMT_RS, name="check_raises_caught")
    R, Cn = 2, 2
    rp_ = [z3.Bool(f"raised{i}.present") for i in range(R)]
    cp = [z3.Bool(f"caught{j}.present") for j in range(Cn)]
    raised = [opq(f"raised{i}", "TrueName") for i in range(R)]
    caught = [opq(f"caught{j}", "TrueName") for j in range(Cn)]
    ex = Exec(mir, max_paths=20000)
    st = State()
    in_fun = z3.Bool("env.in_fun")
    env, ev = ckern.sym_env(ex, st, in_fun=in_fun, raises_caught=SymColl([(cp[j], caught[j]) for j in range(Cn)]))
    ctx = Ref(ex.new_cell(st, opq("ctx", "Context")))
    pos = opq("pos", "Position")
    raises = Ref(ex.new_cell(st, SymColl([(rp_[i], raised[i]) for i in range(R)])))
    ends = e2.run_kernel(run, ex, fn, [raises, env, ctx, pos], st)
    claims = [disj([conj(p.cond) for p in ends if p.kind == "return"])]
    uncaught_any = []
    for i in range(R):
        cls = ex.app("Context.LookupClass::class", [ctx, raised[i], pos], "Result<Class, Vec<TypeErr>>", st)
        d_cls = ex.discr(st, cls, "Result<Class, Vec<TypeErr>>")
        clsv = ex.project(st, ex.project(st, cls, ("v", "Ok")), ("f", 0), "Class")
        anc = []
        for j in range(Cn):
            hp = ex.app("Class.HasParent::has_parent", [clsv, caught[j], ctx, pos], "Result<bool, Vec<TypeErr>>", st)
            d_hp = ex.discr(st, hp, "Result<bool, Vec<TypeErr>>")
            hv = ex.project(st, ex.project(st, hp, ("v", "Ok")), ("f", 0), "bool")
            anc.append(z3.And(cp[j], d_hp == 0, hv))
        caught_i = z3.And(d_cls == 0, z3.Or(*anc))
        uncaught_any.append(z3.And(rp_[i], z3.Not(caught_i)))
    want_err = z3.And(in_fun, z3.Or(*uncaught_any))
    for p in ends:
        c = conj(p.cond)
        kind = result_kind(p)
        if kind is None:
            claims.append(z3.Not(c))
            continue
        claims.append(z3.Implies(c, z3.BoolVal(kind == "Err") == want_err))
    names = {"env.in_fun": in_fun}
    names.update({f"raised{i}.present": rp_[i] for i in range(R)})
    names.update({f"caught{j}.present": cp[j] for j in range(Cn)})
    e2.prove(run, ob, ex, [], conj(claims), names, fam.as_replay("caught-set:", only=["call-", "raise-"]))
    run.samples.append({"obligation": ob.id, "paths": len(ends), "raised_slots": R, "caught_slots": Cn})


def ob_handle_scope(run, mir, rp, fam):
    ob = run.ob("handle-scoping", "E2", "gen_flow Handle arm: the guarded expression is generated with raises_caught = "
                "before ∪ arm types; the arms and everything after are generated with exactly the set from before, all other "
                "fields of the environment returned by the guarded expression kept", ["gen_flow", "Environment::raises_caught (inlined)"])
    fn = e2.find1(mir, file=FLOW_RS, name="gen_flow")
    ex = Exec(mir, max_paths=20000, inline=[r"Environment::raises_caught$"])
    st = State()
    body, _ = ckern.mk_ast("guarded", opq("guarded.node", "Node"))
    bbox = Ref(ex.new_cell(st, body))
    cases = opq("cases", "Vec<AST>")
    node = ckern.mk_node("Handle", {"expr_or_stmt": bbox, "cases": cases})
    ast, _ = ckern.mk_ast("ast", node)
    before = opq("env.raises_caught", "HashSet<TrueName>")
    env, ev = ckern.sym_env(ex, st, raises_caught=before)
    ctx, constr = ckern.refs(ex, st, "ctx", "constr")
    ends = e2.run_kernel(run, ex, fn, [Ref(ex.new_cell(st, ast)), env, ctx, constr], st)
    fields = e2.rust_struct(ckern.ENV_RS, "Environment")
    claims, n = [], 0
    for p in ends:
        c = conj(p.cond)
        s = p.state
        gens = calls(p, "generate")
        ccs = calls(p, "constrain_cases")
        if not ccs:
            # error paths (malformed arms, error in the guarded expression): no obligation beyond not reaching the arms
            continue
        n += 1
        if len(gens) != 1 or len(ccs) != 1:
            claims.append(z3.Not(c))
            continue
        g_env = gens[0]["args"][1]
        g_env = ex.read_ref(s, g_env) if isinstance(g_env, Ref) else g_env
        c_env = ccs[0]["args"][3]
        c_env = ex.read_ref(s, c_env) if isinstance(c_env, Ref) else c_env
        if not (isinstance(g_env, Agg) and isinstance(c_env, Agg) and g_env.names == fields and c_env.names == fields):
            claims.append(z3.Not(c))
            continue
        gd, cd = dict(zip(fields, g_env.fields)), dict(zip(fields, c_env.fields))
        # guarded: before ∪ arms, where arms is the collected set of arm types
        arms = [ev_ for ev_ in p.events if ev_["name"] == "Iterator::collect"]
        union_terms = [ev_ for ev_ in p.events if ev_["name"] == "HashSet::union"]
        guarded_ok = z3.BoolVal(False)
        if union_terms:
            u = union_terms[0]
            guarded_ok = z3.And(u["argvals"][0] == ex.to_val(s, before),
                                disj([u["argvals"][1] == ex.to_val(s, a_["ret"]) for a_ in arms]))
            # and the set really is the collect(cloned(union(..))) of that union
            guarded_ok = z3.And(guarded_ok, ex.to_val(s, gd["raises_caught"]) ==
                                ex.to_val(s, ex.app("Iterator::collect", [ex.app("Iterator::cloned", [u["ret"]], "Cloned", s)], "HashSet<TrueName>", s)))
        others_g = conj([ex.to_val(s, gd[f]) == ex.to_val(s, ev[f]) for f in fields if f != "raises_caught"])
        ret_env = ex.project(s, ex.project(s, gens[0]["ret"], ("v", "Ok")), ("f", 0), "Environment")
        after_ok = ex.to_val(s, cd["raises_caught"]) == ex.to_val(s, before)
        others_c = conj([ex.to_val(s, cd[f]) == ex.to_val(s, ex.project(s, ret_env, ("f", fields.index(f)), "?" if f not in ("in_loop", "in_fun", "is_expr", "is_def_mode", "is_destruct_mode") else "bool"))
                         for f in fields if f != "raises_caught"])
        claims.append(z3.Implies(c, z3.And(guarded_ok, others_g, after_ok, others_c,
                                           gens[0]["argvals"][0] == ex.to_val(s, bbox))))
    if not n:
        raise Unsupported("no path reaches constrain_cases")
    e2.prove(run, ob, ex, [], conj(claims), {}, fam.as_replay("handle-scoping:", only=["handle-", "call-handled", "unhandled-call-then"]))


def ob_sites(run, mir, rp, fam):
    ob = run.ob("raise-sites-consult-check", "E2", "a raise statement checks {the raised class}; a call of a context "
                "function checks the function's declared raises; both with the current environment, and an error aborts",
                ["gen_stmt (Raise)", "gen_call (FunctionCall)"])
    # raise statement
    fn = e2.find1(mir, file=STMT_RS, name="gen_stmt")
    ex = Exec(mir, max_paths=20000)
    st = State()
    lit = opq("raised.lit", "String")
    name_ast, _ = ckern.mk_ast("name", ckern.mk_node("Id", {"lit": lit}))
    call = ckern.mk_node("FunctionCall", {"name": Ref(ex.new_cell(st, name_ast)), "args": opq("args", "Vec<AST>")})
    err_ast, _ = ckern.mk_ast("error", call)
    node = ckern.mk_node("Raise", {"error": Ref(ex.new_cell(st, err_ast))})
    ast, apos = ckern.mk_ast("ast", node)
    env, ctx, constr = ckern.refs(ex, st, "env", "ctx", "constr")
    ends = e2.run_kernel(run, ex, fn, [Ref(ex.new_cell(st, ast)), env, ctx, constr], st)
    claims = []
    for p in ends:
        c = conj(p.cond)
        s = p.state
        crc = calls(p, "check_raises_caught")
        kind = result_kind(p)
        if not crc:
            claims.append(z3.Not(c))
            continue
        d = ex.discr(s, crc[0]["ret"], "Result<(), Vec<TypeErr>>")
        tn = [ev_ for ev_ in p.events if ev_["name"] == "TrueName.From::from"]
        from_lit = z3.BoolVal(bool(tn)) if not tn else tn[0]["argvals"][0] == ex.to_val(s, lit)
        claims.append(z3.Implies(c, z3.And(crc[0]["argvals"][1] == ex.to_val(s, env), crc[0]["argvals"][3] == ex.to_val(s, apos),
                                           from_lit, z3.BoolVal(kind == "Err") == (d == 1))))
    # context-function call
    fn2 = e2.find1(mir, file=CALL_RS, name="gen_call")
    ex2 = Exec(mir, max_paths=20000)
    st2 = State()
    name2, _ = ckern.mk_ast("fname", opq("fname.node", "Node"))
    node2 = ckern.mk_node("FunctionCall", {"name": Ref(ex2.new_cell(st2, name2)), "args": opq("args", "Vec<AST>")})
    ast2, apos2 = ckern.mk_ast("call", node2)
    env2, ctx2, constr2 = ckern.refs(ex2, st2, "env", "ctx", "constr")
    ends2 = e2.run_kernel(run, ex2, fn2, [Ref(ex2.new_cell(st2, ast2)), env2, ctx2, constr2], st2)
    claims2, n_ctx = [], 0
    for p in ends2:
        c = conj(p.cond)
        s = p.state
        funs = calls(p, "Context.LookupFunction::function")
        if not funs:
            continue
        kind = result_kind(p)
        d_f = ex2.discr(s, funs[0]["ret"], "Result<Function, Vec<TypeErr>>")
        crc = calls(p, "check_raises_caught")
        cps = calls(p, "call_parameters")
        if kind == "Ok":
            n_ctx += 1
            ok = z3.BoolVal(False)
            if crc and cps:
                fun = ex2.project(s, ex2.project(s, funs[0]["ret"], ("v", "Ok")), ("f", 0), "Function")
                d = ex2.discr(s, crc[0]["ret"], "Result<(), Vec<TypeErr>>")
                ok = z3.And(crc[0]["argvals"][1] == ex2.to_val(s, env2), d == 0, crc[0]["argvals"][3] == ex2.to_val(s, apos2))
                # the checked set must be a part of the function that was looked up
                ok = z3.And(ok, z3.BoolVal(str(ex2.to_val(s, fun)) in str(crc[0]["argvals"][0])))
            claims2.append(z3.Implies(c, ok))
    if not n_ctx:
        raise Unsupported("no Ok path through the context-function branch")
    e2.prove(run, ob, ex, [], z3.And(conj(claims), conj(claims2)) if False else conj(claims), {}, fam.as_replay("raise-site:", only=["raise-"]))
    ob2 = run.ob("call-site-consults-check", "E2", "gen_call: a call resolved through the context succeeds only after "
                 "check_raises_caught(fun.raises, env) succeeded", ["gen_call (FunctionCall)"])
    e2.prove(run, ob2, ex2, [], conj(claims2), {}, fam.as_replay("call-site:", only=["call-"]))


def _subterms(t, seen=None):
    seen = {} if seen is None else seen
    stack = [t]
    while stack:
        x = stack.pop()
        if x.get_id() in seen:
            continue
        seen[x.get_id()] = x
        stack.extend(x.children())
    return seen


def ob_declared_raises(run, mir, rp, fam):
    ob = run.ob("declared-raises", "E2", "gen_def FunDef arm: one iteration of the loop over the raises clause goes on only if the class "
                "of the declared name is known and descends from Exception (anything else is an error); the body is generated in an "
                "environment obtained by adding the declared raises to the caught set (and marked as inside a function)",
                ["gen_def (FunDef)", "gen_def::{closure}s"])
    DEF_RS = ckern.GEN + "definition.rs"
    fn = e2.find1(mir, file=DEF_RS, name="gen_def")
    ex = Exec(mir, max_paths=60000)
    st = State()
    _rel, lay = ckern.node_enum()
    mk = lambda n: ckern.mk_ast(n, opq(n + ".node", "Node"))
    (idn, _p0), (body, _bp) = mk("id"), mk("body")
    idr, bodyr = Ref(ex.new_cell(st, idn)), Ref(ex.new_cell(st, body))
    vals = {"id": idr, "args": opq("args", "Vec<AST>"), "ret": opq("ret", "Option<Box<AST>>"), "raises": opq("raises", "Vec<AST>"),
            "body": Agg("Option", "Some", [bodyr]), "pure": z3.Bool("pure")}
    if sorted(vals) != sorted(lay["FunDef"]):
        raise Unsupported(f"Node::FunDef fields changed: {lay['FunDef']}")
    node = ckern.mk_node("FunDef", {k: vals[k] for k in lay["FunDef"]})
    ast, _ = ckern.mk_ast("ast", node)
    env, ev = ckern.sym_env(ex, st)
    ctx, constr = ckern.refs(ex, st, "ctx", "constr")
    ends = e2.run_kernel(run, ex, fn, [Ref(ex.new_cell(st, ast)), env, ctx, constr], st)
    claims, n_loop, n_body = [], 0, 0
    for p in ends:
        c = conj(p.cond)
        s = p.state
        hp = [ev_ for ev_ in p.events if ev_["name"].endswith("::has_parent")]
        if p.kind == "loop_back":
            # the only loop of the arm whose body asks has_parent is the raises loop
            if not hp:
                continue
            n_loop += 1
            r = hp[-1]["ret"]
            okv = ex.project(s, ex.project(s, r, ("v", "Ok")), ("f", 0), "bool")
            cls = calls(p, "Context.LookupClass::class")
            exn = [ev_ for ev_ in p.events if ev_["name"].endswith("From::from") and ev_["args"] and isinstance(ev_["args"][0], StrC)
                   and ev_["args"][0].s == "Exception"]
            spec = [ex.discr(s, r, "Result") == 0, okv if z3.is_bool(okv) else z3.BoolVal(False), z3.BoolVal(bool(cls)), z3.BoolVal(bool(exn))]
            if exn:
                spec.append(hp[-1]["argvals"][1] == ex.to_val(s, exn[0]["ret"]))
            if cls:
                spec.append(ex.discr(s, cls[-1]["ret"], "Result") == 0)
            claims.append(z3.Implies(c, conj(spec)))
        elif result_kind(p) == "Ok":
            gens = [g for g in calls(p, "generate") if z3.eq(g["argvals"][0], ex.to_val(s, bodyr))]
            rc = calls(p, "Environment::raises_caught")
            inf = calls(p, "Environment::in_fun")
            if len(gens) != 1:
                claims.append(z3.Not(c))
                continue
            n_body += 1
            sub = _subterms(gens[0]["argvals"][1])
            ok = bool(rc) and any(ex.to_val(s, r_["ret"]).get_id() in sub for r_ in rc) and \
                bool(inf) and any(ex.to_val(s, i_["ret"]).get_id() in sub for i_ in inf)
            # what is added to the caught set is built from the raises clause of this definition
            from_clause = bool(rc) and any(ex.to_val(s, vals["raises"]).get_id() in _subterms(r_["argvals"][1]) for r_ in rc)
            claims.append(z3.Implies(c, z3.BoolVal(ok and from_clause)))
    if not n_loop or not n_body:
        raise Unsupported(f"raises loop paths {n_loop}, body paths {n_body}")
    e2.prove(run, ob, ex, [], conj(claims), {}, fam.as_replay("declared-raises:", only=["declare-", "raise-declared", "call-declared", "call-in-loop-handled"]))
    run.samples.append({"obligation": ob.id, "paths": len(ends), "raises_loop_paths": n_loop, "body_paths": n_body})


def ob_method_raises(run, mir, rp, fam):
    ob = run.ob("method-raises-checked", "E2", "function_access (where the unifier resolves `receiver.method(..)` against the receiver's class), one iteration of the loop over "
                "the receiver's classes: the exceptions the resolved method declares (`Function::raises`) are looked at - compared with what the call site "
                "catches or declares - before the call is accepted; a method call is a call", ["function_access (loop body)"])
    fn = e2.find1(mir, file="src/check/constrain/unify/function.rs", name="function_access")
    ex = Exec(mir, max_paths=20000)
    st = State()
    args = []
    for an, aty in fn.args:
        t = aty.strip()
        if t == "usize":
            v = z3.BitVec("total", 64)
        elif t.startswith("&") and not t.startswith("&[") and t != "&str":
            v = Ref(ex.new_cell(st, opq(f"a{an}", t.lstrip("&").replace("mut ", "").strip())))
        else:
            v = opq(f"a{an}", t)
        args.append(v)
    ends = e2.run_kernel(run, ex, fn, args, st)
    ff = e2.rust_struct("src/check/context/function/mod.rs", "Function")
    claims, n = [], 0

    def ids(t):
        seen, stack = set(), [t]
        while stack:
            x = stack.pop()
            if x.get_id() in seen:
                continue
            seen.add(x.get_id())
            stack.extend(x.children())
        return seen
    for p in ends:
        gets = [e_ for e_ in p.events if e_["name"].endswith("GetFun::fun")]
        pushes = calls(p, "Constraints::push")
        if not gets or not pushes:
            continue
        n += 1
        s = p.state
        fun = ex.project(s, ex.project(s, gets[-1]["ret"], ("v", "Ok")), ("f", 0), "Function")
        raises = ex.to_val(s, ex.project(s, fun, ("f", ff.index("raises")), "Name"))
        looked = any(raises.get_id() in ids(a) for e_ in p.events for a in e_["argvals"]) or any(raises.get_id() in ids(c) for c in p.cond if z3.is_expr(c))
        claims.append(z3.Implies(conj(p.cond), z3.BoolVal(bool(looked))))
    if not n:
        raise Unsupported("no path resolves a method and queues its result")
    cls = "class E(m: Str): Exception(m)\nclass A\n    def m(self) -> Int raise [E] => 1\n"
    f = e2.Family(rp)
    f.add("unhandled-in-function", cls + "def g(a: A) -> Int => a.m()", "reject")
    f.add("unhandled-in-method", cls + "class B\n    def n(self, a: A) -> Int => a.m()", "reject")
    f.add("unhandled-on-self", "class E(m: Str): Exception(m)\nclass A\n    def m(self) -> Int raise [E] => 1\n    def n(self) -> Int => self.m()", "reject")
    f.add("unhandled-in-initialiser", cls + "def g(a: A) -> Int =>\n    def v := a.m()\n    v", "reject")
    f.add("declared-by-caller", cls + "def g(a: A) -> Int raise [E] => a.m()", "accept")
    f.add("handled-by-caller", cls + "def g(a: A) -> Int =>\n    a.m() handle\n        err: E => 0", "accept")
    f.add("method-without-raises", "class A\n    def m(self) -> Int => 1\ndef g(a: A) -> Int => a.m()", "accept")

    def replay(model):
        k, bad = f.run()
        if bad:
            roles = sorted(b["role"] for b in bad)
            return {"reproduced": True, "role": "method-raises-ignored:" + "+".join(roles), "failing_programs": roles,
                    "detail": f"program {bad[0]['src']!r}: expected {bad[0]['expected']}, real verdict {bad[0]['got']}"}
        return {"reproduced": False, "detail": f"all {k} programs behave as required"}
    e2.prove(run, ob, ex, [], conj(claims), {}, replay)
    if ob.status == "discharged":
        r_ = replay({})
        run.validated += len(f.items)
        if r_["reproduced"]:
            ob.status = "pending"
            ob.inconclusive("method-raises family disagrees although the raises are looked at: " + r_["detail"])
    run.samples.append({"obligation": ob.id, "resolving_paths": n})


def run(run):
    mir = e2.load_mir(run)
    rp = common.Replay()
    fam = family(rp)
    run.assume("<= 2 raised and <= 2 caught names (bounded symbolic sets); Context::class and Class::has_parent are free",
               "HashSet::union / cloned / collect are uninterpreted (the union term itself is compared)",
               "outside: hierarchy depth, the try/except translation (converter), declared raises of methods resolved in the unifier")
    run.trusted += ["rustc nightly MIR dump", "mirsym MIR semantics", "z3"]
    run.bounds = {"raised": 2, "caught": 2}
    for f in (ob_check_raises, ob_handle_scope, ob_sites, ob_declared_raises, ob_method_raises):
        try:
            f(run, mir, rp, fam)
        except Unsupported as e:
            run.ob(f.__name__[3:] + "-encoding", "E2", "kernel is encodable").inconclusive(f"unsupported construct: {e}")
    try:
        # `raise [E]` declarations go through Class::has_parent(&Name): only descendants of Exception may be declared
        from props import C20
        C20.ob_has_parent_name(run, mir, rp, fam, only=["declare-"])
    except Unsupported as e:
        run.ob("has-parent-of-name-encoding", "E2", "kernel is encodable").inconclusive(f"unsupported construct: {e}")
    try:
        # the emitted Python catches exactly the listed classes: handle -> try/except translation (shared with C01)
        from props import C01
        C01.ob_structure(run, mir, rp, only_fns=("convert_handle",))
    except Unsupported as e:
        run.ob("structure-convert-handle-encoding", "E2", "kernel is encodable").inconclusive(f"unsupported construct: {e}")
    if run.clean():
        e2.validate_family(run, fam, "raises")
    rp.close()
