"""C05 — declared signatures are enforced: arity rule and constraint direction (E2, MIR -> z3)."""
import re
import z3

import ckern
import common
import e2
from e2 import conj, disj, opq, sym_option, mk_struct, mk_variant, calls, result_kind
from mirsym import Exec, State, Opq, Agg, Ref, StrC, Seq, Val, Unsupported

LEVEL = "model_checking"
EXPLANATION = ("The loop body of call_parameters (from a havocked loop state), the Return arm of gen_stmt, the annotated "
               "arms of id_from_var and the decision block of unify_type are executed symbolically from MIR; z3 decides the "
               "arity rule (missing / surplus / defaulted arguments) and that every constraint is added with the declared "
               "type as parent and the supplied expression as child, the nullable flag of the declared type preserved.")

CALL_RS = ckern.GEN + "call.rs"
STMT_RS = ckern.GEN + "statement.rs"
DEF_RS = ckern.GEN + "definition.rs"
UNIFY_TY_RS = "src/check/constrain/unify/ty.rs"


def family(rp):
    f = e2.Family(rp)
    fn = "def f(a: Int, b: Str := \"x\") -> Int => a\n"
    f.add("call-conforming", fn + "def r: Int := f(1, \"y\")", "accept")
    f.add("call-default-omitted", fn + "def r: Int := f(1)", "accept")
    f.add("call-missing-argument", fn + "def r: Int := f()", "reject")
    f.add("call-missing-fin-argument", "def k(fin a: Int) -> Int => a\ndef r: Int := k()", "reject")
    f.add("call-missing-second-argument", "def k(a: Int, b: Int) -> Int => a\ndef r: Int := k(1)", "reject")
    f.add("call-constructor-missing-argument", "class A(def x: Int)\n    def g(self) -> Int => self.x\ndef z := A()", "reject")
    f.add("call-constructor-conforming", "class A(def x: Int)\n    def g(self) -> Int => self.x\ndef z := A(1)", "accept")
    f.add("call-constructor-surplus-argument", "class A(def x: Int)\n    def g(self) -> Int => self.x\ndef z := A(1, 2)", "reject")
    f.add("call-surplus-argument-no-parameters", "def v() -> Int => 1\ndef r: Int := v(7)", "reject")
    f.add("call-no-parameters-conforming", "def v() -> Int => 1\ndef r: Int := v()", "accept")
    f.add("call-constructor-surplus-no-parameters", "class Counter\n    def n: Int := 0\ndef c := Counter(5)", "reject")
    f.add("body-wrong-type-with-raises", "class NegErr(msg: Str): Exception(msg)\ndef checked(x: Int) -> Int raise [NegErr] =>\n    if x < 0 then raise NegErr(\"neg\")\n    \"not a number\"", "reject")
    f.add("body-conforming-with-raises", "class NegErr(msg: Str): Exception(msg)\ndef checked(x: Int) -> Int raise [NegErr] =>\n    if x < 0 then raise NegErr(\"neg\")\n    x + 1", "accept")
    f.add("body-method-wrong-type", "class A\n    def m(self, a: Int) -> Int => 1.5", "reject")
    f.add("call-surplus-argument", fn + "def r: Int := f(1, \"y\", 3)", "reject")
    f.add("call-wrong-argument-type", fn + "def r: Int := f(\"s\")", "reject")
    f.add("call-wrong-second-argument-type", fn + "def r: Int := f(1, 2)", "reject")
    f.add("call-nullable-parameter-none", "def g(a: Int?) -> Int => 5\ndef r: Int := g(None)", "accept")
    f.add("call-nullable-parameter-value", "def g(a: Int?) -> Int => 5\ndef r: Int := g(3)", "accept")
    f.add("call-None-after-nullable-parameter", "def n(a: Int?, b: Int) -> Int => b\ndef r: Int := n(None, None)", "reject")
    f.add("call-None-for-nullable-parameter-first", "def n(a: Int?, b: Int) -> Int => b\ndef r: Int := n(None, 2)", "accept")
    f.add("call-nullable-value-after-nullable-parameter", "def n(a: Int?, b: Int) -> Int => b\ndef y: Int? := 1\ndef r: Int := n(1, y)", "reject")
    f.add("call-None-for-defaulted-parameter", "def d(a: Int, b: Int := 5) -> Int => a + b\ndef r: Int := d(1, None)", "reject")
    f.add("call-none-into-non-nullable-parameter", fn + "def r: Int := f(None)", "reject")
    f.add("return-conforming", "def h(a: Int) -> Int =>\n    return a", "accept")
    f.add("return-wrong-type", "def h(a: Int) -> Int =>\n    return \"s\"", "reject")
    f.add("body-wrong-type", "def h(a: Int) -> Int => \"s\"", "reject")
    f.add("body-conforming", "def h(a: Int) -> Int => a + 1", "accept")
    f.add("return-subtype", "def h(a: Int) -> Float =>\n    return a", "accept")
    f.add("return-supertype", "def h(a: Float) -> Int =>\n    return a", "reject")
    f.add("initialiser-conforming", "def x: Int := 5", "accept")
    f.add("initialiser-wrong-type", "def x: Int := \"s\"", "reject")
    f.add("initialiser-subtype", "def x: Float := 5", "accept")
    f.add("initialiser-supertype", "def x: Int := 5.5", "reject")
    f.add("method-call-conforming", "class A\n    def m(self, a: Int) -> Int => a\ndef z := A()\ndef r: Int := z.m(1)", "accept")
    f.add("method-call-wrong-type", "class A\n    def m(self, a: Int) -> Int => a\ndef z := A()\ndef r: Int := z.m(\"s\")", "reject")
    f.add("method-call-missing-argument", "class A\n    def m(self, a: Int) -> Int => a\ndef z := A()\ndef r: Int := z.m()", "reject")
    f.add("method-call-surplus-argument", "class A\n    def m(self, a: Int) -> Int => a\ndef z := A()\ndef r: Int := z.m(1, 2)", "reject")
    f.add("method-call-default-omitted", "class A\n    def m(self, a: Int, b: Int := 2) -> Int => a\ndef z := A()\ndef r: Int := z.m(1)", "accept")
    f.add("method-call-second-wrong-type", "class A\n    def m(self, a: Int, b: Int) -> Int => a\ndef z := A()\ndef r: Int := z.m(1, \"s\")", "reject")
    f.add("method-call-tuple-argument", "class Acc\n    def total: Int := 0\n    def add(self, amount: Int) -> Int => self.total + amount\ndef a := Acc()\ndef r: Int := a.add((5, 6))", "reject")
    f.add("operator-tuple-operand", "def x: Int := 3\ndef pair := (1, 2)\ndef r := x - pair", "reject")
    f.add("method-call-subtype", "class A\n    def m(self, a: Float) -> Float => a\ndef z := A()\ndef r: Float := z.m(1)", "accept")
    f.add("method-call-supertype", "class A\n    def m(self, a: Int) -> Int => a\ndef z := A()\ndef r: Int := z.m(1.5)", "reject")
    f.add("operator-wrong-operand", "def r := 1 + \"s\"", "reject")
    f.add("operator-conforming", "def r: Int := 1 + 2", "accept")
    meter = "class Meter\n    def scale(self, factor: Float) -> Float => factor * 2.0\n    def count(self) -> Int => 1\n\n"
    f.add("method-result-into-narrower-return", meter + "def bad(m: Meter) -> Int => m.scale(1.5)", "reject")
    f.add("method-result-into-wider-return", meter + "def good(m: Meter) -> Float => m.count()", "accept")
    f.add("operator-result-into-narrower-return", "def g(x: Float) -> Int => x + 1.0", "reject")
    f.add("operator-result-into-wider-return", "def f(x: Int) -> Float => x + 1", "accept")
    f.add("field-type-into-narrower", "class P\n    def w: Float := 1.5\ndef p := P()\ndef r: Int := p.w", "reject")
    f.add("field-type-into-wider", "class P\n    def w: Int := 1\ndef p := P()\ndef r: Float := p.w", "accept")
    f.add("shadow-closed-function-scope-str-into-float", meter + "def x: Str := \"wide\"\n\ndef half(x: Float) -> Float => x / 2.0\n\ndef m := Meter()\nm.scale(x)\n", "reject")
    f.add("shadow-closed-loop-scope-str-into-float", meter + "def run(m: Meter, x: Str) -> Float =>\n    def y := 0.0\n    for x in 0 .. 3 do\n        y := y + 1.0\n    m.scale(x)\n", "reject")
    f.add("shadow-closed-function-scope-float-into-float", meter + "def x: Float := 1.5\n\ndef shout(x: Str) -> Str => x + \"!\"\n\ndef m := Meter()\nm.scale(x)\n", "accept")
    f.add("shadow-closed-loop-scope-float-into-float", meter + "def run(m: Meter, x: Float) -> Float =>\n    for x in [\"a\", \"b\"] do\n        print(x)\n    m.scale(x)\n", "accept")
    vec = "class V(def x: Int)\n    def - (self, other: V) -> Int => self.x - other.x\n    def < (self, other: V) -> Bool => self.x < other.x\n"
    f.add("operator-defined-by-class", vec + "def r: Int := V(3) - V(1)", "accept")
    f.add("operator-not-defined-by-class", vec + "def r := V(3) + V(1)", "reject")
    f.add("operator-comparison-defined", vec + "def r: Bool := V(3) < V(1)", "accept")
    f.add("operator-comparison-not-defined", vec + "def r := V(3) > V(1)", "reject")
    f.add("operator-right-operand-wrong-class", vec + "def r := V(3) - 1", "reject")
    f.add("operator-in-list", "def r: Bool := 1 in [1, 2]", "accept")
    f.add("operator-mod-on-str", "def r := \"a\" mod 2", "reject")
    f.add("operator-pow-int", "def r: Int := 2 ^ 3", "accept")
    f.add("operator-floor-div-int", "def r: Int := 7 // 2", "accept")
    f.add("operator-true-div-int-into-int", "def r: Int := 7 / 2", "reject")
    f.add("operator-true-div-int-into-float", "def r: Float := 7 / 2", "accept")
    f.add("operator-true-div-returned-as-int", "def half(x: Int) -> Int =>\n    return x / 2", "reject")
    f.add("operator-floor-div-into-float-variable", "def r: Float := 7 // 2", "accept")
    f.add("literal-real-into-int", "def r: Int := 2.5", "reject")
    f.add("literal-int-into-str", "def r: Str := 2", "reject")
    f.add("literal-str-into-int", "def r: Int := \"s\"", "reject")
    f.add("literal-enum-into-int", "def r: Int := 2E3", "accept")
    f.add("flow-if-condition-not-truthy", "class K\ndef k := K()\nif k then print(1)", "reject")
    f.add("flow-if-condition-bool", "if 1 > 0 then print(1)", "accept")
    f.add("flow-while-condition-not-truthy", "class K\ndef k := K()\nwhile k do print(1)", "reject")
    f.add("flow-if-expression-branch-wrong-type", "def x: Int := if True then 1 else \"s\"", "reject")
    f.add("flow-if-expression-conforming", "def x: Int := if True then 1 else 2", "accept")
    f.add("flow-if-statement-branches-differ", "if True then print(1) else print(\"s\")", "accept")
    f.add("flow-match-expression-arm-wrong-type", "def a := 1\ndef x: Int := match a\n    1 => 10\n    _ => \"s\"", "reject")
    f.add("flow-match-expression-conforming", "def a := 1\ndef x: Int := match a\n    1 => 10\n    _ => 20", "accept")
    f.add("nested-call-wrong-type", fn + "def r: Int := f(f(\"s\"))", "reject")
    f.add("call-in-branch-wrong-type", fn + "if True then\n    f(\"s\")\n", "reject")
    return f


def ob_call_parameters(run, mir, rp, fam):
    ob = run.ob("call-parameters", "E2", "one iteration of the formal/actual zip from an arbitrary loop state: surplus actual "
                "=> Err; missing actual without default => Err, with default => continue without constraint; formal "
                "without type => Err; otherwise exactly one constraint with parent = declared parameter type (nullable "
                "flag preserved) at the argument's position and child = the argument expression",
                ["call_parameters (loop body)", "call_parameters::{closure#2}"])
    fn = e2.find1(mir, file=CALL_RS, name="call_parameters")
    ex = Exec(mir, max_paths=5000)
    st = State()
    self_ast, _ = ckern.mk_ast("self_ast", opq("self_ast.node", "Node"))
    possible, args = opq("possible", "&[FunctionArg]"), opq("args", "&[AST]")
    self_arg, _ = sym_option("self_arg", opq("self_arg.v", "Expect"), "Option<Expect>")
    ctx, env, constr = ckern.refs(ex, st, "ctx", "env", "constr")
    ends = e2.run_kernel(run, ex, fn, [Ref(ex.new_cell(st, self_ast)), possible, Ref(ex.new_cell(st, self_arg)), args, ctx, env, constr], st)
    fa = e2.rust_struct(ckern.ARG_RS, "FunctionArg")
    i_ty, i_def = fa.index("ty"), fa.index("has_default")
    claims = []
    seen = {"both": 0, "left": 0, "right": 0, "none": 0}
    for p in ends:
        c = conj(p.cond)
        nx = calls(p, "Iterator::next")
        if not nx:
            claims.append(z3.Not(c))
            continue
        s = p.state
        item = nx[-1]["ret"]
        d_opt = ex.discr(s, item, "Option<EitherOrBoth>")
        eob = ex.project(s, ex.project(s, item, ("v", "Some")), ("f", 0), "EitherOrBoth<&FunctionArg, &(Position, Expect)>")
        d = ex.discr(s, eob, "EitherOrBoth<&FunctionArg, &(Position, Expect)>")
        adds = calls(p, "ConstrBuilder::add")
        kind = result_kind(p)
        # classify by what the path assumed about the element
        both = ex.project(s, eob, ("v", "Both"))
        funarg_b = ex.project(s, both, ("f", 0), "&FunctionArg")
        actual = ex.project(s, both, ("f", 1), "&(Position, Expect)")
        left = ex.project(s, ex.project(s, eob, ("v", "Left")), ("f", 0), "&FunctionArg")
        ty_b = ex.project(s, funarg_b, ("f", i_ty), "Option<Name>")
        d_ty = ex.discr(s, ty_b, "Option<Name>")
        has_def = ex.project(s, left, ("f", i_def), "bool")
        spec = []
        # end of both sequences: Ok(()) and nothing added
        spec.append(z3.Implies(d_opt == 0, z3.BoolVal(kind == "Ok" and not adds)))
        some = d_opt == 1
        spec.append(z3.Implies(z3.And(some, d == 2), z3.BoolVal(kind == "Err")))                       # Right: surplus
        spec.append(z3.Implies(z3.And(some, d == 1, z3.Not(has_def)), z3.BoolVal(kind == "Err")))      # Left, no default
        spec.append(z3.Implies(z3.And(some, d == 1, has_def), z3.BoolVal(p.kind == "loop_back" and not adds)))
        spec.append(z3.Implies(z3.And(some, d == 0, d_ty == 0), z3.BoolVal(kind == "Err")))            # formal without type
        if p.kind == "loop_back" and adds:
            seen["both"] += 1
            ok_shape = len(adds) == 1
            a = adds[0]
            news = calls(p, "Expected::new")
            ty_name = ex.project(s, ex.project(s, ty_b, ("v", "Some")), ("f", 0), "Name")
            pos_a = ex.project(s, actual, ("f", 0), "Position")
            arg_a = ex.project(s, actual, ("f", 1), "Expect")
            classes = ex.app("Context.LookupClass::class", [ctx, ty_name, pos_a], "Result<HashSet<Class>, Vec<TypeErr>>", s)
            resolved = ex.app("Name.From::from", [ex.project(s, ex.project(s, classes, ("v", "Ok")), ("f", 0), "HashSet<Class>")], "Name", s)
            nullable = ex.app("Name.Nullable::is_nullable", [ty_name], "bool", s)
            want_name = z3.If(nullable, ex.to_val(s, ex.app("Name.Nullable::as_nullable", [resolved], "Name", s)), ex.to_val(s, resolved))
            parent_ok = child_ok = z3.BoolVal(False)
            for nw in news:
                second = nw["args"][1]
                second = ex.read_ref(s, second) if isinstance(second, Ref) else second
                is_parent = z3.eq(ex.to_val(s, nw["ret"]), a["argvals"][2])
                is_child = z3.eq(ex.to_val(s, nw["ret"]), a["argvals"][3])
                if is_parent and isinstance(second, Agg) and second.variant == "Type":
                    parent_ok = z3.And(ex.to_val(s, second.fields[0]) == want_name, nw["argvals"][0] == ex.to_val(s, pos_a))
                if is_child:
                    child_ok = z3.And(nw["argvals"][0] == ex.to_val(s, pos_a), nw["argvals"][1] == ex.to_val(s, arg_a))
            spec.append(z3.Implies(z3.And(some, d == 0, d_ty == 1),
                                   z3.And(z3.BoolVal(ok_shape), parent_ok, child_ok, a["argvals"][4] == ex.to_val(s, env))))
        elif p.kind == "loop_back":
            spec.append(z3.Implies(z3.And(some, d == 0, d_ty == 1), z3.BoolVal(False)))
        claims.append(z3.Implies(c, conj(spec)))
    if not seen["both"]:
        raise Unsupported("no path adds a constraint")
    names = {"self_arg.is_some": z3.Bool("self_arg.is_some")}
    e2.prove(run, ob, ex, [], conj(claims), names, fam.as_replay("call-parameters:", only=["call-", "method-call", "nested-call"]))
    run.samples.append({"obligation": ob.id, "paths": len(ends), "loop_back_paths": sum(1 for p in ends if p.kind == "loop_back")})


UNIFY_FUN_RS = "src/check/constrain/unify/function.rs"
EXPECTED_RS = "src/check/constrain/constraint/expected.rs"


def call_family(rp):
    cls = "class Animal(def name: Str)\nclass Dog(def n: Str): Animal(n)\n"
    f = e2.Family(rp)
    f.add("callresult-subclass-into-declared-parent", cls + "def factory() -> Animal => Dog(\"x\")", "accept")
    f.add("callresult-parent-into-declared-subclass", cls + "def factory() -> Dog => Animal(\"x\")", "reject")
    f.add("callresult-float-function-into-int", "def scale(x: Float) -> Float => x * 2.0\ndef as_int() -> Int => scale(1.0)", "reject")
    f.add("callresult-int-function-into-float", "def twice(x: Int) -> Int => x * 2\ndef as_float() -> Float => twice(1)", "accept")
    f.add("callresult-same-type", "def twice(x: Int) -> Int => x * 2\ndef r: Int := twice(1)", "accept")
    f.add("callresult-unrelated-type", "def twice(x: Int) -> Int => x * 2\ndef r: Str := twice(1)", "reject")
    f.add("callresult-float-into-int-variable", "def scale(x: Float) -> Float => x * 2.0\ndef r: Int := scale(1.0)", "reject")
    return f


def ob_call_result(run, mir, rp, fam):
    ob = run.ob("call-result-direction", "E2", "gen_call FunctionCall arm, callee found in the context (a declared function or a constructor): exactly one "
                "`function call` constraint is added, with parent = the call expression and child = the callee's declared return type at the call's "
                "position (the call is at least its declared result; consumers then require `declared slot >= call`), after the arguments were "
                "checked by call_parameters against that callee's parameters", ["gen_call (FunctionCall)"])
    fn = e2.find1(mir, file=CALL_RS, name="gen_call")
    ex = Exec(mir, max_paths=20000)
    st = State()
    name_ast, _ = ckern.mk_ast("name", opq("name.node", "Node"))
    argsv = opq("args", "Vec<AST>")
    node = ckern.mk_node("FunctionCall", {"name": Ref(ex.new_cell(st, name_ast)), "args": argsv})
    ast, ast_pos = ckern.mk_ast("ast", node)
    astr = Ref(ex.new_cell(st, ast))
    env, ev = ckern.sym_env(ex, st)
    ctx, constr = ckern.refs(ex, st, "ctx", "constr")
    ends = e2.run_kernel(run, ex, fn, [astr, env, ctx, constr], st)
    ff = e2.rust_struct("src/check/context/function/mod.rs", "Function")
    claims, n = [], 0
    for p in ends:
        if result_kind(p) != "Ok":
            continue
        look = [e_ for e_ in p.events if e_["name"].endswith("LookupFunction::function")]
        if not look:
            continue
        n += 1
        s = p.state
        c = conj(p.cond)
        fun = ex.project(s, ex.project(s, look[0]["ret"], ("v", "Ok")), ("f", 0), "Function")
        ret_ty = ex.to_val(s, ex.project(s, fun, ("f", ff.index("ret_ty")), "Name"))
        fargs = ex.to_val(s, ex.project(s, fun, ("f", ff.index("arguments")), "Vec<FunctionArg>"))
        adds = [a for a in calls(p, "ConstrBuilder::add") if isinstance(a["args"][1], StrC) and a["args"][1].s == "function call"]
        cps = calls(p, "call_parameters")
        if len(adds) != 1 or len(cps) != 1:
            claims.append(z3.Not(c))
            continue
        a = adds[0]
        child_ok = z3.BoolVal(False)
        for nw in calls(p, "Expected::new"):
            second = nw["args"][1]
            second = ex.read_ref(s, second) if isinstance(second, Ref) else second
            if z3.eq(ex.to_val(s, nw["ret"]), a["argvals"][3]) and isinstance(second, Agg) and second.variant == "Type":
                child_ok = z3.And(ex.to_val(s, second.fields[0]) == ret_ty, nw["argvals"][0] == ex.to_val(s, ast_pos))
        whole = ex.to_val(s, ex.app("Expected.From::from", [astr], "Expected", s))
        claims.append(z3.Implies(c, z3.And(a["argvals"][2] == whole, child_ok, a["argvals"][4] == ex.to_val(s, env),
                                           cps[0]["argvals"][1] == fargs, cps[0]["argvals"][3] == ex.to_val(s, argsv),
                                           z3.BoolVal(p.events.index(cps[0]) < p.events.index(a)))))
    if not n:
        raise Unsupported("context-function branch not reached")
    cf = call_family(rp)
    e2.prove(run, ob, ex, [], conj(claims), {}, cf.as_replay("call-result:"))
    if ob.status == "discharged":
        k, bad = cf.run()
        run.validated += k
        if bad:
            ob.status = "pending"
            ob.inconclusive(f"call-result family disagrees although the kernel is as specified: {bad[:2]}")
    run.samples.append({"obligation": ob.id, "paths": n})


def compound_family(rp):
    f = e2.Family(rp)
    vec = "class V(def x: Int)\n    def + (self, other: V) -> V => V(self.x + other.x)\n"
    f.add("compound-minus-on-str", "def s := \"hello\"\ns -= \"lo\"", "reject")
    f.add("compound-plus-on-str", "def s := \"hello\"\ns += \"lo\"", "accept")
    f.add("compound-minus-on-class-with-plus-only", vec + "def v := V(1)\nv -= V(2)", "reject")
    f.add("compound-plus-on-class-with-plus-only", vec + "def v := V(1)\nv += V(2)", "accept")
    f.add("compound-times-on-str-str", "def s := \"a\"\ns *= \"b\"", "reject")
    f.add("compound-divide-int-stays-int", "def i: Int := 4\ni /= 2", "reject")
    f.add("compound-power-int", "def i: Int := 4\ni ^= 2", "accept")
    f.add("compound-minus-int", "def i: Int := 4\ni -= 2", "accept")
    return f


def ob_compound_assignment(run, mir, rp, fam):
    ob = run.ob("compound-assignment-typing-table", "E2+z3", "reassign_op (how `x op= e` is typed): for every compound operator the checker builds the binary node OF THE "
                "SAME OPERATOR over (x, e) (so `x -= e` is typed through __sub__, like `x - e`), generates it, and then types the plain assignment "
                "`x := <that node>`; any other operator is an error", ["reassign_op"])
    fn = e2.find1(mir, file=CALL_RS, name="reassign_op")
    ex = Exec(mir, max_paths=5000)
    nodeops = ex.enum_variants("NodeOp")
    got = {}
    for k in nodeops:
        st = State()
        mk = lambda n: Ref(ex.new_cell(st, ckern.mk_ast(n, opq(n + ".node", "Node"))[0]))
        astr, left, right = mk("ast"), mk("left"), mk("right")
        env, _ev = ckern.sym_env(ex, st)
        ctx, constr = ckern.refs(ex, st, "ctx", "constr")
        ends = e2.run_kernel(run, ex, fn, [astr, left, right, Ref(ex.new_cell(st, Agg("NodeOp", k, []))), env, ctx, constr], st)
        shapes = set()
        for p in ends:
            gens = calls(p, "generate")
            if not gens:
                shapes.add("<err>" if result_kind(p) == "Err" else "<nothing>")
                continue
            a0 = gens[0]["args"][0]
            v = ex.read_ref(p.state, a0) if isinstance(a0, Ref) else a0

            def node_of(val):
                if isinstance(val, Agg) and val.names and "node" in val.names:
                    return val.fields[val.names.index("node")]
                tv = ex.to_val(p.state, val)
                for e_ in p.events:
                    if e_["name"].endswith("AST::new") and z3.eq(ex.to_val(p.state, e_["ret"]), tv):
                        n_ = e_["args"][1]
                        return ex.read_ref(p.state, n_) if isinstance(n_, Ref) else n_
                return None
            node = node_of(v)
            if not (isinstance(node, Agg) and node.names and set(node.names) >= {"left", "right"}):
                shapes.add("<?>")
                continue
            l_ok = z3.eq(ex.to_val(p.state, node.fields[node.names.index("left")]), ex.to_val(p.state, left))
            r_ok = z3.eq(ex.to_val(p.state, node.fields[node.names.index("right")]), ex.to_val(p.state, right))
            second = "<no-assign>"
            if len(gens) > 1:
                b0 = gens[1]["args"][0]
                w = ex.read_ref(p.state, b0) if isinstance(b0, Ref) else b0
                wn = node_of(w)
                if isinstance(wn, Agg) and wn.variant == "Reassign" and wn.names:
                    opv = wn.fields[wn.names.index("op")]
                    rv = wn.fields[wn.names.index("right")]
                    second = "assign" if (isinstance(opv, Agg) and opv.variant == "Assign" and z3.eq(ex.to_val(p.state, rv), ex.to_val(p.state, v)) and
                                          z3.eq(ex.to_val(p.state, wn.fields[wn.names.index("left")]), ex.to_val(p.state, left))) else "<other-assign>"
            shapes.add(f"{node.variant}({'x' if l_ok else '?'}, {'e' if r_ok else '?'}) then {second}" if result_kind(p) != "Err" or len(gens) else "<err>")
        shapes -= {s_ for s_ in shapes if s_.endswith("<no-assign>") and any(t.startswith(s_.split(" then ")[0]) and t.endswith("assign") for t in shapes)}
        got[k] = sorted(shapes)
    DOC = {"Add", "Sub", "Mul", "Div", "Pow", "BLShift", "BRShift"}          # the compound assignment operators of the language
    want = {k: ([f"{k}(x, e) then assign"] if k in DOC else ["<err>"]) for k in nodeops}
    kv = z3.Int("node_op")
    okv = z3.BoolVal(True)
    for i, k in enumerate(nodeops):
        okv = z3.If(kv == i, z3.BoolVal(got[k] == want[k]), okv)
    dom = z3.And(kv >= 0, kv < len(nodeops))
    found, block = [], []
    for _ in range(len(nodeops) + 1):
        r_, m_, dt, _s = e2.solve(ex, [dom, z3.Not(okv)] + block)
        ob.solver_s += dt
        ob.queries += 1
        if r_ != z3.sat:
            break
        ki = m_.eval(kv).as_long()
        found.append(nodeops[ki])
        block.append(kv != ki)
    ob.reach = "sat"
    run.samples.append({"obligation": ob.id, "table": got})
    cf = compound_family(rp)
    if not found:
        ob.discharged(f"unsat over {len(nodeops)} operators")
        k_, bad = cf.run()
        run.validated += k_
        if bad:
            ob.status = "pending"
            ob.inconclusive(f"compound-assignment family disagrees although the table is as documented: {bad[:2]}")
    else:
        rep = cf.as_replay("compound-assignment:")({})
        if rep.get("reproduced"):
            ob.violated(rep["role"], {"operators": found, "table": {k: got[k] for k in found}}, rep, rep["detail"])
        else:
            ob.inconclusive(f"solver reports {found} as desugared differently ({ {k: got[k] for k in found} }) but the replay programs get the required verdicts")


BITWISE = ["BAnd", "BOr", "BXOr", "BLShift", "BRShift", "BOneCmpl", "AddU", "SubU"]


def ob_bitwise_typed(run, mir, rp, fam):
    ob = run.ob("bitwise-operators-typed", "E2", "gen_op: the bitwise, shift and unary operators (`_and_`, `_or_`, `_xor_`, `_not_`, `<<`, `>>`, unary `+` and `-`) are typed as a method of "
                "their (left) operand (a dunder name, operands in source order), like the arithmetic operators - an operand whose class has no such method is a type error at compile time, "
                "not a TypeError at run time", ["gen_op (BAnd, BOr, BXOr, BLShift, BRShift, BOneCmpl, AddU, SubU)"])
    fn = e2.find1(mir, file=OP_RS, name="gen_op")
    _rel, lay = ckern.node_enum()
    ex = Exec(mir, max_paths=5000)
    untyped = []
    for kind in BITWISE:
        if kind not in lay:
            raise Unsupported(f"Node::{kind} not found")
        st = State()
        vals = {}
        for f in lay[kind] or []:
            a_, _pp = ckern.mk_ast(f"{kind}.{f}", opq(f"{kind}.{f}.node", "Node"))
            vals[f] = Ref(ex.new_cell(st, a_))
        ast, _ = ckern.mk_ast("ast", ckern.mk_node(kind, vals))
        env, ctx, constr = ckern.refs(ex, st, "env", "ctx", "constr")
        ends = e2.run_kernel(run, ex, fn, [Ref(ex.new_cell(st, ast)), env, ctx, constr], st)
        oks = [p for p in ends if result_kind(p) != "Err" and p.kind == "return"]
        typed = bool(oks) and all(any(isinstance(g["args"][0], StrC) and re.fullmatch(r"__\w+__", g["args"][0].s) for g in calls(p, "gen_magic")) or
                                  any("Access" in str(a["argvals"]) for a in calls(p, "ConstrBuilder::add")) for p in oks)
        if not typed:
            untyped.append(kind)
    f = e2.Family(rp)
    f.add("shift-left-on-str", "def s := \"a\"\ndef t := s << 1", "reject")
    f.add("shift-right-on-str", "def s := \"a\"\ndef t := s >> 1", "reject")
    f.add("and-on-str", "def s := \"a\"\ndef t := s _and_ 1", "reject")
    f.add("or-on-float", "def s := 1.5\ndef t := s _or_ 1", "reject")
    f.add("xor-on-str", "def s := \"a\"\ndef t := s _xor_ \"b\"", "reject")
    f.add("complement-on-str", "def s := \"a\"\ndef t := _not_ s", "reject")
    f.add("unary-minus-on-str", "def s := \"a\"\ndef t := -s", "reject")
    f.add("unary-plus-on-str", "def s := \"a\"\ndef t := +s", "reject")
    f.add("unary-minus-on-int", "def s := 3\ndef t: Int := 0 - -s", "accept")
    f.add("shift-left-on-int", "def s := 1\ndef t := s << 1", "accept")
    f.add("and-on-int", "def s := 6\ndef t := s _and_ 3", "accept")

    def replay(model):
        k_, bad = f.run()
        if bad:
            roles = sorted(b["role"] for b in bad)
            return {"reproduced": True, "role": "bitwise-untyped:" + "+".join(roles), "failing_programs": roles,
                    "detail": f"program {bad[0]['src']!r}: expected {bad[0]['expected']}, real verdict {bad[0]['got']} (the emitted Python raises TypeError)"}
        return {"reproduced": False, "detail": f"all {k_} programs behave as required"}
    e2.prove(run, ob, ex, [], z3.BoolVal(not untyped), {}, replay)
    if ob.status == "discharged":
        r_ = replay({})
        run.validated += len(f.items)
        if r_["reproduced"]:
            ob.status = "pending"
            ob.inconclusive("bitwise family disagrees although the operators are typed: " + r_["detail"])
    run.samples.append({"obligation": ob.id, "typed_as_any": untyped})


def ob_method_parameters(run, mir, rp, fam):
    ob = run.ob("method-parameters", "E2", "unify_fun_arg (method and operator calls), one iteration of the formal/actual zip from an "
                "arbitrary loop state: surplus actual => Err; missing actual without default => Err, with default => continue without "
                "constraint; formal without type => Err; otherwise the constraint that is queued has parent = the declared parameter "
                "type at the argument's position and (for every formal but self) child = the argument", ["unify_fun_arg (loop body)"])
    fn = e2.find1(mir, file=UNIFY_FUN_RS, name="unify_fun_arg")
    ex = Exec(mir, max_paths=5000)
    st = State()
    args = [Ref(ex.new_cell(st, opq("entity_name", "TrueName"))), Ref(ex.new_cell(st, opq("name", "StringName"))),
            opq("ctx_f_args", "&[FunctionArg]"), opq("args", "&[Expected]"), Ref(ex.new_cell(st, opq("constr", "Constraints"))),
            opq("pos", "Position")]
    ends = e2.run_kernel(run, ex, fn, args, st)
    fa = e2.rust_struct(ckern.ARG_RS, "FunctionArg")
    exf = e2.rust_struct(EXPECTED_RS, "Expected")
    i_ty, i_def = fa.index("ty"), fa.index("has_default")
    claims, n_push = [], 0
    for p in ends:
        if p.kind == "panic":
            if "attempt to compute" in p.detail:      # `added += 1` cannot overflow for any real argument list
                continue
            raise Unsupported(f"panic path {p.detail[:80]}")
        c = conj(p.cond)
        nx = [ev for ev in calls(p, "Iterator::next") if "zip" in str(ev["args"][0]).lower() or True]
        if not nx:
            claims.append(z3.Not(c))
            continue
        s = p.state
        item = nx[0]["ret"]          # the zip element of this iteration (a later `next` belongs to the tuple-element loop)
        TY = "EitherOrBoth<&FunctionArg, &Expected>"
        d_opt = ex.discr(s, item, "Option<EitherOrBoth>")
        eob = ex.project(s, ex.project(s, item, ("v", "Some")), ("f", 0), TY)
        d = ex.discr(s, eob, TY)
        both = ex.project(s, eob, ("v", "Both"))
        formal = ex.project(s, both, ("f", 0), "&FunctionArg")
        actual = ex.project(s, both, ("f", 1), "&Expected")
        left = ex.project(s, ex.project(s, eob, ("v", "Left")), ("f", 0), "&FunctionArg")
        ty_b = ex.project(s, formal, ("f", i_ty), "Option<Name>")
        d_ty = ex.discr(s, ty_b, "Option<Name>")
        has_def = ex.project(s, left, ("f", i_def), "bool")
        pushes = calls(p, "Constraints::push") + calls(p, "Constraints::push_constr")
        kind = result_kind(p)
        some = d_opt == 1
        spec = [z3.Implies(d_opt == 0, z3.BoolVal(kind == "Ok" and not pushes)),
                z3.Implies(z3.And(some, d == 2), z3.BoolVal(kind == "Err")),
                z3.Implies(z3.And(some, d == 1, z3.Not(has_def)), z3.BoolVal(kind == "Err")),
                z3.Implies(z3.And(some, d == 1, has_def), z3.BoolVal(p.kind == "loop_back" and not pushes)),
                z3.Implies(z3.And(some, d == 0, d_ty == 0), z3.BoolVal(kind == "Err"))]
        plain = calls(p, "Constraints::push")
        if p.kind == "loop_back" and plain:
            n_push += 1
            a = plain[0]
            ty_name = ex.project(s, ex.project(s, ty_b, ("v", "Some")), ("f", 0), "Name")
            pos_a = ex.project(s, actual, ("f", exf.index("pos")), "Position")
            inter = [ev for ev in calls(p, "Name::is_interchangeable") if z3.eq(ev["argvals"][0], ex.to_val(s, ty_name))]
            parent_ok, child_ok = z3.BoolVal(False), z3.BoolVal(False)
            pv = ex.read_ref(s, a["args"][2]) if isinstance(a["args"][2], Ref) else a["args"][2]
            cv = ex.read_ref(s, a["args"][3]) if isinstance(a["args"][3], Ref) else a["args"][3]
            for nw in calls(p, "Expected::new"):
                second = nw["args"][1]
                second = ex.read_ref(s, second) if isinstance(second, Ref) else second
                if z3.eq(ex.to_val(s, nw["ret"]), ex.to_val(s, pv)) and isinstance(second, Agg) and second.variant == "Type" and inter:
                    parent_ok = z3.And(ex.to_val(s, second.fields[0]) == ex.to_val(s, inter[0]["ret"]),
                                       nw["argvals"][0] == ex.to_val(s, pos_a))
            if calls(p, "Name::as_name"):
                child_ok = z3.BoolVal(True)       # self: the receiver type, derived from the entity (C07's subject)
            else:
                child_ok = ex.to_val(s, cv) == ex.to_val(s, actual)
            spec.append(z3.Implies(z3.And(some, d == 0, d_ty == 1), z3.And(z3.BoolVal(len(plain) == 1), parent_ok, child_ok)))
        elif p.kind == "loop_back" and not pushes and not calls(p, "Iterator::flatten"):
            # (the flatten paths are the documented exception: a tuple handed to __str__ queues one constraint per element
            #  in an inner loop instead)
            spec.append(z3.Implies(z3.And(some, d == 0, d_ty == 1), z3.BoolVal(False)))
        claims.append(z3.Implies(c, conj(spec)))
    if not n_push:
        raise Unsupported("no path queues a constraint")
    import os
    if os.environ.get("VERIF_DEBUG"):
        for p, cl in zip([q for q in ends if q.kind != "panic"], claims):
            r, m, _, _ = e2.solve(ex, [z3.Not(cl)])
            if r != z3.unsat:
                print("FAIL", p.kind, result_kind(p), [ev["name"] for ev in p.events][-8:], [str(x)[:100] for x in p.cond][-4:])
    e2.prove(run, ob, ex, [], conj(claims), {}, fam.as_replay("method-parameters:", only=["method-call", "operator-"]))
    run.samples.append({"obligation": ob.id, "paths": len(ends), "paths_with_constraint": n_push})


def ob_access_direction(run, mir, rp, fam):
    ob = run.ob("method-result-direction", "E2", "function_access / field_access (one iteration of the loop over the receiver's classes): the "
                "method's declared return type is queued as CHILD of what the call is expected to be (parent = the other side), a field's "
                "declared type as PARENT of the other side; the arguments go through unify_fun_arg with the method's formals",
                ["function_access (loop body)", "field_access (loop body)"])
    claims, seen = [], 0
    for fname in ("function_access", "field_access"):
        fn = e2.find1(mir, file=UNIFY_FUN_RS, name=fname)
        ex = Exec(mir, max_paths=20000)
        st = State()
        args, by = [], {}
        for an, aty in fn.args:
            t = aty.strip()
            nm = fn.debug_name(an) if hasattr(fn, "debug_name") else None
            if t == "usize":
                v = z3.BitVec("total", 64)
            elif t.startswith("&") and not t.startswith("&[") and t != "&str":
                v = Ref(ex.new_cell(st, opq(f"{fname}.a{an}", t.lstrip("&").replace("mut ", "").strip())))
            else:
                v = opq(f"{fname}.a{an}", t)
            args.append(v)
        # argument roles by position (constraints, finished, ctx, entity_name, name, [args], accessed, other, msg, total)
        names_ = ["constraints", "finished", "ctx", "entity_name", "name"] + (["args"] if fname == "function_access" else []) + ["accessed", "other", "msg", "total"]
        if len(names_) != len(args):
            raise Unsupported(f"{fname}: signature changed ({len(args)} parameters)")
        by = dict(zip(names_, args))
        ends = e2.run_kernel(run, ex, fn, args, st)
        exf = e2.rust_struct(EXPECTED_RS, "Expected")
        for p in ends:
            if p.kind != "loop_back":
                continue
            pushes = calls(p, "Constraints::push")
            if not pushes:
                continue
            seen += 1
            s = p.state
            a = pushes[-1]
            pv = ex.read_ref(s, a["args"][2]) if isinstance(a["args"][2], Ref) else a["args"][2]
            cv = ex.read_ref(s, a["args"][3]) if isinstance(a["args"][3], Ref) else a["args"][3]
            other = ex.to_val(s, by["other"])
            news = calls(p, "Expected::new")
            acc_pos = ex.project(s, ex.read_ref(s, by["accessed"]), ("f", exf.index("pos")), "Position")
            decl = [nw for nw in news if nw["argvals"][0] == ex.to_val(s, acc_pos) or z3.eq(nw["argvals"][0], ex.to_val(s, acc_pos))]
            ok = z3.BoolVal(False)
            if decl:
                d = ex.to_val(s, decl[-1]["ret"])
                if fname == "function_access":
                    ok = z3.And(ex.to_val(s, pv) == other, ex.to_val(s, cv) == d)
                    ufa = calls(p, "unify_fun_arg")
                    ok = z3.And(ok, z3.BoolVal(len(ufa) == 1))
                    if len(ufa) == 1:
                        ok = z3.And(ok, ufa[0]["argvals"][3] == ex.to_val(s, by["args"]))
                else:
                    ok = z3.And(ex.to_val(s, pv) == d, ex.to_val(s, cv) == other)
            claims.append(z3.Implies(conj(p.cond), z3.And(z3.BoolVal(len(pushes) == 1), ok)))
    if seen < 2:
        raise Unsupported(f"only {seen} loop paths queue a constraint")
    e2.prove(run, ob, ex, [], conj(claims), {}, fam.as_replay("method-result:", only=["method-result-", "operator-result-", "field-type-"]))


def ob_shadow_mapping(run, mir, rp, fam, prefix="shadow-mapping"):
    """Expected::map_exp renames identifiers to their current shadow; every part of an expectation uses the same two tables."""
    ob = run.ob("shadow-mapping", "E2", "Expected::map_exp / Constraint::map_exp: every recursive renaming (arguments of a call, receiver and "
                "member of an access, both sides of a constraint) receives the scope-local table first and the global table second, and an "
                "identifier is looked up in the local table before the global one", ["Expected::map_exp + closures", "Constraint::map_exp"])
    claims, n = [], 0
    cands = [(nme, f) for nme, f in mir.fns.items() if nme.split("::{closure")[0].endswith("::map_exp") and f.impl_at and
             (f.impl_at[0].endswith("constraint/expected.rs") or f.impl_at[0].endswith("constraint/mod.rs"))]
    if len(cands) < 3:
        raise Unsupported(f"map_exp items: {[c[0] for c in cands]}")
    for nme, f in cands:
        ex = Exec(mir, max_paths=5000)
        st = State()
        vm, gvm = opq("var_mapping", "VarMapping"), opq("global_var_mapping", "VarMapping")
        vmr, gvmr = Ref(ex.new_cell(st, vm)), Ref(ex.new_cell(st, gvm))
        args = []
        is_closure = "{closure" in nme
        if is_closure:
            # captured references: var_mapping, global_var_mapping in source order
            envty = f.args[0][1]
            caps = [vmr, gvmr]
            env = Agg("closure", envty.lstrip("&").replace("mut ", "").strip(), caps)
            args.append(Ref(ex.new_cell(st, env)) if envty.strip().startswith("&") else env)
            for an, aty in f.args[1:]:
                args.append(Ref(ex.new_cell(st, opq(f"arg{an}", aty.strip().lstrip("&")))) if aty.strip().startswith("&") else opq(f"arg{an}", aty.strip()))
        else:
            args = [Ref(ex.new_cell(st, opq("self", "Expected"))), vmr, gvmr]
        try:
            ends = e2.run_kernel(run, ex, f, args, st)
        except Unsupported:
            if is_closure:
                continue            # closure whose captures are not the two tables (not a renaming closure)
            raise
        for p in ends:
            s = p.state
            for ev in p.events:
                short = ev["name"].split("::")[-1]
                if short == "map_exp":
                    n += 1
                    claims.append(z3.Implies(conj(p.cond), z3.And(ev["argvals"][1] == ex.to_val(s, vmr), ev["argvals"][2] == ex.to_val(s, gvmr))))
            gets = [ev for ev in p.events if ev["name"].split("::")[-1] == "get" and "HashMap" in ev["callee"]]
            if gets:
                n += 1
                first_local = gets[0]["argvals"][0] == ex.to_val(s, vmr)
                second = z3.BoolVal(True) if len(gets) < 2 else z3.And(gets[1]["argvals"][0] == ex.to_val(s, gvmr),
                                                                         ex.discr(s, gets[0]["ret"], "Option") == 0)
                claims.append(z3.Implies(conj(p.cond), z3.And(first_local, second, z3.BoolVal(len(gets) <= 2))))
    if n < 4:
        raise Unsupported(f"only {n} renaming sites found")
    e2.prove(run, ob, ex, [], conj(claims), {}, fam.as_replay(prefix + ":", only=["shadow-"]))
    run.samples.append({"obligation": ob.id, "renaming_sites": n, "items": [c[0] for c in cands]})


OP_RS = ckern.GEN + "operation.rs"
MAGIC = {"Add": "__add__", "Sub": "__sub__", "Mul": "__mul__", "Div": "__truediv__", "FDiv": "__floordiv__", "Pow": "__pow__", "Mod": "__mod__",
         "Le": "__lt__", "Ge": "__gt__", "Leq": "__le__", "Geq": "__ge__", "Neq": "__ne__", "Eq": "__eq__", "In": "__contains__"}
LITERAL = {"Real": "Float", "Int": "Int", "ENum": "Int", "Str": "Str"}


def ob_operator_typing(run, mir, rp, fam):
    """Operators are typed as a method of the left operand (documented dunder table); literals get their primitive type."""
    ob = run.ob("operator-typing-table", "E2+z3", "gen_op: every arithmetic / comparison operator is typed through gen_magic with the documented "
                "method name and (left, right) in source order (`a in b` asks b.__contains__(a)); number and string literals are given "
                "their primitive type; gen_magic constrains the whole expression to left.method(left, right); gen_primitive and gen_range "
                "add `expression >= declared primitive` constraints", ["gen_op", "gen_magic", "access", "gen_primitive", "gen_range"])
    fn = e2.find1(mir, file=OP_RS, name="gen_op")
    _rel, lay = ckern.node_enum()
    kinds = list(MAGIC) + list(LITERAL)
    got = {}
    ex = Exec(mir, max_paths=5000)
    for kind in kinds:
        st = State()
        vals = {}
        for f in lay[kind] or []:
            if f in ("left", "right", "expr"):
                a_, _pp = ckern.mk_ast(f"{kind}.{f}", opq(f"{kind}.{f}.node", "Node"))
                vals[f] = Ref(ex.new_cell(st, a_))
            else:
                vals[f] = opq(f"{kind}.{f}", "?")
        node = ckern.mk_node(kind, vals)
        ast, _ = ckern.mk_ast("ast", node)
        astr = Ref(ex.new_cell(st, ast))
        env, ctx, constr = ckern.refs(ex, st, "env", "ctx", "constr")
        ends = e2.run_kernel(run, ex, fn, [astr, env, ctx, constr], st)
        desc = set()
        for p in ends:
            if p.kind not in ("return", "loop_back"):
                desc.add(("?", p.kind))
                continue
            s = p.state
            gm = calls(p, "gen_magic")
            gp = calls(p, "gen_primitive")
            if kind in MAGIC:
                if len(gm) != 1 or gp:
                    desc.add(("?", f"{len(gm)} gen_magic"))
                    continue
                g = gm[0]
                fun = g["args"][0].s if isinstance(g["args"][0], StrC) else "?"
                order = tuple("left" if z3.eq(g["argvals"][i], ex.to_val(s, vals["left"])) else "right" if z3.eq(g["argvals"][i], ex.to_val(s, vals["right"])) else "?" for i in (2, 3))
                okrest = z3.eq(g["argvals"][1], ex.to_val(s, astr)) and z3.eq(g["argvals"][4], ex.to_val(s, env)) and \
                    z3.eq(ex.to_val(s, p.ret), ex.to_val(s, g["ret"]))
                desc.add((fun, order, bool(okrest)))
            else:
                if p.kind == "loop_back":
                    continue
                if result_kind(p) == "Err":
                    continue        # a failing sub-expression of an interpolated string
                if len(gp) != 1 or gm:
                    desc.add(("?", f"{len(gp)} gen_primitive"))
                    continue
                g = gp[0]
                ty = g["args"][1].s if isinstance(g["args"][1], StrC) else "?"
                desc.add((ty, bool(z3.eq(g["argvals"][0], ex.to_val(s, astr)) and z3.eq(g["argvals"][2], ex.to_val(s, env)))))
        got[kind] = desc
    nodes = ex.enum_variants("Node")
    kv = z3.Int("node_kind")
    okv = z3.BoolVal(True)
    for kind in kinds:
        if kind in MAGIC:
            want = {(MAGIC[kind], ("right", "left") if kind == "In" else ("left", "right"), True)}
        else:
            want = {(LITERAL[kind], True)}
        okv = z3.If(kv == nodes.index(kind), z3.BoolVal(got[kind] == want), okv)
    dom = disj([kv == nodes.index(k) for k in kinds])
    found, block = [], []
    for _ in range(len(kinds) + 1):
        r_, m_, dt, _s = e2.solve(ex, [dom, z3.Not(okv)] + block)
        ob.solver_s += dt
        ob.queries += 1
        if r_ != z3.sat:
            break
        ki = m_.eval(kv).as_long()
        found.append(nodes[ki])
        block.append(kv != ki)
    ob.reach = "sat"
    run.samples.append({"obligation": ob.id, "table": {k: sorted(map(str, v)) for k, v in list(got.items())[:4]}})

    # gen_magic / access / gen_primitive shapes
    shape_claims = []
    fnm = e2.find1(mir, file=OP_RS, name="gen_magic")
    exm = Exec(mir, max_paths=5000, inline=[r"operation::access$", r"generate::operation::access$", r"^access$"])
    st = State()
    (a0, apos), (l0, lpos), (r0, rpos) = (ckern.mk_ast(n, opq(n + ".node", "Node")) for n in ("ast", "left", "right"))
    ar, lr, rr = (Ref(exm.new_cell(st, x)) for x in (a0, l0, r0))
    env, ev_ = ckern.sym_env(exm, st)
    ctx, constr = ckern.refs(exm, st, "ctx", "constr")
    fun = opq("fun", "&str")
    ends = e2.run_kernel(run, exm, fnm, [fun, ar, lr, rr, env, ctx, constr], st)
    n_ok = 0
    for p in ends:
        if result_kind(p) != "Ok":
            continue
        n_ok += 1
        s = p.state
        adds = calls(p, "ConstrBuilder::add")
        ok = z3.BoolVal(False)
        if len(adds) == 1:
            a = adds[0]
            frm = {k: [e_ for e_ in p.events if e_["name"].endswith("From::from") and z3.eq(e_["argvals"][0], exm.to_val(s, r_))] for k, r_ in (("ast", ar), ("left", lr), ("right", rr))}
            cv = exm.read_ref(s, a["args"][3]) if isinstance(a["args"][3], Ref) else a["args"][3]
            news = calls(p, "Expected::new")
            outer = [nw for nw in news if z3.eq(exm.to_val(s, nw["ret"]), exm.to_val(s, cv))]
            if frm["ast"] and frm["left"] and frm["right"] and outer:
                acc = outer[0]["args"][1]
                acc = exm.read_ref(s, acc) if isinstance(acc, Ref) else acc
                if isinstance(acc, Agg) and acc.variant == "Access":
                    ent, nm = acc.fields
                    inner = [nw for nw in news if z3.eq(exm.to_val(s, nw["ret"]), exm.to_val(s, nm))]
                    if inner:
                        fnv = inner[0]["args"][1]
                        fnv = exm.read_ref(s, fnv) if isinstance(fnv, Ref) else fnv
                        if isinstance(fnv, Agg) and fnv.variant == "Function" and isinstance(fnv.fields[1], Seq) and len(fnv.fields[1].parts) == 2:
                            a1, a2 = fnv.fields[1].parts[0][1], fnv.fields[1].parts[1][1]
                            L = lambda k: disj([exm.to_val(s, e_["ret"]) == X for e_ in frm[k] for X in [None]]) if False else None
                            is_from = lambda v, k: disj([exm.to_val(s, v) == exm.to_val(s, e_["ret"]) for e_ in frm[k]])
                            sn = [e_ for e_ in p.events if e_["name"].endswith("From::from") and z3.eq(e_["argvals"][0], exm.to_val(s, fun))]
                            ok = z3.And(is_from(ent, "left"), is_from(a1, "left"), is_from(a2, "right"),
                                        disj([a["argvals"][2] == exm.to_val(s, e_["ret"]) for e_ in frm["ast"]]),
                                        outer[0]["argvals"][0] == exm.to_val(s, lpos), inner[0]["argvals"][0] == exm.to_val(s, lpos),
                                        disj([exm.to_val(s, fnv.fields[0]) == exm.to_val(s, e_["ret"]) for e_ in sn]) if sn else z3.BoolVal(False),
                                        a["argvals"][4] == exm.to_val(s, env))
        shape_claims.append(z3.Implies(conj(p.cond), ok))
    if not n_ok:
        raise Unsupported("gen_magic: no Ok path")

    def replay(model, only=None):
        return fam.as_replay("operator-typing:", only=only or ["operator-", "literal-", "initialiser-"])(model)
    if found:
        rep = replay({})
        if rep and rep.get("reproduced"):
            ob.violated(rep["role"], {"kinds": found, "table": {k: sorted(map(str, got[k])) for k in found}}, rep, rep["detail"])
        else:
            ob.inconclusive(f"solver reports operator kinds {found} as typed differently from the documented table "
                            f"({ {k: sorted(map(str, got[k])) for k in found} }) but the replay programs get the required verdicts")
        return
    e2.prove(run, ob, exm, [], conj(shape_claims), {}, replay)


def range_family(rp):
    """Operands of a range / slice end up in Python's range() / slice(): only an Int will do, and every operand is looked at."""
    f = e2.Family(rp)
    f.add("range-float-variable-from", "def a: Float := 1.5\nfor i in a .. 3 do print(i)", "reject")
    f.add("range-float-variable-to", "def a: Float := 1.5\nfor i in 0 .. a do print(i)", "reject")
    f.add("range-float-variable-step", "def a: Float := 2.0\nfor i in 0 .. 9 .. a do print(i)", "reject")
    f.add("range-nullable-variable-to", "def a: Int? := None\nfor i in 0 .. a do print(i)", "reject")
    f.add("range-float-literal-from", "for i in 1.5 .. 3 do print(i)", "reject")
    f.add("range-str-variable-to", "def a: Str := \"s\"\nfor i in 0 .. a do print(i)", "reject")
    f.add("range-undefined-step", "for i in 0 .. 9 .. zz do print(i)", "reject")
    f.add("range-str-call-step", "def g() -> Str => \"s\"\nfor i in 0 .. 9 .. g() do print(i)", "reject")
    f.add("slice-float-variable-from", "def xs := [1, 2, 3]\ndef a: Float := 1.0\nprint(xs[a :: 2])", "reject")
    f.add("slice-undefined-step", "def xs := [1, 2, 3]\nprint(xs[0 :: 2 :: zz])", "reject")
    f.add("range-int-variables", "def a: Int := 2\ndef b: Int := 8\ndef c: Int := 2\nfor i in a .. b .. c do print(i)", "accept")
    f.add("range-int-call-step", "def g() -> Int => 2\nfor i in 0 .. 9 .. g() do print(i)", "accept")
    f.add("range-inclusive-int-literals", "for i in 0 ..= 3 do print(i)", "accept")
    f.add("slice-int-operands", "def xs := [1, 2, 3]\ndef a: Int := 0\nprint(xs[a :: 2])", "accept")
    return f


def ob_range_operands(run, mir, rp, fam):
    ob = run.ob("range-operands-are-ints", "E2", "gen_range (ranges `a .. b .. s`, `a ..= b` and slices): on every successful path each operand - from, to and "
                "the step when there is one - is required to be an Int (constraint parent = Int, child = the operand: a Float or Int? operand is "
                "refused, Python's range() / slice() take nothing else) and is itself generated in the incoming environment (so an undefined name or a "
                "wrongly typed call in any operand is seen)", ["gen_range"])
    fn = e2.find1(mir, file=OP_RS, name="gen_range")
    _rel, lay = ckern.node_enum()
    claims, n_ok, free = [], 0, {}
    ex = Exec(mir, max_paths=20000)
    for kind, word in (("Range", "range"), ("Slice", "slice")):
        st = State()
        mk = lambda n: Ref(ex.new_cell(st, ckern.mk_ast(f"{kind}.{n}", opq(f"{kind}.{n}.node", "Node"))[0]))
        frm, to, stp = mk("from"), mk("to"), mk("step")
        step, some = sym_option(f"{kind}.step", stp, "Option<Box<AST>>")
        free[f"{kind} has a step"] = some
        vals = {"from": frm, "to": to, "step": step, "inclusive": z3.Bool(f"{kind}.inclusive")}
        if sorted(vals) != sorted(lay[kind]):
            raise Unsupported(f"Node::{kind} fields changed: {lay[kind]}")
        ast, _ = ckern.mk_ast("ast", ckern.mk_node(kind, {k: vals[k] for k in lay[kind]}))
        env, ctx, constr = ckern.refs(ex, st, "env", "ctx", "constr")
        ends = e2.run_kernel(run, ex, fn, [Ref(ex.new_cell(st, ast)), env, ctx, constr, StrC(word)], st)
        for p in ends:
            if result_kind(p) != "Ok":
                continue
            n_ok += 1
            s = p.state
            adds, gens, news = calls(p, "ConstrBuilder::add"), calls(p, "generate"), calls(p, "Expected::new")
            ints = []
            for nw in news:
                second = nw["args"][1]
                second = ex.read_ref(s, second) if isinstance(second, Ref) else second
                if isinstance(second, Agg) and second.variant == "Type":
                    src = [e_ for e_ in p.events if e_["name"].endswith("Name.From::from") and z3.eq(ex.to_val(s, e_["ret"]), ex.to_val(s, second.fields[0]))]
                    if src and isinstance(src[0]["args"][0], StrC) and src[0]["args"][0].s == "Int":
                        ints.append(ex.to_val(s, nw["ret"]))
            cl = []
            for x, cond in ((frm, z3.BoolVal(True)), (to, z3.BoolVal(True)), (stp, some)):
                xe = ex.to_val(s, ex.app("Expected.From::from", [x], "Expected", s))
                typed = disj([z3.And(a["argvals"][2] == i_, a["argvals"][3] == xe, a["argvals"][4] == ex.to_val(s, env)) for a in adds for i_ in ints])
                seen = disj([z3.And(g["argvals"][0] == ex.to_val(s, x), g["argvals"][1] == ex.to_val(s, env)) for g in gens])
                cl.append(z3.Implies(cond, z3.And(typed, seen)))
            claims.append(z3.Implies(conj(p.cond), conj(cl)))
    if n_ok < 4:
        raise Unsupported(f"{n_ok} Ok paths")
    rf = range_family(rp)
    e2.prove(run, ob, ex, [], conj(claims), free, rf.as_replay("range-operands:"))
    if ob.status == "discharged":
        k, bad = rf.run()
        run.validated += k
        if bad:
            ob.status = "pending"
            ob.inconclusive(f"range family disagrees although the kernel is as specified: {bad[:2]}")
    run.samples.append({"obligation": ob.id, "ok_paths": n_ok})


def ob_raise_arguments(run, mir, rp, fam):
    ob = run.ob("raise-arguments-checked", "E2", "gen_stmt, the Raise arm: on every successful path the raised expression - a constructor call - is itself "
                "generated in the incoming environment, so its arguments are counted, typed and looked up like those of any other constructor call",
                ["gen_stmt (Raise)"])
    fn = e2.find1(mir, file=STMT_RS, name="gen_stmt")
    ex = Exec(mir, max_paths=20000)
    st = State()
    name_ast, _ = ckern.mk_ast("name", ckern.mk_node("Id", {"lit": opq("lit", "String")}))
    call, _ = ckern.mk_ast("error", ckern.mk_node("FunctionCall", {"name": Ref(ex.new_cell(st, name_ast)), "args": opq("args", "Vec<AST>")}))
    err = Ref(ex.new_cell(st, call))
    ast, _ = ckern.mk_ast("ast", ckern.mk_node("Raise", {"error": err}))
    env, ctx, constr = ckern.refs(ex, st, "env", "ctx", "constr")
    ends = e2.run_kernel(run, ex, fn, [Ref(ex.new_cell(st, ast)), env, ctx, constr], st)
    claims, n_ok = [], 0
    for p in ends:
        if result_kind(p) != "Ok":
            continue
        n_ok += 1
        s = p.state
        seen = disj([z3.And(g["argvals"][0] == ex.to_val(s, err), g["argvals"][1] == ex.to_val(s, env)) for g in calls(p, "generate")])
        claims.append(z3.Implies(conj(p.cond), seen))
    if not n_ok:
        raise Unsupported("no Ok path in the Raise arm")
    f = e2.Family(rp)
    head = "class E(msg: Str): Exception(msg)\ndef f(x: Int) -> Int raise [E] =>\n    if x = 1 then raise "
    f.add("raise-undefined-argument", head + "E(zz)\n    x\n", "reject")
    f.add("raise-wrong-argument-type", head + "E(3)\n    x\n", "reject")
    f.add("raise-surplus-argument", head + "E(\"a\", 2)\n    x\n", "reject")
    f.add("raise-missing-argument", head + "E()\n    x\n", "reject")
    f.add("raise-conforming", head + "E(\"a\")\n    x\n", "accept")

    def replay(model):
        r = f.as_replay("raise-arguments:")(model)
        if r and r.get("reproduced"):
            r["role"] = "raise-arguments:not-generated"
        return r
    e2.prove(run, ob, ex, [], conj(claims), {}, replay)
    if ob.status == "discharged":
        k, bad = f.run()
        run.validated += k
        if bad:
            ob.status = "pending"
            ob.inconclusive(f"raise family disagrees although the kernel is as specified: {bad[:2]}")
    run.samples.append({"obligation": ob.id, "ok_paths": n_ok})


CLASS_RS = ckern.GEN + "class.rs"


def class_args_family(rp):
    """Class arguments are the constructor's parameters: a default must fit the declared type and may only use what is defined."""
    f = e2.Family(rp)
    f.add("class-field-argument-default-wrong-type", 'class A(def x: Int := "s")\ndef a := A()\n', "reject")
    f.add("class-argument-default-wrong-type", 'class A(x: Int := "s")\n    def y: Int := 0\ndef a := A()\n', "reject")
    f.add("class-field-argument-default-undefined", "class A(def x: Int := zz)\ndef a := A()\n", "reject")
    f.add("class-field-argument-defaults-conforming", 'class A(def x: Int := 4, def name: Str := "n")\ndef a := A()\nprint(a.x + 1)\n', "accept")
    f.add("class-argument-default-conforming", "class A(x: Int := 4)\n    def y: Int := 0\ndef a := A(2)\n", "accept")
    f.add("class-field-argument-default-subtype", "class A(def x: Float := 4)\ndef a := A()\n", "accept")
    f.add("class-field-argument-nullable", "class A(def x: Int?)\ndef a := A(None)\n", "accept")
    f.add("class-field-argument-fin", "class A(def fin x: Int := 4)\ndef a := A()\nprint(a.x)\n", "accept")
    f.add("class-argument-does-not-shadow-outside", 'def x := "outer"\nclass A(def x: Int := 4)\n    def m(self) -> Int => self.x\ndef y: Str := x\n', "accept")
    f.add("class-argument-not-bare-in-method", "class A(def x: Int)\n    def m(self) -> Int => x\n", "reject")
    f.add("class-argument-handed-to-parent", 'class E(msg: Str): Exception(msg)\ndef f() raise [E] => raise E("a")\n', "accept")
    return f


def ob_class_arguments(run, mir, rp, fam):
    ob = run.ob("class-arguments-checked", "E2", "gen_class, a class with arguments: on every successful path the arguments of the class - the parameters of its "
                "constructor - are handed to constraint generation (some call on the path takes them), and in one iteration over them, from an arbitrary loop "
                "state, the argument at hand is generated (a field argument `def x: T := e`) or constrained like a function parameter, so a default is "
                "compared with the declared type and its names are looked up", ["gen_class (Class)", "the helper gen_class hands the arguments to (loop body)"])
    fn = e2.find1(mir, file=CLASS_RS, name="gen_class")
    ex = Exec(mir, max_paths=20000, inline=[ckern.ENV_SETTERS])
    st = State()
    _rel, lay = ckern.node_enum()
    args = opq("class.args", "Vec<AST>")
    tyast, _ = ckern.mk_ast("class.ty", opq("class.ty.node", "Node"))
    blk, _ = ckern.mk_ast("class.body", ckern.mk_node("Block", {"statements": opq("class.statements", "Vec<AST>")}))
    body, _some = sym_option("class.body.opt", blk, "Option<Box<AST>>")
    vals = {"ty": tyast, "args": args, "parents": opq("class.parents", "Vec<AST>"), "body": body}
    if sorted(vals) != sorted(lay["Class"]):
        raise Unsupported(f"Node::Class fields changed: {lay['Class']}")
    ast, _ = ckern.mk_ast("ast", ckern.mk_node("Class", {k: vals[k] for k in lay["Class"]}))
    env, ev = ckern.sym_env(ex, st)
    ctx, constr = ckern.refs(ex, st, "ctx", "constr")
    ends = e2.run_kernel(run, ex, fn, [Ref(ex.new_cell(st, ast)), env, ctx, constr], st)
    claims, n_ok, takers = [], 0, set()
    args_v = ex.to_val(st, args)
    for p in ends:
        if result_kind(p) != "Ok":
            continue
        n_ok += 1
        s = p.state
        derived = [args_v]
        hit = []
        for e_ in p.events:
            if any(any(z3.eq(z3.simplify(a == d), z3.BoolVal(True)) or z3.eq(a, d) for d in derived) for a in e_["argvals"] if z3.is_expr(a)):
                if re.search(r"(Deref|AsRef|Borrow)::|as_slice|::iter$|IntoIterator", e_["name"]):
                    derived.append(ex.to_val(s, e_["ret"]))
                else:
                    hit.append(e_)
        takers |= {h["name"] for h in hit}
        claims.append(z3.Implies(conj(p.cond), z3.BoolVal(bool(hit))))
    if not n_ok:
        raise Unsupported("no Ok path in the Class arm")
    # one iteration of the helper's loop
    n_iter = 0
    for name in sorted(takers):
        cands = mir.find(file=CLASS_RS, name=name.split("::")[-1])
        for hf in cands[:1]:
            sth = State()
            hargs = []
            for an, aty in hf.args:
                t = aty.strip()
                hargs.append(Ref(ex.new_cell(sth, opq(f"h{an}", t.lstrip("&").replace("mut ", "").strip()))) if t.startswith("&") and not t.startswith("&[") else opq(f"h{an}", t))
            for p in e2.run_kernel(run, ex, hf, hargs, sth):
                nx = calls(p, "Iterator::next")
                if not nx or p.kind not in ("loop_back", "return"):
                    continue
                s = p.state
                d = ex.discr(s, nx[-1]["ret"], "Option<&AST>")
                item = ex.project(s, ex.project(s, nx[-1]["ret"], ("v", "Some")), ("f", 0), "&AST")
                iv = ex.to_val(s, item)
                after = p.events[p.events.index(nx[-1]) + 1:]
                wraps = [iv] + [ex.to_val(s, e_["ret"]) for e_ in after if "from_ref" in e_["name"] and any(z3.is_expr(a) and z3.eq(a, iv) for a in e_["argvals"])]
                seen = [e_ for e_ in after if e_["name"] in ("generate", "constrain_args", "id_from_var") and any(z3.eq(e_["argvals"][0], w) for w in wraps)]
                if p.kind == "loop_back" or result_kind(p) == "Ok":
                    n_iter += 1
                    claims.append(z3.Implies(z3.And(conj(p.cond), d == 1), z3.BoolVal(bool(seen))))
    if takers and not n_iter:
        ob.inconclusive(f"no loop iteration found in {sorted(takers)}")
        return
    cf = class_args_family(rp)

    def replay(model):
        r = cf.as_replay("class-arguments:")(model)
        if r and r.get("reproduced"):
            r["failing_programs"] = r.get("all_failing_roles")
        return r
    e2.prove(run, ob, ex, [], conj(claims), {}, replay)
    if ob.status == "discharged":
        k, bad = cf.run()
        run.validated += k
        if bad:
            ob.status = "pending"
            ob.inconclusive(f"class-argument family disagrees although the kernel is as specified: {bad[:2]}")
    run.samples.append({"obligation": ob.id, "ok_paths": n_ok, "arguments_taken_by": sorted(takers), "loop_iterations": n_iter})


FLOW_RS = ckern.GEN + "control_flow.rs"


def _describe_sites(ex, p, kids, astr, env):
    """Constraints added on a path, in order, described over the node's children."""
    s = p.state
    frm, desc = {}, []
    for ev in p.events:
        if ev["name"].endswith("From::from") and "Expected" in ev["name"]:
            for k, r in list(kids.items()) + [("<node>", astr)]:
                if z3.eq(ev["argvals"][0], ex.to_val(s, r)):
                    frm[ex.to_val(s, ev["ret"]).get_id()] = f"E({k})"
    cons = {}
    for ev in p.events:
        short = ev["name"].split("::")[-1]
        if ev["name"].startswith("Constraint::") and short in ("truthy", "stringy", "undefined"):
            arg = ev["args"][1]
            v = ex.to_val(s, ex.read_ref(s, arg) if isinstance(arg, Ref) else arg)
            cons[ex.to_val(s, ev["ret"]).get_id()] = f"{short}({frm.get(v.get_id(), '?')})"
    for ev in p.events:
        if ev["name"].endswith("ConstrBuilder::add"):
            pv = ex.to_val(s, ex.read_ref(s, ev["args"][2]) if isinstance(ev["args"][2], Ref) else ev["args"][2])
            cv = ex.to_val(s, ex.read_ref(s, ev["args"][3]) if isinstance(ev["args"][3], Ref) else ev["args"][3])
            same_env = z3.eq(ev["argvals"][4], ex.to_val(s, env))
            desc.append(f"{frm.get(pv.get_id(), '?')} >= {frm.get(cv.get_id(), '?')}" + ("" if same_env else " [other env]"))
        elif ev["name"].endswith("ConstrBuilder::add_constr_map"):
            # a constraint whose sides were renamed one by one (which table each side gets is the subject of branch-value-scope)
            cvv = ex.to_val(s, ex.read_ref(s, ev["args"][1]) if isinstance(ev["args"][1], Ref) else ev["args"][1])
            mk = [c for c in p.events if c["name"].endswith("Constraint::new") and z3.eq(ex.to_val(s, c["ret"]), cvv)]
            if len(mk) != 1:
                desc.append("?")
                continue
            sides = []
            for side in (mk[0]["argvals"][1], mk[0]["argvals"][2]):
                m = [e_ for e_ in p.events if e_["name"].split("::")[-1] == "map_exp" and z3.eq(ex.to_val(s, e_["ret"]), side)]
                sides.append(frm.get((m[0]["argvals"][0] if len(m) == 1 else side).get_id(), "?"))
            desc.append(f"{sides[0]} >= {sides[1]}")
        elif ev["name"].endswith("ConstrBuilder::add_constr"):
            cvv = ex.to_val(s, ex.read_ref(s, ev["args"][1]) if isinstance(ev["args"][1], Ref) else ev["args"][1])
            same_env = z3.eq(ev["argvals"][2], ex.to_val(s, env))
            desc.append(cons.get(cvv.get_id(), "?") + ("" if same_env else " [other env]"))
    return desc


def ob_flow_constraints(run, mir, rp, fam):
    ob = run.ob("control-flow-typing", "E2+z3", "gen_flow: the condition of if / while must be truthy; in expression position both branches of an "
                "if are typed as the if itself (if >= then, if >= else) and in statement position no such constraint is added; in a match "
                "every arm's pattern is compared with the matched expression (expr >= pattern), the arm body is typed as the match (body >= "
                "match, and match >= body in expression position)", ["gen_flow (IfElse / While)", "constrain_cases (loop body)"])
    fn = e2.find1(mir, file=FLOW_RS, name="gen_flow")
    _rel, lay = ckern.node_enum()
    got = {}
    ex = Exec(mir, max_paths=20000)
    for tag, kind, el in (("if-else", "IfElse", True), ("if", "IfElse", False), ("while", "While", None)):
        st = State()
        kids = {}
        vals = {}
        for f in lay[kind]:
            a_, _pp = ckern.mk_ast(f"{kind}.{f}", opq(f"{kind}.{f}.node", "Node"))
            kids[f] = Ref(ex.new_cell(st, a_))
            vals[f] = kids[f]
        if kind == "IfElse":
            if el:
                vals["el"] = Agg("Option", "Some", [kids["el"]])
            else:
                vals["el"] = Agg("Option", "None", [])
                kids.pop("el")
        node = ckern.mk_node(kind, vals)
        ast, _ = ckern.mk_ast("ast", node)
        astr = Ref(ex.new_cell(st, ast))
        env, evs = ckern.sym_env(ex, st)
        ctx, constr = ckern.refs(ex, st, "ctx", "constr")
        ends = e2.run_kernel(run, ex, fn, [astr, env, ctx, constr], st)
        descs = {}
        for p in ends:
            if result_kind(p) != "Ok":
                continue
            d = tuple(_describe_sites(ex, p, kids, astr, env))
            # classify by the is_expr flag of the environment
            r1, _m, _dt, _s = e2.solve(ex, list(p.cond) + [evs["is_expr"]])
            r2, _m, _dt, _s = e2.solve(ex, list(p.cond) + [z3.Not(evs["is_expr"])])
            if r1 == z3.sat:
                descs.setdefault("expr", set()).add(d)
            if r2 == z3.sat:
                descs.setdefault("stmt", set()).add(d)
        got[tag] = descs
    want = {"if-else": {"expr": {("truthy(E(cond))", "E(<node>) >= E(then)", "E(<node>) >= E(el)")}, "stmt": {("truthy(E(cond))",)}},
            "if": {"expr": {("truthy(E(cond))",)}, "stmt": {("truthy(E(cond))",)}},
            "while": {"expr": {("truthy(E(cond))",)}, "stmt": {("truthy(E(cond))",)}}}
    # match arms: one iteration of constrain_cases
    fnc = e2.find1(mir, file=FLOW_RS, name="constrain_cases")
    st = State()
    ast_, _ = ckern.mk_ast("match", opq("match.node", "Node"))
    astr = Ref(ex.new_cell(st, ast_))
    mexpr, _ = ckern.mk_ast("expr", opq("expr.node", "Node"))
    exprv = Agg("Option", "Some", [mexpr])
    env, evs = ckern.sym_env(ex, st)
    ctx, constr = ckern.refs(ex, st, "ctx", "constr")
    cases = Ref(ex.new_cell(st, opq("cases", "Vec<AST>")))
    ends = e2.run_kernel(run, ex, fnc, [astr, Ref(ex.new_cell(st, exprv)), cases, env, ctx, constr], st)
    arm = {}
    for p in ends:
        if p.kind != "loop_back":
            continue
        s = p.state
        nx = calls(p, "Iterator::next")
        if not nx:
            continue
        case = ex.project(s, ex.project(s, nx[-1]["ret"], ("v", "Some")), ("f", 0), "&AST")
        names_ = {}
        # children of this case: cond (pattern with type), its inner expression, body
        astf = e2.rust_struct(ckern.AST_RS, "AST")
        cnode = ex.project(s, ex.project(s, case, ("f", astf.index("node")), "Node"), ("v", "Case"))
        ccond = ex.project(s, cnode, ("f", lay["Case"].index("cond")), "Box<AST>")
        cbody = ex.project(s, cnode, ("f", lay["Case"].index("body")), "Box<AST>")
        cexpr = ex.project(s, ex.project(s, ex.project(s, ccond, ("f", astf.index("node")), "Node"), ("v", "ExpressionType")), ("f", lay["ExpressionType"].index("expr")), "Box<AST>")
        kids = {"pattern": cexpr, "body": cbody, "expr": mexpr}
        d = tuple(_describe_sites(ex, p, kids, astr, env))
        r1, _m, _dt, _s = e2.solve(ex, list(p.cond) + [evs["is_expr"]])
        r2, _m, _dt, _s = e2.solve(ex, list(p.cond) + [z3.Not(evs["is_expr"])])
        is_et = any("ExpressionType" in str(c) and not str(c).startswith("Not(") for c in p.cond)
        key = "typed-pattern" if len(d) and d[0].startswith("E(expr)") else "other-pattern"
        if r1 == z3.sat:
            arm.setdefault(("expr", key), set()).add(d)
        if r2 == z3.sat:
            arm.setdefault(("stmt", key), set()).add(d)
    got["match-arm"] = {f"{a}/{b}": v for (a, b), v in arm.items()}
    want["match-arm"] = {"expr/typed-pattern": {("E(expr) >= E(pattern)", "E(body) >= E(<node>)", "E(<node>) >= E(body)")},
                         "stmt/typed-pattern": {("E(expr) >= E(pattern)", "E(body) >= E(<node>)")},
                         "expr/other-pattern": {("E(body) >= E(<node>)", "E(<node>) >= E(body)")},
                         "stmt/other-pattern": {("E(body) >= E(<node>)",)}}
    tags = sorted(want)
    kv = z3.Int("construct")
    okv = z3.BoolVal(True)
    for i, t in enumerate(tags):
        okv = z3.If(kv == i, z3.BoolVal(got.get(t) == want[t]), okv)
    found, block = [], []
    for _ in range(len(tags) + 1):
        r_, m_, dt, _s = e2.solve(ex, [kv >= 0, kv < len(tags), z3.Not(okv)] + block)
        ob.solver_s += dt
        ob.queries += 1
        if r_ != z3.sat:
            break
        ki = m_.eval(kv).as_long()
        found.append(tags[ki])
        block.append(kv != ki)
    ob.reach = "sat"
    run.samples.append({"obligation": ob.id, "sites": {t: {k: sorted(map(list, v)) for k, v in got.get(t, {}).items()} for t in tags}})
    if not found:
        ob.discharged(f"unsat over {len(tags)} constructs")
        return
    rep = fam.as_replay("control-flow-typing:", only=["flow-"])({})
    if rep and rep.get("reproduced"):
        ob.violated(rep["role"], {"constructs": found, "sites": {t: {k: sorted(map(list, v)) for k, v in got.get(t, {}).items()} for t in found}}, rep, rep["detail"])
    else:
        ob.inconclusive(f"solver reports constructs {found} as constrained differently from the documented rules "
                        f"({ {t: {k: sorted(map(list, v)) for k, v in got.get(t, {}).items()} for t in found} }) but the replay programs get the required verdicts")


def ob_return(run, mir, rp, fam):
    ob = run.ob("return-direction", "E2", "gen_stmt Return arm: with a declared return type the returned expression is "
                "generated and constrained with parent = declared type, child = the expression; without one it is an error",
                ["gen_stmt"])
    fn = e2.find1(mir, file=STMT_RS, name="gen_stmt")
    ex = Exec(mir, max_paths=5000)
    st = State()
    expr, _ = ckern.mk_ast("expr", opq("expr.node", "Node"))
    expr_box = Ref(ex.new_cell(st, expr))
    node = ckern.mk_node("Return", {"expr": expr_box})
    ast, _ = ckern.mk_ast("ast", node)
    ret_exp = opq("env.return_type.v", "Expected")
    rt, rt_some = sym_option("env.return_type", ret_exp, "Option<Expected>")
    env, ev = ckern.sym_env(ex, st, return_type=rt)
    ctx, constr = ckern.refs(ex, st, "ctx", "constr")
    ends = e2.run_kernel(run, ex, fn, [Ref(ex.new_cell(st, ast)), env, ctx, constr], st)
    claims = []
    for p in ends:
        c = conj(p.cond)
        s = p.state
        adds = calls(p, "ConstrBuilder::add")
        gens = calls(p, "generate")
        kind = result_kind(p)
        spec = [z3.Implies(z3.Not(rt_some), z3.BoolVal(kind == "Err" and not adds))]
        if kind == "Ok":
            child = ex.app("Expected.From::from", [expr_box], "Expected", s)
            okshape = len(adds) == 1 and len(gens) == 1
            dirn = z3.BoolVal(False)
            if okshape:
                a = adds[0]
                dirn = z3.And(a["argvals"][2] == ex.to_val(s, ret_exp), a["argvals"][3] == ex.to_val(s, child),
                              gens[0]["argvals"][0] == ex.to_val(s, expr_box))
            spec.append(z3.Implies(rt_some, z3.And(z3.BoolVal(okshape), dirn)))
        elif kind == "Err":
            # with a return type the only error is the one propagated from generating the expression
            spec.append(z3.Implies(rt_some, z3.BoolVal(len(gens) == 1 and not adds)))
        else:
            spec.append(z3.BoolVal(False))
        claims.append(z3.Implies(c, conj(spec)))
    e2.prove(run, ob, ex, [], conj(claims), {"env.return_type.is_some": rt_some, "env.in_fun": ev["in_fun"]},
             fam.as_replay("return:", only=["return-", "body-"]))


def ob_id_from_var(run, mir, rp, fam):
    ob = run.ob("annotated-variable-direction", "E2", "id_from_var with a declared type: after the identifier loop, the "
                "initialiser (if any) is constrained with parent = declared type, child = initialiser expression, and the "
                "variable itself with parent = declared type", ["id_from_var"])
    fn = e2.find1(mir, file=DEF_RS, name="id_from_var")
    ex = Exec(mir, max_paths=20000)
    st = State()
    var, var_pos = ckern.mk_ast("var", opq("var.node", "Node"))
    var_ref = Ref(ex.new_cell(st, var))
    ty_name = opq("ty.v", "Name")
    ty, _ = sym_option("ty", ty_name, "Option<Name>")
    # declared type present
    ty = Agg("Option", "Some", [ty_name])
    e_ast, _ = ckern.mk_ast("init", opq("init.node", "Node"))
    e_box = Ref(ex.new_cell(st, e_ast))
    expr, e_some = sym_option("expr", e_box, "Option<Box<AST>>")
    mutable = z3.Bool("mutable")
    ctx, constr = ckern.refs(ex, st, "ctx", "constr")
    env, ev = ckern.sym_env(ex, st)
    ends = e2.run_kernel(run, ex, fn, [var_ref, Ref(ex.new_cell(st, ty)), Ref(ex.new_cell(st, expr)), mutable, ctx, constr, env], st)
    claims = []
    n_ok = 0
    for p in ends:
        c = conj(p.cond)
        s = p.state
        kind = result_kind(p)
        if kind != "Ok":
            continue            # errors and loop_back ends carry no obligation here
        n_ok += 1
        adds = calls(p, "ConstrBuilder::add")
        news = calls(p, "Expected::new")
        ty_exp = None
        for nw in news:
            second = nw["args"][1]
            second = ex.read_ref(s, second) if isinstance(second, Ref) else second
            if isinstance(second, Agg) and second.variant == "Type" and z3.eq(ex.to_val(s, second.fields[0]), ex.to_val(s, ty_name)):
                ty_exp = nw
        if ty_exp is None:
            claims.append(z3.Not(c))
            continue
        te = ex.to_val(s, ty_exp["ret"])
        var_child = ex.to_val(s, ex.app("Expected.From::from", [var_ref], "Expected", s))
        init_child = ex.to_val(s, ex.app("Expected.From::from", [e_box], "Expected", s))
        cons = [d for d in constraints_on(ex, p, s, e2.rust_struct(ckern.ENV_RS, "Environment")) if d["parent"] is not None]
        has_var = disj([z3.And(d["parent"] == te, d["child"] == var_child) for d in cons])
        has_init = disj([z3.And(d["parent"] == te, d["child"] == init_child) for d in cons])
        claims.append(z3.Implies(c, z3.And(has_var, z3.Implies(e_some, has_init),
                                           ty_exp["argvals"][0] == ex.to_val(s, var_pos))))
    if not n_ok:
        raise Unsupported("no Ok path")
    e2.prove(run, ob, ex, [], conj(claims), {"expr.is_some": e_some, "mutable": mutable}, fam.as_replay("annotated-variable:", only=["initialiser-"]))


def init_family(rp):
    f = e2.Family(rp)
    f.add("initscope-annotated-redefinition-reads-old", "def x := \"a\"\ndef x: Int := x", "reject")
    f.add("initscope-annotated-redefinition-uses-old", "def x := \"a\"\ndef x: Int := x + 1", "reject")
    f.add("initscope-inferred-redefinition-keeps-type", "def x := 1\ndef x := x + 1\ndef y: Str := x", "reject")
    f.add("initscope-inferred-redefinition-copy", "def x := \"a\"\ndef x := x\ndef y: Int := x", "reject")
    f.add("initscope-inferred-redefinition-conforming", "def x := 1\ndef x := x + 1\ndef y: Int := x", "accept")
    f.add("initscope-annotated-redefinition-conforming", "def x := 1\ndef x: Int := x + 1\ndef y: Int := x", "accept")
    f.add("initscope-annotated-redefinition-other-type-conforming", "def x := 1\ndef x: Str := \"s\"\ndef y: Str := x", "accept")
    f.add("initscope-tuple-swap", "def a := \"s\"\ndef b := 1\ndef (a, b) := (b, a)\ndef y: Str := a", "reject")
    f.add("initscope-tuple-swap-conforming", "def a := \"s\"\ndef b := 1\ndef (a, b) := (b, a)\ndef y: Int := a", "accept")
    return f


def ob_initialiser_scope(run, mir, rp, fam):
    ob = run.ob("initialiser-scope", "E2", "id_from_var (every form of definition with an initialiser): in each constraint that mentions the initialiser "
                "expression, the expression is renamed with the shadow tables of the INCOMING environment and of the builder as they were before the "
                "variable was inserted - the initialiser of a re-definition `def x := x + 1` reads the previous x - while the variable itself is "
                "renamed with a later table", ["id_from_var + closures", "ConstrBuilder::add / add_constr_map (contract)"])
    fn = e2.find1(mir, file=DEF_RS, name="id_from_var")
    fields = e2.rust_struct(ckern.ENV_RS, "Environment")
    claims, n, used = [], 0, set()
    ex = None
    for with_ty in (True, False):
        ex = Exec(mir, max_paths=20000)
        st = State()
        var, var_pos = ckern.mk_ast("var", opq("var.node", "Node"))
        var_ref = Ref(ex.new_cell(st, var))
        ty = Agg("Option", "Some", [opq("ty.v", "Name")]) if with_ty else Agg("Option", "None", [])
        e_ast, _ = ckern.mk_ast("init", opq("init.node", "Node"))
        e_box = Ref(ex.new_cell(st, e_ast))
        expr = Agg("Option", "Some", [e_box])
        ctx = Ref(ex.new_cell(st, opq("ctx", "Context")))
        cb_fields = e2.rust_struct("src/check/constrain/constraint/builder.rs", "ConstrBuilder")
        cbv = {f: opq("constr." + f, "?") for f in cb_fields}
        for f in ("branch_point", "temp_name_offset"):
            if f in cbv:
                cbv[f] = z3.BitVec("constr." + f, 64)
        if "joined" in cbv:
            cbv["joined"] = z3.Bool("constr.joined")
        global0 = cbv["var_mapping"]
        constr = Ref(ex.new_cell(st, e2.mk_struct("src/check/constrain/constraint/builder.rs", "ConstrBuilder", cbv)))
        env, ev = ckern.sym_env(ex, st)
        ends = e2.run_kernel(run, ex, fn, [var_ref, Ref(ex.new_cell(st, ty)), Ref(ex.new_cell(st, expr)), z3.Bool("mutable"), ctx, constr, env], st)
        outer_t = ex.to_val(st, ev["var_mapping"])
        for p in ends:
            if result_kind(p) != "Ok":
                continue
            s = p.state
            c = conj(p.cond)
            init_e = ex.to_val(s, ex.app("Expected.From::from", [e_box], "Expected", s))
            cons = constraints_on(ex, p, s, fields)
            # the builder's table when the initialiser has been generated and the variable is not yet inserted
            gen = [g for g in calls(p, "generate") if z3.eq(g["argvals"][0], ex.to_val(s, e_box))]
            if len(gen) != 1 or 3 not in gen[0].get("mut_post", {}):
                claims.append(z3.Not(c))
                continue
            g0 = ex.to_val(s, ex.project(s, gen[0]["mut_post"][3], ("f", cb_fields.index("var_mapping")), "VarMapping"))
            mine = [d for d in cons if d["child"] is not None and (z3.eq(d["child"], init_e) or z3.eq(d["parent"], init_e))]
            if not mine:
                claims.append(z3.Not(c))
                continue
            n += 1
            cl = []
            for d in mine:
                side = "child" if z3.eq(d["child"], init_e) else "parent"
                t, g = d[side + "_table"], d[side + "_global"]
                used.add("incoming-environment" if (t is not None and z3.eq(t, outer_t)) else "environment-with-the-new-variable")
                cl.append(z3.BoolVal(False) if t is None or g is None else z3.And(t == outer_t, g == g0))
            claims.append(z3.Implies(c, conj(cl)))
    if n < 2:
        raise Unsupported(f"{n} paths constrain the initialiser")
    which = "+".join(sorted(used))
    ff = init_family(rp)

    def replay(model):
        r = ff.as_replay()(model)
        if r.get("reproduced"):
            r["failing_programs"] = r.get("all_failing_roles")
            r["role"] = "initialiser-renamed-with:" + which
        return r
    e2.prove(run, ob, ex, [], conj(claims), {}, replay)
    if ob.status == "discharged":
        k, bad = ff.run()
        run.validated += k
        if bad:
            ob.status = "pending"
            ob.inconclusive(f"initialiser family disagrees although the kernel is as specified: {bad[:2]}")
    run.samples.append({"obligation": ob.id, "initialiser_renamed_with": which, "paths": n})


def ob_fun_body(run, mir, rp, fam):
    ob = run.ob("function-body-direction", "E2", "gen_def FunDef arm with a declared return type and a body: on every "
                "successful path the body is constrained with parent = declared return type (at the body's position), child = "
                "the body expression, and the body is generated with that return type recorded in its environment — whatever "
                "the raises clause, arguments or class context are", ["gen_def (FunDef)", "Environment setters (inlined)"])
    fn = e2.find1(mir, file=DEF_RS, name="gen_def")
    ex = Exec(mir, max_paths=60000, inline=[ckern.ENV_SETTERS])
    st = State()
    _rel, lay = ckern.node_enum()
    mk = lambda n: ckern.mk_ast(n, opq(n + ".node", "Node"))
    (idn, _p0), (body, body_pos), (ret, ret_pos) = mk("id"), mk("body"), mk("ret")
    idr, bodyr, retr = (Ref(ex.new_cell(st, x)) for x in (idn, body, ret))
    vals = {"id": idr, "args": opq("args", "Vec<AST>"), "ret": Agg("Option", "Some", [retr]), "raises": opq("raises", "Vec<AST>"),
            "body": Agg("Option", "Some", [bodyr]), "pure": z3.Bool("pure")}
    if sorted(vals) != sorted(lay["FunDef"]):
        raise Unsupported(f"Node::FunDef fields changed: {lay['FunDef']}")
    node = ckern.mk_node("FunDef", {k: vals[k] for k in lay["FunDef"]})
    ast, _ = ckern.mk_ast("ast", node)
    env, ev = ckern.sym_env(ex, st)
    ctx, constr = ckern.refs(ex, st, "ctx", "constr")
    ends = e2.run_kernel(run, ex, fn, [Ref(ex.new_cell(st, ast)), env, ctx, constr], st)
    fields = e2.rust_struct(ckern.ENV_RS, "Environment")
    claims, n_ok = [], 0
    for p in ends:
        c = conj(p.cond)
        s = p.state
        if result_kind(p) != "Ok":
            continue
        n_ok += 1
        adds = calls(p, "ConstrBuilder::add")
        gens = [g for g in calls(p, "generate") if z3.eq(g["argvals"][0], ex.to_val(s, bodyr))]
        tf = [t for t in calls(p, "Name.TryFrom::try_from") if z3.eq(t["argvals"][0], ex.to_val(s, retr))]
        news = calls(p, "Expected::new")
        if not tf or len(gens) != 1:
            claims.append(z3.Not(c))
            continue
        name = ex.to_val(s, ex.project(s, ex.project(s, tf[0]["ret"], ("v", "Ok")), ("f", 0), "Name"))
        child = ex.to_val(s, ex.app("Expected.From::from", [bodyr], "Expected", s))
        parent_ok = z3.BoolVal(False)
        for nw in news:
            second = nw["args"][1]
            second = ex.read_ref(s, second) if isinstance(second, Ref) else second
            if isinstance(second, Agg) and second.variant == "Type":
                isp = z3.And(ex.to_val(s, second.fields[0]) == name, nw["argvals"][0] == ex.to_val(s, body_pos))
                parent_ok = z3.Or(parent_ok, z3.And(isp, disj([z3.And(a["argvals"][2] == ex.to_val(s, nw["ret"]), a["argvals"][3] == child) for a in adds])))
        benv = gens[0]["args"][1]
        benv = ex.read_ref(s, benv) if isinstance(benv, Ref) else benv
        rt_ok = z3.BoolVal(False)
        if isinstance(benv, Agg) and benv.names == fields:
            rt = benv.fields[fields.index("return_type")]
            if isinstance(rt, Agg) and rt.variant == "Some":
                want = [nw for nw in news if z3.eq(nw["argvals"][0], ex.to_val(s, ret_pos))]
                rt_ok = disj([ex.to_val(s, rt.fields[0]) == ex.to_val(s, nw["ret"]) for nw in want])
                in_fun = benv.fields[fields.index("in_fun")]
                rt_ok = z3.And(rt_ok, in_fun if z3.is_bool(in_fun) else z3.BoolVal(False))
        claims.append(z3.Implies(c, z3.And(parent_ok, rt_ok)))
    if not n_ok:
        raise Unsupported("no Ok path")
    e2.prove(run, ob, ex, [], conj(claims), {"pure": vals["pure"]}, fam.as_replay("function-body:", only=["body-", "return-"]))


def fn_value_family(rp):
    """Calls through a function-typed value: the argument must fit the parameter type, not the other way round."""
    f = e2.Family(rp)
    f.add("fnvalue-nullable-into-plain", "def apply(fun: Int -> Int, z: Int?) -> Int => fun(z)", "reject")
    f.add("fnvalue-nullable-global-into-plain", "def y: Int? := None\ndef apply(fun: Int -> Int) -> Int => fun(y)", "reject")
    f.add("fnvalue-plain-into-nullable", "def x: Int := 3\ndef apply(fun: Int? -> Int) -> Int => fun(x)", "accept")
    f.add("fnvalue-none-into-nullable", "def apply(fun: Int? -> Int) -> Int => fun(None)", "accept")
    f.add("fnvalue-conforming", "def apply(fun: Int -> Int, z: Int) -> Int => fun(z)", "accept")
    f.add("fnvalue-wrong-type", "def apply(fun: Int -> Int, z: Str) -> Int => fun(z)", "reject")
    f.add("fnvalue-subtype-into-supertype", "def apply(fun: Float -> Int, z: Int) -> Int => fun(z)", "accept")
    f.add("fnvalue-supertype-into-subtype", "def apply(fun: Int -> Int, z: Float) -> Int => fun(z)", "reject")
    f.add("fnvalue-too-many-arguments", "def apply(fun: Int -> Int, z: Int) -> Int => fun(z, z)", "reject")
    return f


def ob_fn_value_arguments(run, mir, rp, fam, prefix="fn-value"):
    ob = run.ob("function-value-arguments", "E2", "unify_function, call of a function-typed value, one iteration of the parameter/argument zip from an "
                "arbitrary loop state (both orders of the constraint's sides): the zip pairs the parameter types of the callable type (first) with "
                "the actual arguments (second); for a pair the constraint that is queued has parent = the declared parameter type (at the position "
                "of the constraint's parent), child = the argument; a surplus or missing argument is an error", ["unify_function (loop body)"])
    fn = e2.find1(mir, file=UNIFY_FUN_RS, name="unify_function")
    CON = "src/check/constrain/constraint/mod.rs"
    claims, n_push, n_err, n_other = [], 0, 0, 0
    ex = None
    for order in ("function-type", "type-function"):
        ex = Exec(mir, max_paths=5000)
        st = State()
        fargs = opq("fun.args", "Vec<Expected>")
        tname = opq("type.name", "Name")
        e_fun = e2.mk_struct(EXPECTED_RS, "Expected", {"pos": opq("f.pos", "Position"), "an_or_a": z3.Bool("f.an"), "expect":
                             e2.mk_variant(EXPECTED_RS, "Expect", "Function", {"name": opq("fun.name", "StringName"), "args": fargs})})
        e_ty = e2.mk_struct(EXPECTED_RS, "Expected", {"pos": opq("t.pos", "Position"), "an_or_a": z3.Bool("t.an"), "expect":
                            e2.mk_variant(EXPECTED_RS, "Expect", "Type", {"name": tname})})
        left, right = (e_fun, e_ty) if order == "function-type" else (e_ty, e_fun)
        cf = e2.rust_struct(CON, "Constraint")
        vals = {f: (z3.Bool("c." + f) if f.startswith("is_") else opq("c." + f, "?")) for f in cf}
        vals.update(parent=left, child=right)
        con = e2.mk_struct(CON, "Constraint", vals)
        constraints, fin, ctx = (Ref(ex.new_cell(st, opq(n, t))) for n, t in (("constraints", "Constraints"), ("finished", "Finished"), ("ctx", "Context")))
        ends = e2.run_kernel(run, ex, fn, [Ref(ex.new_cell(st, con)), constraints, fin, ctx, z3.BitVec("total", 64)], st)
        lpos = ex.to_val(st, left.fields[left.names.index("pos")])
        for p in ends:
            if p.kind == "panic":
                if "attempt to compute" in p.detail:       # the counters cannot overflow for any real argument list
                    continue
                raise Unsupported(f"panic path {p.detail[:80]}")
            c = conj(p.cond)
            s = p.state
            zips = calls(p, "Itertools::zip_longest")
            if not zips:
                if calls(p, "Constraints::push"):
                    n_other += 1                       # arguments are paired by something that does not report a length mismatch
                    claims.append(z3.Not(c))
                continue
            nxt = [ev for ev in calls(p, "Iterator::next") if p.events.index(ev) > p.events.index(zips[0])]
            iters = [ev for ev in p.events if ev["name"].split("::")[-1] == "iter" and p.events.index(ev) < p.events.index(zips[0])][-2:]
            if len(nxt) != 1 or len(iters) != 2:
                claims.append(z3.Not(c))
                continue
            # second stream = the arguments of the call; the first one comes from the callable type
            second_is_args = z3.And(zips[0]["argvals"][1] == ex.to_val(s, iters[1]["ret"]), zips[0]["argvals"][0] == ex.to_val(s, iters[0]["ret"]),
                                    iters[1]["argvals"][0] == ex.to_val(s, fargs))
            TY = "EitherOrBoth<&Name, &Expected>"
            item = nxt[0]["ret"]
            d_opt = ex.discr(s, item, "Option<EitherOrBoth>")
            eob = ex.project(s, ex.project(s, item, ("v", "Some")), ("f", 0), TY)
            d = ex.discr(s, eob, TY)
            both = ex.project(s, eob, ("v", "Both"))
            formal = ex.project(s, both, ("f", 0), "&Name")
            actual = ex.project(s, both, ("f", 1), "&Expected")
            pushes = calls(p, "Constraints::push")
            kind = result_kind(p)
            spec = [second_is_args,
                    z3.Implies(z3.And(d_opt == 1, d != 0), z3.BoolVal(kind == "Err")),
                    z3.Implies(z3.And(d_opt == 1, d == 0), z3.BoolVal(p.kind == "loop_back" and len(pushes) == 1)),
                    z3.Implies(d_opt == 0, z3.BoolVal(not pushes and kind != "Err"))]
            if kind == "Err":
                n_err += 1
            if p.kind == "loop_back" and len(pushes) == 1:
                n_push += 1
                a = pushes[0]
                pv = ex.read_ref(s, a["args"][2]) if isinstance(a["args"][2], Ref) else a["args"][2]
                parent_ok = z3.BoolVal(False)
                for nw in calls(p, "Expected::new"):
                    second = nw["args"][1]
                    second = ex.read_ref(s, second) if isinstance(second, Ref) else second
                    if z3.eq(ex.to_val(s, nw["ret"]), ex.to_val(s, pv)) and isinstance(second, Agg) and second.variant == "Type":
                        parent_ok = z3.And(ex.to_val(s, second.fields[0]) == ex.to_val(s, formal), nw["argvals"][0] == lpos)
                spec.append(z3.And(parent_ok, a["argvals"][3] == ex.to_val(s, actual)))
            claims.append(z3.Implies(c, conj(spec)))
    if not n_other and (n_push != 2 or n_err < 2):
        raise Unsupported(f"{n_push} queued-constraint paths, {n_err} error paths")
    ff = fn_value_family(rp)
    e2.prove(run, ob, ex, [], conj(claims), {}, ff.as_replay(prefix + ":"))
    if ob.status == "discharged":
        n, bad = ff.run()
        run.validated += n
        if bad:
            ob.status = "pending"
            ob.inconclusive(f"function-value family disagrees although the kernel is as specified: {bad[:2]}")
    run.samples.append({"obligation": ob.id, "queued_paths": n_push, "error_paths": n_err})


def constraints_on(ex, p, s, env_fields):
    """Every constraint added on path p with the shadow tables its two sides are renamed with: [{msg, parent, parent_table, parent_global,
    child, child_table, child_global}] (sides BEFORE renaming, as z3 terms; *_global is None when it is the builder's own table at the time of the
    call). Both ways of adding are understood: ConstrBuilder::add(msg, parent, child, env) [contract: both sides renamed with env.var_mapping,
    then the builder's table] and add_constr_map(Constraint::new(msg, parent.map_exp(t1, g1), child.map_exp(t2, g2)), _, ignore_map = true);
    a side that is handed to Constraint::new without map_exp is a side that is not renamed at all (table None)."""
    i_vm = env_fields.index("var_mapping")

    def table_of_env(envarg):
        v = ex.read_ref(s, envarg) if isinstance(envarg, Ref) else envarg
        return ex.to_val(s, ex.project(s, v, ("f", i_vm), "VarMapping"))
    out = []
    maps = [e_ for e_ in p.events if e_["name"].split("::")[-1] == "map_exp"]
    for a in p.events:
        if a["name"].endswith("ConstrBuilder::add"):
            t = table_of_env(a["args"][4])
            m = a["args"][1]
            out.append({"msg": m.s if isinstance(m, StrC) else None, "parent": a["argvals"][2], "parent_table": t, "parent_global": None,
                        "child": a["argvals"][3], "child_table": t, "child_global": None})
        elif a["name"].endswith("ConstrBuilder::add_constr_map"):
            ign = a["args"][3]
            if not (z3.is_expr(ign) and z3.is_true(z3.simplify(ign))):
                continue
            mk = [c for c in p.events if c["name"].endswith("Constraint::new") and z3.eq(ex.to_val(s, c["ret"]), a["argvals"][1])]
            if len(mk) != 1:
                out.append({"msg": None, "parent": None, "child": None, "parent_table": None, "child_table": None, "parent_global": None, "child_global": None})
                continue
            c = mk[0]
            m = c["args"][0]
            d = {"msg": m.s if isinstance(m, StrC) else None}
            for nm, side in (("parent", c["argvals"][1]), ("child", c["argvals"][2])):
                mm = [e_ for e_ in maps if z3.eq(ex.to_val(s, e_["ret"]), side)]
                if len(mm) == 1:
                    d[nm], d[nm + "_table"], d[nm + "_global"] = mm[0]["argvals"][0], mm[0]["argvals"][1], mm[0]["argvals"][2]
                else:
                    d[nm], d[nm + "_table"], d[nm + "_global"] = side, None, None
            out.append(d)
    return out


def renaming_of(ex, p, s, msg, env_fields):
    """(parent value, parent table, child value, child table) of the constraints labelled msg on path p (see constraints_on)."""
    return [(d["parent"], d["parent_table"], d["child"], d["child_table"]) for d in constraints_on(ex, p, s, env_fields)
            if d["msg"] == msg and d["parent_table"] is not None and d["child_table"] is not None]


def branch_family(rp):
    f = e2.Family(rp)
    f.add("ifvalue-then-local-shadows-global", "def x := \"b\"\ndef y: Str := if True then\n    def x := 10\n    x\nelse\n    \"c\"", "reject")
    f.add("ifvalue-else-local-shadows-global", "def x := \"b\"\ndef y: Str := if True then\n    \"c\"\nelse\n    def x := 10\n    x", "reject")
    f.add("ifvalue-then-local-shadows-global-conforming", "def x := 5\ndef y: Str := if True then\n    def x := \"a\"\n    x\nelse\n    \"c\"", "accept")
    f.add("ifvalue-local-without-shadowing", "def y: Str := if True then\n    def x := 10\n    x\nelse\n    \"c\"", "reject")
    f.add("ifvalue-local-without-shadowing-conforming", "def y: Int := if True then\n    def x := 10\n    x\nelse\n    3", "accept")
    f.add("ifvalue-plain", "def y: Int := if True then 1 else 2", "accept")
    f.add("ifvalue-plain-wrong", "def y: Int := if True then 1 else \"s\"", "reject")
    return f


def ob_branch_scope(run, mir, rp, fam):
    ob = run.ob("branch-value-scope", "E2", "gen_flow IfElse arm used as an expression: in the constraints `then branch equal to if` / `else branch equal to if` "
                "the identifiers of the branch are renamed with the shadow table of the environment the generation of THAT branch returned (locals of "
                "the branch), the if-expression itself with the table of the incoming environment", ["gen_flow (IfElse)", "ConstrBuilder::add / add_constr_map (contract)"])
    fn = e2.find1(mir, file=ckern.GEN + "control_flow.rs", name="gen_flow")
    ex = Exec(mir, max_paths=20000, inline=[ckern.ENV_SETTERS])
    st = State()
    mk = lambda n: Ref(ex.new_cell(st, ckern.mk_ast(n, opq(n + ".node", "Node"))[0]))
    cond, then, el = (mk(n) for n in ("cond", "then", "el"))
    node = ckern.mk_node("IfElse", {"cond": cond, "then": then, "el": Agg("Option", "Some", [el])})
    ast, _ = ckern.mk_ast("ast", node)
    astr = Ref(ex.new_cell(st, ast))
    env, ev = ckern.sym_env(ex, st, is_expr=z3.BoolVal(True))
    ctx, constr = ckern.refs(ex, st, "ctx", "constr")
    ends = e2.run_kernel(run, ex, fn, [astr, env, ctx, constr], st)
    fields = e2.rust_struct(ckern.ENV_RS, "Environment")
    claims, n_ok, used = [], 0, set()
    outer_t = ex.to_val(st, ev["var_mapping"])
    for p in ends:
        if result_kind(p) != "Ok":
            continue
        s = p.state
        c = conj(p.cond)
        n_ok += 1
        whole = ex.to_val(s, ex.app("Expected.From::from", [astr], "Expected", s))
        for msg, br in (("then branch equal to if", then), ("else branch equal to if", el)):
            gens = [g for g in calls(p, "generate") if z3.eq(g["argvals"][0], ex.to_val(s, br))]
            rn = renaming_of(ex, p, s, msg, fields)
            if len(gens) != 1 or len(rn) != 1:
                claims.append(z3.Not(c))
                continue
            benv = ex.project(s, ex.project(s, gens[0]["ret"], ("v", "Ok")), ("f", 0), "Environment")
            want_t = ex.to_val(s, ex.project(s, benv, ("f", fields.index("var_mapping")), "VarMapping"))
            pv, pt, cv, ct = rn[0]
            used.add("branch-end-environment" if z3.eq(ct, want_t) else "enclosing-environment" if z3.eq(ct, outer_t) else "another-environment")
            claims.append(z3.Implies(c, z3.And(pv == whole, pt == outer_t, ct == want_t,
                                               cv == ex.to_val(s, ex.app("Expected.From::from", [br], "Expected", s)))))
    if not n_ok:
        raise Unsupported("no Ok path")
    which = "+".join(sorted(used))
    bf = branch_family(rp)

    def replay(model):
        r = bf.as_replay()(model)
        if r.get("reproduced"):
            r["failing_programs"] = r.get("all_failing_roles")
            r["role"] = "if-branch-renamed-with:" + which
        return r
    e2.prove(run, ob, ex, [], conj(claims), {}, replay)
    if ob.status == "discharged":
        n, bad = bf.run()
        run.validated += n
        if bad:
            ob.status = "pending"
            ob.inconclusive(f"if-value family disagrees although the kernel is as specified: {bad[:2]}")
    run.samples.append({"obligation": ob.id, "branch_renamed_with": which, "ok_paths": n_ok})


def arm_family(rp):
    f = e2.Family(rp)
    f.add("armvalue-local-shadows-global", "def x := \"b\"\ndef y: Str := match 3\n    z =>\n        def x := 10\n        x", "reject")
    f.add("armvalue-local-shadows-global-in-function", "def x := \"b\"\ndef f(a: Int) -> Str =>\n    match a\n        z =>\n            def x := 10\n            x", "reject")
    f.add("armvalue-local-shadows-global-conforming", "def x := \"b\"\ndef y: Int := match 3\n    z =>\n        def x := 10\n        x", "accept")
    f.add("armvalue-pattern-shadows-global-conforming", "def x := \"b\"\ndef y: Int := match 3\n    x => x", "accept")
    f.add("armvalue-pattern-shadows-global", "def x := \"b\"\ndef y: Str := match 3\n    x => x", "reject")
    f.add("armvalue-plain", "def y: Int := match 3\n    z => z + 1", "accept")
    f.add("armvalue-plain-wrong", "def y: Str := match 3\n    z => z + 1", "reject")
    return f


def ob_arm_scope(run, mir, rp, fam):
    ob = run.ob("arm-value-scope", "E2", "constrain_cases, one iteration from an arbitrary loop state: in the constraints of a match arm the arm's body is renamed "
                "with the shadow table of the environment the generation of that body returned, the pattern with the table of the environment "
                "the generation of the pattern returned (where the pattern variables live), the matched expression and the match itself with the "
                "table of the incoming environment", ["constrain_cases (loop body)", "ConstrBuilder::add / add_constr_map (contract)"])
    _rel, lay = ckern.node_enum()
    fnc = e2.find1(mir, file=FLOW_RS, name="constrain_cases")
    ex = Exec(mir, max_paths=20000, inline=[ckern.ENV_SETTERS])
    st = State()
    ast_, _ = ckern.mk_ast("match", opq("match.node", "Node"))
    astr = Ref(ex.new_cell(st, ast_))
    mexpr, _ = ckern.mk_ast("expr", opq("expr.node", "Node"))
    mexprr = Ref(ex.new_cell(st, mexpr))
    env, evs = ckern.sym_env(ex, st)
    ctx, constr = ckern.refs(ex, st, "ctx", "constr")
    cases = Ref(ex.new_cell(st, opq("cases", "Vec<AST>")))
    ends = e2.run_kernel(run, ex, fnc, [astr, Ref(ex.new_cell(st, Agg("Option", "Some", [mexpr]))), cases, env, ctx, constr], st)
    fields = e2.rust_struct(ckern.ENV_RS, "Environment")
    astf = e2.rust_struct(ckern.AST_RS, "AST")
    i_vm = fields.index("var_mapping")
    outer_t = ex.to_val(st, evs["var_mapping"])
    claims, n, used = [], 0, set()
    for p in ends:
        if p.kind != "loop_back":
            continue
        s = p.state
        nx = calls(p, "Iterator::next")
        if not nx:
            continue
        c = conj(p.cond)
        case = ex.project(s, ex.project(s, nx[-1]["ret"], ("v", "Some")), ("f", 0), "&AST")
        cnode = ex.project(s, ex.project(s, case, ("f", astf.index("node")), "Node"), ("v", "Case"))
        ccond = ex.project(s, cnode, ("f", lay["Case"].index("cond")), "Box<AST>")
        cbody = ex.project(s, cnode, ("f", lay["Case"].index("body")), "Box<AST>")
        cexpr = ex.project(s, ex.project(s, ex.project(s, ccond, ("f", astf.index("node")), "Node"), ("v", "ExpressionType")), ("f", lay["ExpressionType"].index("expr")), "Box<AST>")
        E = lambda v: ex.to_val(s, ex.app("Expected.From::from", [v], "Expected", s))
        gen_of = lambda v: [g for g in calls(p, "generate") if z3.eq(g["argvals"][0], ex.to_val(s, v))]
        gb, gc = gen_of(cbody), gen_of(ccond)
        if len(gb) != 1 or len(gc) != 1:
            claims.append(z3.Not(c))
            continue
        t_of = lambda g: ex.to_val(s, ex.project(s, ex.project(s, ex.project(s, g["ret"], ("v", "Ok")), ("f", 0), "Environment"), ("f", i_vm), "VarMapping"))
        want = [(E(cbody), t_of(gb[0]), "body"), (E(cexpr), t_of(gc[0]), "pattern"), (E(astr), outer_t, "match"), (E(mexprr), outer_t, "matched-expression")]
        rn = renaming_of(ex, p, s, "arm body", fields) + renaming_of(ex, p, s, "arm body and outer", fields)
        if not rn:
            claims.append(z3.Not(c))
            continue
        n += 1
        cl = []
        for pv, pt, cv, ct in rn:
            for v, t in ((pv, pt), (cv, ct)):
                hit = [(wt, nm) for wv, wt, nm in want if z3.eq(v, wv)]
                if len(hit) != 1:
                    cl.append(z3.BoolVal(False))
                    continue
                if hit[0][1] in ("body", "pattern"):
                    used.add(hit[0][1] + ":" + ("own-environment" if z3.eq(t, hit[0][0]) else "enclosing-environment" if z3.eq(t, outer_t) else "another-environment"))
                cl.append(t == hit[0][0])
        claims.append(z3.Implies(c, conj(cl)))
    if n < 2:
        raise Unsupported(f"{n} arm paths")
    which = "+".join(sorted(used))
    af = arm_family(rp)

    def replay(model):
        r = af.as_replay()(model)
        if r.get("reproduced"):
            r["failing_programs"] = r.get("all_failing_roles")
            r["role"] = "match-arm-renamed-with:" + which
        return r
    e2.prove(run, ob, ex, [], conj(claims), {}, replay)
    if ob.status == "discharged":
        k, bad = af.run()
        run.validated += k
        if bad:
            ob.status = "pending"
            ob.inconclusive(f"arm-value family disagrees although the kernel is as specified: {bad[:2]}")
    run.samples.append({"obligation": ob.id, "renamed_with": which, "arm_paths": n})


def scope_family(rp):
    """Programs whose function body ends in a name that is re-defined in the function's own scope."""
    f = e2.Family(rp)
    f.add("scope-parameter-shadows-global", "def x := \"b\"\ndef f(x: Int) -> Str => x", "reject")
    f.add("scope-local-shadows-global", "def x := \"b\"\ndef f() -> Str =>\n    def x := 10\n    x", "reject")
    f.add("scope-parameter-shadows-global-conforming", "def x := \"b\"\ndef f(x: Int) -> Int => x", "accept")
    f.add("scope-local-shadows-global-conforming", "def x := 5\ndef f() -> Str =>\n    def x := \"a\"\n    x", "accept")
    f.add("scope-same-local-in-two-functions", "def f() -> Int =>\n    def x := 10\n    x\n\ndef g() -> Str =>\n    def x := \"a\"\n    x", "accept")
    f.add("scope-method-field-of-other-class", "class C1\n    def a: Str := \"s\"\n    def f(self) -> Str => self.a\n\nclass C2\n    def a: Int := 10\n    def f(self) -> Str => self.a", "reject")
    return f


def ob_fun_body_scope(run, mir, rp, fam):
    ob = run.ob("function-body-scope", "E2", "gen_def FunDef arm: the identifiers of the body expression in the `fun body type` constraint are "
                "renamed with the environment the generation of the body returned (the scope in which the body's last expression is evaluated: "
                "parameters and locals of the function), not with the enclosing environment", ["gen_def (FunDef)", "ConstrBuilder::add (contract: renames with env.var_mapping)"])
    fn = e2.find1(mir, file=DEF_RS, name="gen_def")
    ex = Exec(mir, max_paths=60000, inline=[ckern.ENV_SETTERS])
    st = State()
    _rel, lay = ckern.node_enum()
    mk = lambda n: ckern.mk_ast(n, opq(n + ".node", "Node"))
    (idn, _p0), (body, body_pos), (ret, ret_pos) = mk("id"), mk("body"), mk("ret")
    idr, bodyr, retr = (Ref(ex.new_cell(st, x)) for x in (idn, body, ret))
    vals = {"id": idr, "args": opq("args", "Vec<AST>"), "ret": Agg("Option", "Some", [retr]), "raises": opq("raises", "Vec<AST>"),
            "body": Agg("Option", "Some", [bodyr]), "pure": z3.Bool("pure")}
    node = ckern.mk_node("FunDef", {k: vals[k] for k in lay["FunDef"]})
    ast, _ = ckern.mk_ast("ast", node)
    env, ev = ckern.sym_env(ex, st)
    ctx, constr = ckern.refs(ex, st, "ctx", "constr")
    ends = e2.run_kernel(run, ex, fn, [Ref(ex.new_cell(st, ast)), env, ctx, constr], st)
    claims, n_ok, used = [], 0, set()
    outer = ex.to_val(st, env)
    for p in ends:
        c = conj(p.cond)
        s = p.state
        if result_kind(p) != "Ok":
            continue
        adds = [a for a in calls(p, "ConstrBuilder::add") if isinstance(a["args"][1], StrC) and a["args"][1].s == "fun body type"]
        gens = [g for g in calls(p, "generate") if z3.eq(g["argvals"][0], ex.to_val(s, bodyr))]
        if len(adds) != 1 or len(gens) != 1:
            claims.append(z3.Not(c))
            continue
        n_ok += 1
        after = ex.to_val(s, ex.project(s, ex.project(s, gens[0]["ret"], ("v", "Ok")), ("f", 0), "Environment"))
        got = adds[0]["argvals"][4]
        before = gens[0]["argvals"][1]
        used.add("body-end-environment" if z3.eq(got, after) else "enclosing-environment" if z3.eq(got, outer) else
                 "parameters-only-environment" if z3.eq(got, before) else "another-environment")
        claims.append(z3.Implies(c, got == after))
    if not n_ok:
        raise Unsupported("no Ok path with a `fun body type` constraint")
    which = "+".join(sorted(used))
    sf = scope_family(rp)

    def replay(model):
        r = sf.as_replay()(model)
        if r.get("reproduced"):
            r["failing_programs"] = r.get("all_failing_roles")
            r["role"] = "fun-body-type-renamed-with:" + which
        return r
    e2.prove(run, ob, ex, [], conj(claims), {"pure": vals["pure"]}, replay)
    run.samples.append({"obligation": ob.id, "environment_used": which, "ok_paths": n_ok})


ARGGEN_RS = "src/check/context/arg/generic.rs"


def signature_family(rp):
    """What a declared signature promises about the number of arguments: a defaulted parameter may be omitted, a required one not."""
    f = e2.Family(rp)
    shape = "class Shape(def name: Str, def sides: Int := 4)\n    def label(self, prefix: Str) -> Str => return prefix + self.name\n"
    f.add("field-argument-default-omitted", shape + 'def a := Shape("a")', "accept")
    f.add("field-argument-default-given", shape + 'def a := Shape("a", 3)', "accept")
    f.add("field-argument-too-many", shape + 'def a := Shape("a", 3, 4)', "reject")
    f.add("field-argument-required-omitted", 'class Shape(def name: Str, def sides: Int)\n    def label(self) -> Str => return self.name\ndef a := Shape("a")', "reject")
    f.add("field-argument-default-omitted-in-body", shape + 'def g(flag: Bool) -> Int =>\n    if flag then\n        def s := Shape("b")\n        return s.sides\n    return 0', "accept")
    f.add("function-default-omitted", "def f(a: Int, b: Int := 1) -> Int => return a + b\ndef x: Int := f(1)", "accept")
    f.add("function-required-omitted", "def f(a: Int, b: Int) -> Int => return a + b\ndef x: Int := f(1)", "reject")
    f.add("method-default-omitted", "class A\n    def m(self, a: Int, b: Int := 1) -> Int => return a + b\ndef o := A()\ndef x: Int := o.m(1)", "accept")
    f.add("method-required-omitted", "class A\n    def m(self, a: Int, b: Int) -> Int => return a + b\ndef o := A()\ndef x: Int := o.m(1)", "reject")
    return f


def ob_argument_signature(run, mir, rp, fam):
    ob = run.ob("signature-records-defaults", "E2", "ClassArgument::try_from (a class argument that is also a field, `def x: T := e`) and "
                "GenericFunctionArg::try_from (function, method and plain class arguments): on every successful path the recorded parameter has "
                "has_default exactly when the declaration carries a default expression, the `mutable` flag of the declaration, the name "
                "argument_name gives for its identifier, and is variadic exactly when the declaration says `vararg` (never for a field argument) - "
                "this record is all call_parameters / unify_fun_arg know about the signature when they count arguments",
                ["ClassArgument::try_from", "GenericFunctionArg::try_from"])
    _rel, lay = ckern.node_enum()
    claims, n_ok, free = [], 0, {}
    for impl, variant, dflt in (("TryFrom<&AST> for ClassArgument", "VariableDef", "expr"), ("TryFrom<&AST> for GenericFunctionArg", "FunArg", "default")):
        fn = e2.find1(mir, file=ARGGEN_RS, impl=impl, name="try_from")
        ex = Exec(mir, max_paths=20000)
        st = State()
        vals, some = {}, None
        mk = lambda n: ckern.mk_ast(variant + "." + n, opq(variant + "." + n + ".node", "Node"))[0]
        for f in lay[variant]:
            if f in ("mutable", "vararg"):
                vals[f] = z3.Bool(variant + "." + f)
            elif f == dflt:
                vals[f], some = sym_option(variant + "." + f, mk(f), "Option<Box<AST>>")
            elif f == "var":
                vals[f] = mk(f)
            elif f == "ty":
                vals[f], _ = sym_option(variant + "." + f, mk(f), "Option<Box<AST>>")
            else:
                vals[f] = opq(variant + "." + f, f)
        if some is None or "var" not in vals or not z3.is_bool(vals.get("mutable")):
            raise Unsupported(f"Node::{variant} fields changed: {lay[variant]}")
        free[variant + " has a default"] = some
        ast, _ = ckern.mk_ast("ast", ckern.mk_node(variant, vals))
        ends = e2.run_kernel(run, ex, fn, [Ref(ex.new_cell(st, ast))], st)
        gfa = e2.rust_struct(ARGGEN_RS, "GenericFunctionArg")
        for p in ends:
            if result_kind(p) != "Ok":
                continue
            n_ok += 1
            s = p.state
            r = ex.project(s, ex.project(s, p.ret, ("v", "Ok")), ("f", 0), "X")
            if variant == "VariableDef":
                ca = e2.rust_struct(ARGGEN_RS, "ClassArgument")
                r = r.fields[ca.index("fun_arg")] if isinstance(r, Agg) and r.names == ca else None
            if not (isinstance(r, Agg) and r.names == gfa):
                claims.append(z3.Not(conj(p.cond)))
                continue
            g = lambda k: r.fields[gfa.index(k)]
            names = calls(p, "argument_name")
            cl = [g("has_default") == some if z3.is_bool(g("has_default")) else z3.BoolVal(False),
                  g("mutable") == vals["mutable"] if z3.is_bool(g("mutable")) else z3.BoolVal(False),
                  g("vararg") == (vals["vararg"] if "vararg" in vals else z3.BoolVal(False)) if z3.is_bool(g("vararg")) else z3.BoolVal(False),
                  z3.BoolVal(len(names) == 1)]
            if len(names) == 1:
                nm = ex.project(s, ex.project(s, names[0]["ret"], ("v", "Ok")), ("f", 0), "String")
                cl.append(z3.And(names[0]["argvals"][0] == ex.to_val(s, vals["var"]), ex.to_val(s, g("name")) == ex.to_val(s, nm)))
            claims.append(z3.Implies(conj(p.cond), conj(cl)))
    if n_ok < 4:
        raise Unsupported(f"{n_ok} Ok paths")
    sfam = signature_family(rp)

    def replay(model):
        k, bad = sfam.run()
        if bad:
            roles = sorted(b["role"] for b in bad)
            return {"reproduced": True, "role": "signature-arity:" + "+".join(roles), "failing_programs": roles,
                    "detail": f"program {bad[0]['src']!r}: expected {bad[0]['expected']}, real verdict {bad[0]['got']}"}
        return {"reproduced": False, "detail": f"all {k} programs behave as required"}
    e2.prove(run, ob, ex, [], conj(claims), free, replay)
    if ob.status == "discharged":
        k, bad = sfam.run()
        run.validated += k
        if bad:
            ob.status = "pending"
            ob.inconclusive(f"signature family disagrees although the kernels are as specified: {bad[:2]}")
    run.samples.append({"obligation": ob.id, "ok_paths": n_ok})


def ob_unify_type(run, mir, rp, fam):
    ob = run.ob("unify-type-decision", "E2", "unify_type on two concrete (non-temporary) types: the superset test is asked "
                "with the constraint's parent type as receiver and the child type as argument; an error of the test is "
                "propagated; not a superset and neither side Any => Err; otherwise unification continues",
                ["unify_type"])
    fn = e2.find1(mir, file=UNIFY_TY_RS, name="unify_type")
    ex = Exec(mir, max_paths=20000)
    st = State()
    EXP_RS = "src/check/constrain/constraint/expected.rs"
    CON_RS = "src/check/constrain/constraint/mod.rs"
    l_ty, r_ty = opq("parent.type", "Name"), opq("child.type", "Name")
    l_pos, r_pos = opq("parent.pos", "Position"), opq("child.pos", "Position")
    parent = mk_struct(EXP_RS, "Expected", {"pos": l_pos, "expect": mk_variant(EXP_RS, "Expect", "Type", {"name": l_ty}), "an_or_a": z3.Bool("p.an")})
    child = mk_struct(EXP_RS, "Expected", {"pos": r_pos, "expect": mk_variant(EXP_RS, "Expect", "Type", {"name": r_ty}), "an_or_a": z3.Bool("c.an")})
    con = mk_struct(CON_RS, "Constraint", {"is_flag": z3.Bool("is_flag"), "is_sub": z3.Bool("is_sub"), "msg": opq("msg", "String"),
                                           "parent": parent, "child": child})
    constr, finished, ctx = ckern.refs(ex, st, "constraints", "finished", "ctx")
    total = z3.BitVec("total", 64)
    ends = e2.run_kernel(run, ex, fn, [Ref(ex.new_cell(st, con)), constr, finished, ctx, total], st)
    claims, n_sup = [], 0
    A = lambda n, a, t, s_: ex.app(n, a, t, s_)
    for p in ends:
        c = conj(p.cond)
        s = p.state
        if p.kind == "panic":
            continue                      # `total - constr.len()` is guarded; arithmetic is not the subject here
        temp = z3.Or(A("Name::is_temporary", [l_ty], "bool", s), A("Name::is_temporary", [r_ty], "bool", s),
                     A("Name.ContainsTemp::contains_temp", [l_ty], "bool", s), A("Name.ContainsTemp::contains_temp", [r_ty], "bool", s))
        sups = calls(p, "Name.IsSuperSet::is_superset_of")
        kind = result_kind(p)
        links = calls(p, "unify_link")
        if not sups:
            # only the temporary-name branches may skip the test
            claims.append(z3.Implies(c, temp))
            continue
        n_sup += 1
        sup = sups[0]
        r = sup["ret"]
        d = ex.discr(s, r, "Result<bool, Vec<TypeErr>>")
        val = ex.project(s, ex.project(s, r, ("v", "Ok")), ("f", 0), "bool")
        order = z3.And(sup["argvals"][0] == ex.to_val(s, l_ty), sup["argvals"][1] == ex.to_val(s, r_ty),
                       sup["argvals"][3] == ex.to_val(s, l_pos))
        eqs = [ev for ev in p.events if ev["name"].endswith("PartialEq::eq") and "Name" in ev["callee"]]
        any_side = disj([ev["ret"] for ev in eqs if z3.is_bool(ev["ret"])])
        spec = [order, z3.Not(temp),
                z3.Implies(d == 1, z3.BoolVal(kind == "Err" and not links)),
                z3.Implies(z3.And(d == 0, z3.Not(val), z3.Not(any_side)), z3.BoolVal(kind == "Err" and not links)),
                z3.Implies(z3.And(d == 0, val), z3.BoolVal(bool(links) or kind == "Err"))]
        # when unification continues its result is the result of unify_link
        if links:
            spec.append(z3.And(z3.Or(val, any_side), ex.to_val(s, p.ret) == ex.to_val(s, links[-1]["ret"])))
        claims.append(z3.Implies(c, conj(spec)))
    if not n_sup:
        raise Unsupported("no path reaches Name::is_superset_of")
    e2.prove(run, ob, ex, [], conj(claims), {"parent.an_or_a": z3.Bool("p.an")},
             fam.as_replay("unify-type:", only=["initialiser-", "return-", "body-", "call-wrong", "call-conforming"]))


def run(run):
    mir = e2.load_mir(run)
    rp = common.Replay()
    fam = family(rp)
    run.assume("iterator / zip_longest results, Context::class, Name::from, Expected::new, generate are uninterpreted functions of their arguments",
               "loop bodies are checked from a havocked loop state (one-step semantics); the loops' fixed points are outside",
               "Name::from(&ctx.class(ty)) denotes the same classes as the declared type ty (resolution through the context is trusted)",
               "outside: that a violation is still caught in every nesting context (branch forking in ConstrBuilder); the accepted-exactly-when direction for whole programs")
    run.trusted += ["rustc nightly MIR dump", "mirsym MIR semantics", "z3"]
    run.bounds = {"paths": "all paths of each kernel with loops cut at their headers"}
    for f in (ob_call_parameters, ob_argument_signature, ob_call_result, ob_compound_assignment, ob_method_parameters, ob_fn_value_arguments, ob_access_direction, ob_shadow_mapping, ob_operator_typing, ob_range_operands, ob_raise_arguments, ob_class_arguments, ob_flow_constraints, ob_return, ob_id_from_var, ob_initialiser_scope, ob_fun_body, ob_fun_body_scope, ob_branch_scope, ob_arm_scope, ob_unify_type):
        try:
            f(run, mir, rp, fam)
        except Unsupported as e:
            run.ob(f.__name__[3:] + "-encoding", "E2", "kernel is encodable").inconclusive(f"unsupported construct: {e}")
    if run.clean():
        e2.validate_family(run, fam, "signatures")
    rp.close()
