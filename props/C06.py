"""C06 — null safety: the nullable comparison and its operands (E2, MIR -> z3)."""
import z3

import common
import e2
from e2 import conj, disj
from mirsym import Exec, State, Opq, Agg, Ref, StrC, Val, Unsupported

LEVEL = "model_checking"
EXPLANATION = ("Symbolic execution of the MIR of the nullable supertype test, its accessors, the "
               "None-absorbing union and the None/`?` constraint generation; every input flag and "
               "callee result is a free z3 variable, the documented nullable rule is the assertion.")

TRUE_NAME = "src/check/name/true_name/mod.rs"
NAME = "src/check/name/mod.rs"


def family(rp):
    f = e2.Family(rp)
    for T, lit, other in (("Int", "5", '"a"'), ("Str", '"a"', "5"), ("Float", "5.0", '"a"')):
        f.add(f"None-into-{T}", f"def x: {T} := None", "reject")
        f.add(f"None-into-{T}?", f"def x: {T}? := None", "accept")
        f.add(f"{T}-into-{T}?", f"def x: {T}? := {lit}", "accept")
        f.add(f"{T}-into-{T}", f"def x: {T} := {lit}", "accept")
        f.add(f"{T}?-into-{T}", f"def y: {T}? := {lit}\ndef x: {T} := y", "reject")
        f.add(f"{T}?None-into-{T}", f"def y: {T}? := None\ndef x: {T} := y", "reject")
        f.add(f"{T}?-into-{T}?", f"def y: {T}? := {lit}\ndef x: {T}? := y", "accept")
        f.add(f"other-into-{T}?", f"def x: {T}? := {other}", "reject")
        f.add(f"other-into-{T}", f"def x: {T} := {other}", "reject")
        f.add(f"default-{T}", f"def y: {T}? := None\ndef x: {T} := y ? {lit}", "accept")
    cls = "class A\n    def a: Int := 1\n"
    f.add("None-into-class", cls + "def x: A := None", "reject")
    f.add("None-into-class?", cls + "def x: A? := None", "accept")
    f.add("class-into-class?", cls + "def x: A? := A()", "accept")
    opt = lambda verdict, out: verdict == "accept" and "Optional[int]" in out and "Union" not in out
    f.add("union-value-then-None", "def a := if True then 10 else None\n", opt, annotate=True)
    f.add("union-None-then-value", "def a := if True then None else 10\n", opt, annotate=True)
    f.add("Int?-into-Float", "def y: Int? := 5\ndef x: Float := y", "reject")
    f.add("Int?-into-Float?", "def y: Int? := 5\ndef x: Float? := y", "accept")
    f.add("Int-into-Float?", "def x: Float? := 5", "accept")
    f.add("subclass?-into-class", cls + "class B: A\n    def b: Int := 2\ndef y: B? := B()\ndef x: A := y", "reject")
    f.add("subclass-into-class?", cls + "class B: A\n    def b: Int := 2\ndef x: A? := B()", "accept")
    f.add("call-None-after-nullable-parameter", "def f(a: Int?, b: Int) -> Int => b\nf(None, None)", "reject")
    f.add("call-nullable-value-after-nullable-parameter", "def f(a: Int?, b: Int) -> Int => b\ndef y: Int? := 1\nf(1, y)", "reject")
    f.add("call-None-for-nullable-parameter-first", "def f(a: Int?, b: Int) -> Int => b\nf(None, 2)", "accept")
    f.add("call-None-for-nullable-parameter-last", "def f(b: Int, a: Int?) -> Int => b\nf(2, None)", "accept")
    f.add("call-constructor-None-after-nullable", "class Box(def label: Str?, def size: Int)\n    def g(self) -> Int => self.size\ndef b := Box(None, None)", "reject")
    f.add("call-Int?-for-Float-parameter", "def f(a: Float) -> Float => a\ndef y: Int? := 1\nf(y)", "reject")
    f.add("call-None-for-defaulted-parameter", "def f(a: Int, b: Int := 5) -> Int => a + b\nf(1, None)", "reject")
    f.add("call-nullable-for-defaulted-parameter", "def f(a: Int, b: Int := 5) -> Int => a + b\ndef y: Int? := 1\nf(1, y)", "reject")
    f.add("call-value-for-defaulted-parameter", "def f(a: Int, b: Int := 5) -> Int => a + b\nf(1, 2)", "accept")
    f.add("call-constructor-None-for-defaulted", "class A\n    def v: Int := 0\n    def __init__(self, x: Int := 0) => self.v := x\ndef a := A(None)", "reject")
    f.add("call-None-as-arg", "def f(a: Int) -> Int => a\nf(None)", "reject")
    f.add("None-as-nullable-arg", "def f(a: Int?) -> Int => 5\nf(None)", "accept")
    f.add("value-as-nullable-arg", "def f(a: Int?) -> Int => 5\nf(3)", "accept")
    f.add("None-returned", "def f() -> Int => None", "reject")
    f.add("None-returned-nullable", "def f() -> Int? => None", "accept")
    f.add("nullable-operand", "def y: Int? := 5\ny + 1", "reject")
    return f


def true_name_input(ex, st, tag):
    sn, sm = z3.Bool(f"{tag}.is_nullable"), z3.Bool(f"{tag}.is_mutable")
    name = Opq(z3.Const(f"{tag}.variant.name", Val), "std::string::String")
    gen = Opq(z3.Const(f"{tag}.variant.generics", Val), "Vec<Name>")
    variant = Agg("StringName", None, [name, gen], ["name", "generics"])
    v = Agg("TrueName", None, [sn, sm, variant], ["is_nullable", "is_mutable", "variant"])
    return Ref(ex.new_cell(st, v)), sn, sm, name, variant


def res_split(ex, st, ret):
    """Result value -> (is_ok: Bool, ok_payload, err_payload)."""
    if isinstance(ret, Agg) and ret.ty == "Result":
        if ret.variant == "Ok":
            return z3.BoolVal(True), ret.fields[0], None
        return z3.BoolVal(False), None, ret.fields[0]
    if isinstance(ret, Opq):
        d = ex.discr(st, ret, "Result<bool, Vec<TypeErr>>")
        ok = ex.project(st, ex.project(st, ret, ("v", "Ok")), ("f", 0), "bool")
        err = ex.project(st, ex.project(st, ret, ("v", "Err")), ("f", 0), "Vec<TypeErr>")
        return d == 0, ok, err
    raise Unsupported(f"result value {ret}")


def ob_true_name_rule(run, mir, rp, fam):
    ob = run.ob("true-name-rule", "E2", "TrueName::is_superset_of implements exactly the documented "
                "nullable rule: Ok(sn∧null_o ∨ (sn∨¬on)∧variant_super), errors of the variant test propagated",
                ["TrueName::is_superset_of", "TrueName::is_nullable", "TrueName::is_null", "TrueName::is_empty"])
    fn = e2.find1(mir, file=TRUE_NAME, impl="IsSuperSet<TrueName> for TrueName", name="is_superset_of")
    ex = Exec(mir, inline=[r"<TrueName as Nullable>::(is_nullable|is_null)$",
                           r"<TrueName as check::name::Empty>::is_empty$"])
    st = State()
    s_ref, sn, _sm, _sname, svar = true_name_input(ex, st, "self")
    o_ref, on, _om, oname, ovar = true_name_input(ex, st, "other")
    ctx = Ref(ex.new_cell(st, Opq(z3.Const("ctx", Val), "Context")))
    pos = Opq(z3.Const("pos", Val), "Position")
    ends = e2.run_kernel(run, ex, fn, [s_ref, o_ref, ctx, pos], st)
    null_o = ex.to_val(st, oname) == ex.strc("None")
    es = ex.app("StringName.Empty::is_empty", [svar], "bool", st)
    eo = ex.app("StringName.Empty::is_empty", [ovar], "bool", st)
    vres = ex.app("StringName.IsSuperSet::is_superset_of", [svar, ovar, ctx, pos], "Result<bool, Vec<TypeErr>>", st)
    v_ok, v_val, v_err = res_split(ex, st, vres)
    early = z3.And(z3.Not(es), eo)
    want_true = z3.And(z3.Not(early), sn, null_o)
    want_false = z3.And(z3.Not(early), z3.Not(want_true), z3.Not(sn), on)
    rest = z3.And(z3.Not(early), z3.Not(want_true), z3.Not(want_false))
    claims, panics = [], []
    for p in ends:
        c = conj(p.cond)
        if p.kind == "panic":
            panics.append(c)
            continue
        if p.kind != "return":
            raise Unsupported(f"unexpected path end {p}")
        r_ok, r_val, r_err = res_split(ex, st, p.ret)
        if r_val is not None:
            spec = z3.And(r_ok,
                          z3.Implies(early, z3.Not(r_val)),
                          z3.Implies(want_true, r_val),
                          z3.Implies(want_false, z3.Not(r_val)),
                          z3.Implies(rest, z3.And(v_ok, r_val == v_val)))
        else:
            spec = z3.And(rest, z3.Not(v_ok), ex.to_val(st, r_err) == ex.to_val(st, v_err))
        claims.append(z3.Implies(c, spec))
    covered = disj([conj(p.cond) for p in ends if p.kind in ("return", "panic")])
    names = {"self.is_nullable": sn, "other.is_nullable": on, "other.is_null": null_o,
             "self.is_empty": es, "other.is_empty": eo, "variant_super.is_ok": v_ok,
             "variant_super.value": v_val}
    claim = z3.And(conj(claims), covered, z3.Not(disj(panics)))
    e2.prove(run, ob, ex, [], claim, names, fam.as_replay("true-name-rule:"))
    run.samples.append({"obligation": ob.id, "paths": len(ends),
                        "example_path_condition": [str(c) for c in ends[-1].cond][:4]})


def ob_accessors(run, mir, rp, fam):
    ob = run.ob("as-nullable", "E2", "TrueName::as_nullable sets exactly is_nullable and keeps mutability and variant",
                ["TrueName::as_nullable"])
    fn = e2.find1(mir, file=TRUE_NAME, impl="impl Nullable for TrueName", name="as_nullable")
    ex = Exec(mir)
    st = State()
    s_ref, sn, sm, _n, svar = true_name_input(ex, st, "self")
    ends = e2.run_kernel(run, ex, fn, [s_ref], st)
    cl = []
    for p in ends:
        if p.kind != "return" or not isinstance(p.ret, Agg) or len(p.ret.fields) != 3:
            raise Unsupported(f"as_nullable path {p}")
        f = p.ret.fields
        cl.append(z3.Implies(conj(p.cond), z3.And(f[0], f[1] == sm, ex.to_val(st, f[2]) == ex.to_val(st, svar))))
    e2.prove(run, ob, ex, [], conj(cl), {"self.is_nullable": sn, "self.is_mutable": sm},
             fam.as_replay("as-nullable:"))

    for meth in ("is_nullable", "is_null"):
        ob = run.ob(f"name-{meth}", "E2",
                    f"Name::{meth} is `all` over the members of the member predicate TrueName::{meth}",
                    [f"Name::{meth}", f"Name::{meth}::{{closure#0}}"])
        cfn = e2.find1(mir, file=NAME, impl="impl Nullable for Name", name=meth, closure=["{closure#0}"])
        ex = Exec(mir)
        st = State()
        m_ref, *_ = true_name_input(ex, st, "member")
        env = Ref(ex.new_cell(st, Agg("closure", None, [])))
        ends = e2.run_kernel(run, ex, cfn, [env, m_ref], st)
        want = ex.app(f"TrueName.Nullable::{meth}", [m_ref], "bool", st)
        cl = [z3.Implies(conj(p.cond), p.ret == want) if p.kind == "return" and z3.is_bool(p.ret)
              else z3.BoolVal(False) for p in ends]
        ofn = e2.find1(mir, file=NAME, impl="impl Nullable for Name", name=meth)
        nm_names = Opq(z3.Const("name.names", Val), "HashSet<TrueName>")
        nm = Ref(ex.new_cell(st, Agg("Name", None, [nm_names, z3.Bool("name.is_interchangeable")])))
        ends2 = e2.run_kernel(run, ex, ofn, [nm], st)
        want2 = ex.app("Iterator::all", [ex.app("HashSet::iter", [nm_names], "Iter", st),
                                         ex.fnval(ex.canon_item(cfn))], "bool", st)
        cl += [z3.Implies(conj(p.cond), p.ret == want2) if p.kind == "return" and z3.is_bool(p.ret)
               else z3.BoolVal(False) for p in ends2]
        e2.prove(run, ob, ex, [], conj(cl), {}, fam.as_replay(f"name-{meth}:"))

    ob = run.ob("union-filter-closure", "E2", "the filter of the None-absorbing union keeps exactly the members that are not None",
                ["Name::union::{closure#0}"])
    cfn = e2.find1(mir, file=NAME, impl="impl Union<Name> for Name", name="union", closure=["{closure#0}"])
    ex = Exec(mir, inline=[r"<TrueName as Nullable>::is_null$"])
    st = State()
    m_ref, _sn, _sm, mname, _v = true_name_input(ex, st, "member")
    mm = Ref(ex.new_cell(st, m_ref))
    env = Ref(ex.new_cell(st, Agg("closure", None, [])))
    ends = e2.run_kernel(run, ex, cfn, [env, mm], st)
    isnull = ex.to_val(st, mname) == ex.strc("None")
    cl = [z3.Implies(conj(p.cond), p.ret == z3.Not(isnull)) if p.kind == "return" and z3.is_bool(p.ret)
          else z3.BoolVal(False) for p in ends]
    e2.prove(run, ob, ex, [], conj(cl), {"member.is_null": isnull}, fam.as_replay("union-filter:"))


def ob_union(run, mir, rp, fam):
    ob = run.ob("union-none-absorbing", "E2",
                "Name::union: when some member is None and there is more than one member the result is "
                "collect(map(filter(members, not-None), as_nullable)); otherwise the plain set union; "
                "is_interchangeable is the disjunction", ["Name::union"])
    fn = e2.find1(mir, file=NAME, impl="impl Union<Name> for Name", name="union")
    cfn = e2.find1(mir, file=NAME, impl="impl Union<Name> for Name", name="union", closure=["{closure#0}"])
    ex = Exec(mir)
    st = State()
    ia, ib = z3.Bool("self.is_interchangeable"), z3.Bool("other.is_interchangeable")
    na = Opq(z3.Const("self.names", Val), "HashSet<TrueName>")
    nb = Opq(z3.Const("other.names", Val), "HashSet<TrueName>")
    a = Ref(ex.new_cell(st, Agg("Name", None, [na, ia], ["names", "is_interchangeable"])))
    b = Ref(ex.new_cell(st, Agg("Name", None, [nb, ib], ["names", "is_interchangeable"])))
    ends = e2.run_kernel(run, ex, fn, [a, b], st)
    A = lambda n, args, ty="?": ex.app(n, args, ty, st)
    allnames = A("Iterator::collect", [A("Iterator::cloned", [A("HashSet::union", [na, nb])])])
    any_null = A("Iterator::any", [A("HashSet::iter", [allnames]), ex.fnval("TrueName.Nullable::is_null")], "bool")
    ln = A("HashSet::len", [allnames], "usize")
    absorbed = A("Iterator::collect", [A("Iterator::map", [
        A("Iterator::filter", [A("HashSet::iter", [allnames]), ex.fnval(ex.canon_item(cfn))]),
        ex.fnval("TrueName.Nullable::as_nullable")])])
    want_names = z3.If(z3.And(any_null, z3.UGT(ln, 1)), ex.to_val(st, absorbed), ex.to_val(st, allnames))
    cl = []
    for p in ends:
        if p.kind != "return" or not isinstance(p.ret, Agg) or len(p.ret.fields) != 2:
            raise Unsupported(f"union path {p}")
        cl.append(z3.Implies(conj(p.cond), z3.And(ex.to_val(st, p.ret.fields[0]) == want_names,
                                                  p.ret.fields[1] == z3.Or(ia, ib))))
    cl.append(disj([conj(p.cond) for p in ends]))
    e2.prove(run, ob, ex, [], conj(cl), {"self.is_interchangeable": ia, "other.is_interchangeable": ib,
                                         "any_member_is_None": any_null, "member_count": ln},
             fam.as_replay("union:", only=["union-", "None-into", "default-"]))


def ob_question_none(run, mir, rp, fam):
    """The default operator demands a nullable left operand; the None literal is constrained as undefined."""
    import ckern
    from e2 import calls, result_kind
    EXPR_RS = ckern.GEN + "expression.rs"
    ob = run.ob("default-operator", "E2", "gen_expr Question arm: exactly one constraint, parent = the left operand and child = None at the "
                "left operand's position (the left operand must admit None), in the caller's environment; both operands are then "
                "generated in that environment and their errors abort", ["gen_expr"])
    fn = e2.find1(mir, file=EXPR_RS, name="gen_expr")
    ex = Exec(mir, max_paths=5000)
    st = State()
    left, lpos = ckern.mk_ast("left", e2.opq("left.node", "Node"))
    right, _ = ckern.mk_ast("right", e2.opq("right.node", "Node"))
    lbox, rbox = Ref(ex.new_cell(st, left)), Ref(ex.new_cell(st, right))
    node = ckern.mk_node("Question", {"left": lbox, "right": rbox})
    ast, _ = ckern.mk_ast("ast", node)
    env, ctx, constr = ckern.refs(ex, st, "env", "ctx", "constr")
    ends = e2.run_kernel(run, ex, fn, [Ref(ex.new_cell(st, ast)), env, ctx, constr], st)
    claims = []
    for p in ends:
        if p.kind != "return":
            raise Unsupported(f"unexpected path end {p}")
        s = p.state
        c = conj(p.cond)
        adds = calls(p, "ConstrBuilder::add")
        gens = calls(p, "generate")
        spec = [z3.BoolVal(len(adds) == 1)]
        if len(adds) == 1:
            a = adds[0]
            frm = [ev for ev in p.events if ev["name"].endswith("From::from") and z3.eq(ev["argvals"][0], ex.to_val(s, lbox))]
            non = [ev for ev in calls(p, "Expected::none")]
            ok = z3.BoolVal(False)
            if frm and non:
                ok = z3.And(a["argvals"][2] == ex.to_val(s, frm[0]["ret"]), a["argvals"][3] == ex.to_val(s, non[0]["ret"]),
                            non[0]["argvals"][0] == ex.to_val(s, lpos), a["argvals"][4] == ex.to_val(s, env))
            spec.append(ok)
        gl = [g for g in gens if z3.eq(g["argvals"][0], ex.to_val(s, lbox))]
        gr = [g for g in gens if z3.eq(g["argvals"][0], ex.to_val(s, rbox))]
        spec.append(z3.BoolVal(bool(gl)))
        kind = result_kind(p)
        for g in gl + gr:
            spec.append(g["argvals"][1] == ex.to_val(s, env))
            spec.append(z3.Implies(ex.discr(s, g["ret"], "Result") == 1, z3.BoolVal(kind == "Err")))
        if kind == "Ok":
            spec.append(z3.BoolVal(bool(gl) and bool(gr)))
        claims.append(z3.Implies(c, conj(spec)))
    e2.prove(run, ob, ex, [], conj(claims), {}, fam.as_replay("default-operator:", only=["default-", "nullable-operand"]))

    ob2 = run.ob("none-literal", "E2", "match_id on the identifier None: the literal is constrained as undefined (type None) in the caller's "
                 "environment and nothing else is added", ["match_id"])
    fn = e2.find1(mir, file=EXPR_RS, name="match_id")
    ex = Exec(mir, max_paths=5000)
    st = State()
    node = ckern.mk_node("Id", {"lit": StrC("None")})
    ast, _ = ckern.mk_ast("ast", node)
    aref = Ref(ex.new_cell(st, ast))
    envr, _vals = ckern.sym_env(ex, st)
    ctx, constr = ckern.refs(ex, st, "ctx", "constr")
    ty = Ref(ex.new_cell(st, e2.opq("ty", "Option<Box<AST>>")))
    ends = e2.run_kernel(run, ex, fn, [aref, ty, z3.Bool("mutable"), envr, ctx, constr], st)
    claims = []
    for p in ends:
        if p.kind != "return":
            raise Unsupported(f"unexpected path end {p}")
        s = p.state
        und = calls(p, "Constraint::undefined")
        addc = calls(p, "ConstrBuilder::add_constr")
        other = calls(p, "ConstrBuilder::add") + calls(p, "id_from_var") + calls(p, "gen_primitive")
        ok = z3.BoolVal(False)
        if len(und) == 1 and len(addc) == 1 and not other and result_kind(p) == "Ok":
            frm = [ev for ev in p.events if ev["name"].endswith("From::from") and z3.eq(ev["argvals"][0], ex.to_val(s, aref))]
            if frm:
                ok = z3.And(und[0]["argvals"][1] == ex.to_val(s, frm[0]["ret"]), addc[0]["argvals"][1] == ex.to_val(s, und[0]["ret"]),
                            addc[0]["argvals"][2] == ex.to_val(s, envr))
        claims.append(z3.Implies(conj(p.cond), ok))
    e2.prove(run, ob2, ex, [], conj(claims), {}, fam.as_replay("none-literal:", only=["None-"]))


def receiver_family(rp):
    cls = "class A\n    def x: Int := 1\n    def m(self) -> Int => 1\n"
    f = e2.Family(rp)
    f.add("field-of-nullable-variable", cls + "def a: A? := None\ndef y: Int := a.x", "reject")
    f.add("field-of-nullable-parameter", cls + "def f(a: A?) -> Int => a.x", "reject")
    f.add("field-of-nullable-assigned", cls + "def a: A? := A()\na.x := 2", "reject")
    f.add("method-of-nullable-variable", cls + "def a: A? := None\ndef y: Int := a.m()", "reject")
    f.add("field-of-plain-variable", cls + "def a: A := A()\ndef y: Int := a.x", "accept")
    f.add("field-of-plain-parameter", cls + "def f(a: A) -> Int => a.x", "accept")
    f.add("field-of-defaulted-nullable", cls + "def a: A? := None\ndef b: A := a ? A()\ndef y: Int := b.x", "accept")
    two = "class A\n    def v: Int := 1\nclass B\n    def v: Int := 2\n"
    f.add("field-of-partly-nullable-union", two + "def pick(first: Bool) -> {A?, B} => if first then None else B()\ndef a: {A?, B} := pick(True)\ndef c: Int := a.v", "reject")
    f.add("field-of-plain-union", two + "def pick(first: Bool) -> {A, B} => if first then A() else B()\ndef a: {A, B} := pick(True)\ndef c: Int := a.v", "accept")
    f.add("nullable-field-of-plain-variable", "class B\n    def w: Int? := None\ndef b := B()\ndef y: Int? := b.w", "accept")
    return f


def ob_field_receiver(run, mir, rp, fam):
    ob = run.ob("field-receiver-non-null", "E2", "field_access (where the unifier resolves `receiver.field`), one iteration of the loop over the receiver's "
                "classes: a constraint for the field is only queued when that member of the receiver's type is not nullable - `a.x` with a: A? is an "
                "error (method calls are already refused through their `self` argument)", ["field_access (loop body)"])
    fn = e2.find1(mir, file="src/check/constrain/unify/function.rs", name="field_access")
    ex = Exec(mir, max_paths=20000)
    st = State()
    args = []
    for an, aty in fn.args:
        t = aty.strip()
        if t == "usize":
            v = z3.BitVec("total", 64)
        elif t.startswith("&") and not t.startswith("&[") and t != "&str":
            v = Ref(ex.new_cell(st, e2.opq(f"a{an}", t.lstrip("&").replace("mut ", "").strip())))
        else:
            v = e2.opq(f"a{an}", t)
        args.append(v)
    ends = e2.run_kernel(run, ex, fn, args, st)
    tn = e2.rust_struct("src/check/name/true_name/mod.rs", "TrueName")
    claims, n = [], 0
    for p in ends:
        pushes = e2.calls(p, "Constraints::push")
        nx = e2.calls(p, "Iterator::next")
        if not pushes or not nx:
            continue
        n += 1
        s = p.state
        member = ex.project(s, ex.project(s, nx[-1]["ret"], ("v", "Some")), ("f", 0), "&TrueName")
        nullable = ex.project(s, member, ("f", tn.index("is_nullable")), "bool")
        if not z3.is_bool(nullable):
            raise Unsupported("TrueName::is_nullable is not a boolean term")
        claims.append(z3.Implies(conj(p.cond), z3.Not(nullable)))
    if not n:
        raise Unsupported("no path queues a field constraint")
    rf = receiver_family(rp)
    e2.prove(run, ob, ex, [], conj(claims), {}, rf.as_replay("field-receiver:"))
    if ob.status == "discharged":
        k, bad = rf.run()
        run.validated += k
        if bad:
            ob.status = "pending"
            ob.inconclusive(f"receiver family disagrees although the kernel is as specified: {bad[:2]}")
    run.samples.append({"obligation": ob.id, "queueing_paths": n})


RES_RS = "src/check/constrain/generate/resources.rs"


def with_family(rp):
    cls = ("class Conn\n    def sent: Int := 0\n    def __enter__(self) -> Conn => self\n    def __exit__(self, kind: Any, value: Any, trace: Any) => print(\"closed\")\n"
           "    def send(self, n: Int) -> Int => self.sent + n\n")
    f = e2.Family(rp)
    f.add("nullable-resource-into-typed-alias", cls + "def conn: Conn? := None\nwith conn as c: Conn do\n    print(c.send(3))", "reject")
    f.add("nullable-resource-into-typed-alias-primitive", "def x: Int? := None\nwith x as y: Int do\n    def z: Int := y\n    print(z)", "reject")
    f.add("nullable-resource-into-untyped-alias", "def x: Int? := None\nwith x as y do\n    def z: Int := y\n    print(z)", "reject")
    f.add("nullable-call-resource-into-typed-alias", "def f() -> Int? => None\nwith f() as y: Int do\n    def z: Int := y\n    print(z)", "reject")
    f.add("nullable-call-resource-into-untyped-alias", "def f() -> Int? => None\nwith f() as y do\n    def z: Int := y\n    print(z)", "reject")
    f.add("wrong-call-resource-into-typed-alias", "def f() -> Str => \"a\"\nwith f() as y: Int do\n    def z: Int := y\n    print(z)", "reject")
    f.add("call-resource-into-typed-alias", cls + "def open() -> Conn => Conn()\nwith open() as c: Conn do\n    print(c.send(3))", "accept")
    f.add("call-resource-into-untyped-alias", cls + "def open() -> Conn => Conn()\nwith open() as c do\n    print(c.send(3))", "accept")
    f.add("constructor-resource-into-untyped-alias", cls + "with Conn() as c do\n    print(c.send(3))", "accept")
    f.add("plain-resource-into-typed-alias", cls + "def conn: Conn := Conn()\nwith conn as c: Conn do\n    print(c.send(3))", "accept")
    f.add("plain-resource-into-untyped-alias", "def x: Int := 1\nwith x as y do\n    def z: Int := y\n    print(z)", "accept")
    return f


def ob_with_alias(run, mir, rp, fam):
    ob = run.ob("with-alias-takes-resource-type", "E2", "gen_resources, the arm with an alias: on every successful path - alias annotated or not - a constraint "
                "ties the resource expression to the alias (so the alias is what the resource is, nullable included), added in the incoming environment; "
                "an annotation adds a constraint against the declared type and never replaces that link; no constraint equates the resource with Any "
                "(which would make the unifier forget what the resource is)", ["gen_resources (With, alias)"])
    import ckern
    fn = e2.find1(mir, file=RES_RS, name="gen_resources")
    ex = Exec(mir, max_paths=20000, inline=[ckern.ENV_SETTERS])
    st = State()
    _rel, lay = ckern.node_enum()
    mk = lambda n: ckern.mk_ast(n, e2.opq(n + ".node", "Node"))[0]
    resource, alias, tyast, body = mk("resource"), mk("alias"), mk("ty"), mk("body")
    ty, ty_some = e2.sym_option("ty", tyast, "Option<Box<AST>>")
    vals = {"resource": resource, "alias": Agg("Option", "Some", [Agg("tuple", None, [alias, z3.Bool("alias.mutable"), ty])]), "expr": body}
    if sorted(vals) != sorted(lay["With"]):
        raise Unsupported(f"Node::With fields changed: {lay['With']}")
    ast, _ = ckern.mk_ast("ast", ckern.mk_node("With", {k: vals[k] for k in lay["With"]}))
    env, ev = ckern.sym_env(ex, st)
    ctx, constr = ckern.refs(ex, st, "ctx", "constr")
    ends = e2.run_kernel(run, ex, fn, [Ref(ex.new_cell(st, ast)), env, ctx, constr], st)
    claims, n_ok = [], 0
    for p in ends:
        if e2.result_kind(p) != "Ok":
            continue
        n_ok += 1
        s = p.state
        adds = e2.calls(p, "ConstrBuilder::add")
        res_e = ex.to_val(s, ex.app("Expected.From::from", [resource], "Expected", s))
        ali_e = ex.to_val(s, ex.app("Expected.From::from", [alias], "Expected", s))
        link = e2.disj([z3.And(a["argvals"][2] == res_e, a["argvals"][3] == ali_e, a["argvals"][4] == ex.to_val(s, env)) for a in adds])
        # ... and nothing equates the resource with Any: the unifier replaces an expression that is constrained by a type with that type
        # (unify_type lets Any pass on either side), so `resource >= Any` would make every later comparison of the resource vacuous
        anys = [ex.to_val(s, a_["ret"]) for a_ in p.events if a_["name"].endswith("Expected::any")]
        widened = e2.disj([z3.And(a["argvals"][2] == res_e, a["argvals"][3] == w) for a in adds for w in anys])
        claims.append(z3.Implies(e2.conj(p.cond), z3.And(link, z3.Not(widened))))
    if n_ok < 2:
        raise Unsupported(f"{n_ok} Ok paths in the alias arm")
    wf = with_family(rp)
    e2.prove(run, ob, ex, [], e2.conj(claims), {"alias is annotated": ty_some}, wf.as_replay("with-alias:"))
    if ob.status == "discharged":
        k, bad = wf.run()
        run.validated += k
        if bad:
            ob.status = "pending"
            ob.inconclusive(f"with family disagrees although the kernel is as specified: {bad[:2]}")
    run.samples.append({"obligation": ob.id, "ok_paths": n_ok})


def ob_substitute_nullable(run, mir, rp, fam):
    ob = run.ob("substitution-keeps-nullability", "E2", "TrueName::substitute (how an inferred type replaces a placeholder, also inside generic arguments): the nullable flag of the "
                "result is the receiver's flag OR-ed with something that depends on what the placeholder is replaced by - the variant alone (a StringName) cannot say "
                "that the replacement may be None, so `List[@1]` with @1 := Int? must become List[Int?], not List[Int]", ["<TrueName as Substitute>::substitute"])
    TN = "src/check/name/true_name/mod.rs"
    fn = e2.find1(mir, file=TN, impl="impl Substitute for TrueName", name="substitute")
    ex = Exec(mir, max_paths=2000)
    st = State()
    tnf = e2.rust_struct(TN, "TrueName")
    flag = z3.Bool("self.is_nullable")
    me = e2.mk_struct(TN, "TrueName", {f: (flag if f == "is_nullable" else z3.Bool("self." + f) if f.startswith("is_") else e2.opq("self." + f, "StringName")) for f in tnf})
    gen = e2.opq("generics", "HashMap<Name, Name>")
    ends = e2.run_kernel(run, ex, fn, [Ref(ex.new_cell(st, me)), Ref(ex.new_cell(st, gen)), e2.opq("pos", "Position")], st)
    gid = ex.to_val(st, gen).get_id()

    def ids(t):
        seen, stack = set(), [t]
        while stack:
            x = stack.pop()
            if x.get_id() in seen:
                continue
            seen.add(x.get_id())
            stack.extend(x.children())
        return seen
    claims, n = [], 0
    for p in ends:
        if not (p.kind == "return" and isinstance(p.ret, Agg) and p.ret.variant == "Ok"):
            continue
        r = p.ret.fields[0]
        if not (isinstance(r, Agg) and r.names and "is_nullable" in r.names):
            claims.append(z3.Not(conj(p.cond)))
            continue
        n += 1
        out = r.fields[list(r.names).index("is_nullable")]
        depends = z3.is_bool(out) and (gid in ids(out) or e2.solve(ex, list(p.cond) + [z3.Not(flag)])[0] == z3.unsat)
        claims.append(z3.Implies(conj(p.cond), z3.And(z3.BoolVal(bool(depends)), z3.Implies(flag, out) if z3.is_bool(out) else z3.BoolVal(False))))
    if not n:
        raise Unsupported("no Ok path")
    f = e2.Family(rp)
    f.add("inferred-list-element-into-int", "def y: Int? := None\ndef l := [1, y]\ndef z: Int := l[0]", "reject")
    f.add("inferred-list-of-nullable-into-list", "def y: Int? := None\ndef l := [y]\ndef m: List[Int] := l", "reject")
    f.add("inferred-list-element-into-nullable", "def y: Int? := None\ndef l := [1, y]\ndef z: Int? := l[0]", "accept")
    f.add("inferred-list-of-int-element-into-int", "def y: Int := 2\ndef l := [1, y]\ndef z: Int := l[0]", "accept")
    e2.prove(run, ob, ex, [], conj(claims), {}, f.as_replay("substitution-nullability:"))
    if ob.status == "discharged":
        k_, bad = f.run()
        run.validated += k_
        if bad:
            ob.status = "pending"
            ob.inconclusive(f"family disagrees although the kernel is as specified: {bad[:2]}")


def run(run):
    mir = e2.load_mir(run)
    rp = common.Replay()
    fam = family(rp)
    run.assume("Clone::clone is the identity on values; Deref/AsRef/Box::from are transparent",
               "callees that are not inlined are uninterpreted functions of their arguments "
               "(StringName::is_superset_of, StringName::is_empty, HashSet/iterator adaptors)",
               "string equality is equality of values; distinct literals are distinct",
               "unwind edges are not followed")
    run.trusted += ["rustc nightly MIR dump (-Zunpretty=mir)", "z3 4.x (python API 5.1)", "mirsym MIR semantics"]
    run.bounds = {"paths": "all acyclic paths of each kernel", "inline_depth": 4,
                  "outside": "that every consuming position reaches this comparison; HashSet internals; "
                             "constructor field-assignment analysis"}
    for f in (ob_true_name_rule, ob_accessors, ob_union, ob_question_none, ob_field_receiver, ob_with_alias, ob_substitute_nullable):
        try:
            f(run, mir, rp, fam)
        except Unsupported as e:
            o = run.ob(f.__name__ + "-encoding", "E2", "kernel is encodable")
            o.inconclusive(f"unsupported construct: {e}")
    try:
        # arguments are a consuming position too: the parent of the argument constraint keeps the nullable flag
        from props import C05
        C05.ob_call_parameters(run, mir, rp, fam)
    except Unsupported as e:
        run.ob("call-parameters-encoding", "E2", "kernel is encodable").inconclusive(f"unsupported construct: {e}")
    try:
        # ... also when the callee is a function-typed value
        C05.ob_fn_value_arguments(run, mir, rp, fam)
    except Unsupported as e:
        run.ob("function-value-arguments-encoding", "E2", "kernel is encodable").inconclusive(f"unsupported construct: {e}")
    if all(o.status == "discharged" for o in run.obs):
        e2.validate_family(run, fam, "null-safety")
    rp.close()
