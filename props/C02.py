"""C02 — emitted files are valid Python: the printer's statement layout, the converter's empty-body kernels and the literal lexemes (E2 + z3)."""
import ast
import itertools
import re
import z3

import common
import e2
import printkern
from e2 import conj, disj
from mirsym import Exec, State, Opq, Agg, Ref, StrC, Seq, Val, Unsupported

LEVEL = "model_checking"
EXPLANATION = ("Every arm of the printer (generate::ast::to_py) and its layout helpers is executed symbolically from MIR with a text model: "
               "format! is decoded from the compiler's own template constant, the indentation level is a symbolic integer. z3 proves that "
               "every indentation piece is exactly 4*(ind+k) spaces for a constant k, for every level up to 2^20; the extracted templates "
               "(one per MIR path, with the path's conditions) are then composed on every statement tree up to a nesting bound and the text "
               "is judged by Python's own parser: it must parse, and to the Python AST the Core statement means. Each composed text is also "
               "compared byte for byte with the real printer. The converter's kernels that fill empty bodies and the lexer's number "
               "lexemes are checked separately.")

STMT_KINDS = ["If", "IfElse", "While", "For", "With", "WithAs", "TryExcept", "Match", "FunDef", "ClassDef"]
ALL_KINDS = ["Id", "Int", "Str", "Pass", "Break", "Continue", "None", "UnderScore", "Block", "Raise", "Return", "Case", "ExceptId", "Except",
             "VarDef", "FunArg", "Import", "Assign", "DocStr"] + STMT_KINDS


def I(name):
    return {"k": "Id", "lit": name}


# ------------------------------------------------------------------------------------------------ trees

def simple_statements():
    return [I("s"), {"k": "Pass"}, {"k": "Return", "expr": I("r")}, {"k": "Raise", "error": I("E")},
            {"k": "Assign", "op": "=", "left": I("x"), "right": I("v")}, {"k": "Assign", "op": "+=", "left": I("x"), "right": I("v")},
            {"k": "VarDef", "var": I("x"), "ty": None, "expr": I("v")}, {"k": "VarDef", "var": I("x"), "ty": I("T"), "expr": None},
            {"k": "VarDef", "var": I("x"), "ty": I("T"), "expr": I("v")}, {"k": "VarDef", "var": I("x"), "ty": None, "expr": None}]


def bodies(depth, wide):
    """Alternatives for a body slot."""
    out = [I("s"), {"k": "Block", "statements": [I("s1"), {"k": "Pass"}]}]
    if depth > 0:
        for c in compounds(depth - 1, False):
            out.append(c)
            out.append({"k": "Block", "statements": [c, I("after")]})
    if wide:
        out += [{"k": "Block", "statements": [s]} for s in simple_statements()[2:6]]
    return out


def compounds(depth, wide):
    B = bodies(depth, wide)
    B1 = B if wide else B[:2] + B[2:4]
    out = []
    for b in B1:
        out.append({"k": "If", "cond": I("c"), "then": b})
        out.append({"k": "While", "cond": I("c"), "body": b})
        out.append({"k": "For", "expr": I("i"), "col": I("xs"), "body": b})
        out.append({"k": "With", "resource": I("res"), "expr": b})
        out.append({"k": "WithAs", "resource": I("res"), "alias": I("h"), "expr": b})
        out.append({"k": "Match", "expr": I("m"), "cases": [{"k": "Case", "expr": {"k": "Int", "int": "1"}, "body": b},
                                                            {"k": "Case", "expr": {"k": "UnderScore"}, "body": I("d")}]})
        for setup in (None, {"k": "VarDef", "var": I("x"), "ty": None, "expr": None}):
            out.append({"k": "TryExcept", "setup": setup, "attempt": b,
                        "except": [{"k": "ExceptId", "id": I("e"), "class": I("E1"), "body": b}, {"k": "Except", "class": I("E2"), "body": I("h")}]})
        for args in ([], [{"k": "FunArg", "vararg": False, "var": I("a"), "ty": None, "default": None}],
                     [{"k": "FunArg", "vararg": False, "var": I("a"), "ty": I("T"), "default": None},
                      {"k": "FunArg", "vararg": False, "var": I("b"), "ty": None, "default": {"k": "Int", "int": "3"}},
                      {"k": "FunArg", "vararg": True, "var": I("rest"), "ty": None, "default": None}]):
            for ty in (None, I("R")):
                out.append({"k": "FunDef", "id": "f", "dec": [], "arg": args, "ty": ty, "body": b})
        for parents in ([], [I("P")], [I("P"), I("Q")]):
            out.append({"k": "ClassDef", "name": I("K"), "parent_names": parents, "body": b})
    for b1, b2 in itertools.product(B1, B1[:3]):
        out.append({"k": "IfElse", "cond": I("c"), "then": b1, "el": b2})
    return out


def programs(tier):
    depth = 1 if tier == "quick" else 2
    out = []
    for c in compounds(depth, True):
        out.append({"k": "Block", "statements": [c]})
        out.append({"k": "Block", "statements": [I("before"), c, I("after")]})
    # decorated method inside a class (the only place a decorator is generated)
    for b in bodies(0, False):
        m = {"k": "FunDef", "id": "m", "dec": ["abstractmethod"], "arg": [{"k": "FunArg", "vararg": False, "var": I("self"), "ty": None, "default": None}],
             "ty": None, "body": {"k": "Pass"}}
        out.append({"k": "Block", "statements": [{"k": "ClassDef", "name": I("K"), "parent_names": [], "body": {"k": "Block", "statements": [m, {"k": "FunDef", "id": "g", "dec": [], "arg": [], "ty": None, "body": b}]}}]})
    for s in simple_statements():
        out.append({"k": "Block", "statements": [s]})
    for frm, imp, al in ((None, [I("math")], []), (I("typing"), [I("Optional"), I("Union")], []), (None, [I("numpy")], [I("np")]), (I("abc"), [I("ABC")], [I("Base")])):
        out.append({"k": "Block", "statements": [{"k": "Import", "from": frm, "import": imp, "alias": al}]})
    return out


# ------------------------------------------------------------------------------------------------ documented meaning (Python AST)

def E(t):
    k = t["k"]
    if k == "Id":
        return ast.Name(id=t["lit"])
    if k == "Int":
        return ast.Constant(value=int(t["int"]))
    if k == "None":
        return ast.Constant(value=None)
    if k == "UnderScore":
        return ast.Name(id="_")
    raise Unsupported(f"expression {k}")


def SS(t):
    return [S(x) for x in t["statements"]] if t["k"] == "Block" else [S(t)]


def flat(xs):
    out = []
    for x in xs:
        out += x if isinstance(x, list) else [x]
    return out


def S(t):
    k = t["k"]
    if k in ("Id", "Int", "None"):
        return ast.Expr(value=E(t))
    if k == "Pass":
        return ast.Pass()
    if k == "Break":
        return ast.Break()
    if k == "Continue":
        return ast.Continue()
    if k == "Return":
        return ast.Return(value=E(t["expr"]))
    if k == "Raise":
        return ast.Raise(exc=E(t["error"]), cause=None)
    if k == "If":
        return ast.If(test=E(t["cond"]), body=flat(SS(t["then"])), orelse=[])
    if k == "IfElse":
        return ast.If(test=E(t["cond"]), body=flat(SS(t["then"])), orelse=flat(SS(t["el"])))
    if k == "While":
        return ast.While(test=E(t["cond"]), body=flat(SS(t["body"])), orelse=[])
    if k == "For":
        return ast.For(target=E(t["expr"]), iter=E(t["col"]), body=flat(SS(t["body"])), orelse=[], type_comment=None)
    if k == "With":
        return ast.With(items=[ast.withitem(context_expr=E(t["resource"]), optional_vars=None)], body=flat(SS(t["expr"])), type_comment=None)
    if k == "WithAs":
        return ast.With(items=[ast.withitem(context_expr=E(t["resource"]), optional_vars=E(t["alias"]))], body=flat(SS(t["expr"])), type_comment=None)
    if k == "Match":
        cases = []
        for c in t["cases"]:
            p = c["expr"]
            pat = ast.MatchAs(pattern=None, name=None) if p["k"] == "UnderScore" else ast.MatchValue(value=E(p))
            cases.append(ast.match_case(pattern=pat, guard=None, body=flat(SS(c["body"]))))
        return ast.Match(subject=E(t["expr"]), cases=cases)
    if k == "TryExcept":
        hs = []
        for h in t["except"]:
            hs.append(ast.ExceptHandler(type=E(h["class"]), name=h["id"]["lit"] if h["k"] == "ExceptId" else None, body=flat(SS(h["body"]))))
        tr = ast.Try(body=flat(SS(t["attempt"])), handlers=hs, orelse=[], finalbody=[])
        return [S(t["setup"]), tr] if t["setup"] is not None else tr
    if k == "VarDef":
        val = E(t["expr"]) if t["expr"] is not None else ast.Constant(value=None)
        if t["ty"] is not None:
            return ast.AnnAssign(target=E(t["var"]), annotation=E(t["ty"]), value=val, simple=1)
        return ast.Assign(targets=[E(t["var"])], value=val, type_comment=None)
    if k == "Assign":
        if t["op"] == "=":
            return ast.Assign(targets=[E(t["left"])], value=E(t["right"]), type_comment=None)
        op = {"+=": ast.Add, "-=": ast.Sub, "*=": ast.Mult, "/=": ast.Div, "**=": ast.Pow, "<<=": ast.LShift, ">>=": ast.RShift}[t["op"]]()
        return ast.AugAssign(target=E(t["left"]), op=op, value=E(t["right"]))
    if k == "FunDef":
        pos, defaults, vararg = [], [], None
        for a in t["arg"]:
            arg = ast.arg(arg=a["var"]["lit"], annotation=E(a["ty"]) if a["ty"] is not None else None, type_comment=None)
            if a["vararg"]:
                vararg = arg
            else:
                pos.append(arg)
                if a["default"] is not None:
                    defaults.append(E(a["default"]))
        args = ast.arguments(posonlyargs=[], args=pos, vararg=vararg, kwonlyargs=[], kw_defaults=[], kwarg=None, defaults=defaults)
        return ast.FunctionDef(name=t["id"], args=args, body=flat(SS(t["body"])), decorator_list=[ast.Name(id=d) for d in t["dec"]],
                               returns=E(t["ty"]) if t["ty"] is not None else None, type_comment=None, type_params=[])
    if k == "ClassDef":
        return ast.ClassDef(name=t["name"]["lit"], bases=[E(p) for p in t["parent_names"]], keywords=[], body=flat(SS(t["body"])), decorator_list=[], type_params=[])
    if k == "Import":
        names = [ast.alias(name=i["lit"], asname=None) for i in t["import"]]
        if t["alias"]:
            if len(t["import"]) != 1 or len(t["alias"]) != 1:
                raise Unsupported("import with several aliases")
            names = [ast.alias(name=t["import"][0]["lit"], asname=t["alias"][0]["lit"])]
        if t["from"] is not None:
            return ast.ImportFrom(module=t["from"]["lit"], names=names, level=0)
        return ast.Import(names=names)
    raise Unsupported(f"statement {k}")


def norm_dump(node):
    d = ast.dump(node)
    d = re.sub(r",? ?ctx=(Load|Store|Del)\(\)", "", d)
    d = re.sub(r",? ?type_params=\[\]", "", d)
    d = re.sub(r",? ?type_comment=None", "", d)
    d = re.sub(r",? ?kind=None", "", d)
    return d.replace("(, ", "(")


def judge(text, tree):
    """None if the text is valid Python that means what the tree says, else a reason."""
    try:
        got = ast.parse(text)
    except SyntaxError as e:
        return f"SyntaxError: {e.msg} (line {e.lineno})"
    want = ast.Module(body=flat([S(x) for x in tree["statements"]]), type_ignores=[])
    g, w = norm_dump(got), norm_dump(want)
    if g != w:
        return f"parses to a different program: {g[:160]} instead of {w[:160]}"
    return None


# ------------------------------------------------------------------------------------------------ check

def ob_literals(run, mir, rp):
    """Integer lexemes are digit strings (lexer); what reaches the output must be a valid Python integer literal of the same value."""
    ob = run.ob("integer-literals-valid-python", "E2+z3(strings)", "the text emitted for an integer literal (and for mantissa / exponent of an "
                "E-notation literal) is a valid Python decimal integer - no leading zero unless it is 0 - denoting the same number as the "
                "Mamba lexeme, for every digit string up to 8 digits", ["convert_node (Int / ENum arms)", "decimal_integer", "into_tokens (number arm: digits only)"])
    try:
        import convkern
        CONV = "src/generate/convert/mod.rs"
        # what the converter puts into Core::Int for the lexeme `lit`
        arm = convkern.Arm(run, mir, "convert_node", CONV, "Int")
        oks = [p for p in arm.ends if p.kind == "return" and isinstance(p.ret, Agg) and p.ret.variant == "Ok"]
        shapes = set()
        for p in oks:
            core = p.ret.fields[0]
            post = [ev for ev in p.events if ev["name"].split("::")[-1] in ("append_assign", "append_ret")]
            if post:
                a0 = post[0]["args"][0]
                core = arm.ex.read_ref(p.state, a0) if isinstance(a0, Ref) else a0
            if not (isinstance(core, Agg) and core.variant == "Int"):
                shapes.add("?")
                continue
            v = z3.simplify(arm.ex.to_val(p.state, core.fields[0]))
            lit = arm.ex.to_val(p.state, arm.kids["lit"])
            if z3.eq(v, z3.simplify(lit)):
                shapes.add("lexeme")
            elif z3.is_app(v) and re.search(r"decimal_integer/1$", v.decl().name()) and z3.eq(v.children()[0], z3.simplify(lit)):
                shapes.add("decimal_integer")
            else:
                shapes.add("?" + str(v)[:60])
        if len(shapes) != 1 or list(shapes)[0].startswith("?"):
            raise Unsupported(f"Int arm emits {shapes}")
        how = shapes.pop()
        # the normaliser itself: trim_start_matches('0'), and "0" when nothing is left
        s_in = z3.String("lexeme")
        digits = z3.Plus(z3.Range("0", "9"))
        py_int = z3.Union(z3.Plus(z3.Re("0")), z3.Concat(z3.Range("1", "9"), z3.Star(z3.Range("0", "9"))))
        hyp = [z3.InRe(s_in, digits), z3.Length(s_in) <= 8]
        if how == "lexeme":
            out = s_in
        else:
            fn = e2.find1(mir, file=CONV, name="decimal_integer")
            exn = Exec(mir, max_paths=200)
            stn = State()
            ends = e2.run_kernel(run, exn, fn, [Opq(z3.Const("lit", Val), "&str")], stn)
            rets = [p for p in ends if p.kind == "return"]
            desc = []
            for p in rets:
                tr = [ev for ev in p.events if ev["name"].split("::")[-1] == "trim_start_matches"]
                emp = [ev for ev in p.events if ev["name"].split("::")[-1] == "is_empty"]
                if len(tr) != 1 or not emp:
                    raise Unsupported("decimal_integer: unexpected shape")
                ch = tr[0]["args"][1]
                is_zero = (z3.is_bv_value(ch) and ch.as_long() == 48) or str(ch) in ("48", "'0'")
                if not is_zero:
                    raise Unsupported(f"decimal_integer trims {ch}")
                r = p.ret
                rv = exn.to_val(p.state, r)
                cond_empty = any(z3.eq(z3.simplify(c), z3.simplify(exn.to_val(p.state, emp[0]["ret"]) if not z3.is_bool(emp[0]["ret"]) else emp[0]["ret"])) for c in p.cond)
                desc.append(("0" if isinstance(r, StrC) and r.s == "0" else "trimmed" if z3.eq(z3.simplify(rv), z3.simplify(exn.to_val(p.state, tr[0]["ret"]))) else "?", cond_empty))
            if sorted(d[0] for d in desc) != ["0", "trimmed"]:
                raise Unsupported(f"decimal_integer returns {desc}")
            # contract of str::trim_start_matches('0'): the longest suffix that does not start with '0'
            zeros, t = z3.String("zeros"), z3.String("trimmed")
            hyp += [s_in == z3.Concat(zeros, t), z3.InRe(zeros, z3.Star(z3.Re("0"))), z3.Not(z3.PrefixOf(z3.StringVal("0"), t))]
            out = z3.If(z3.Length(t) == 0, z3.StringVal("0"), t)
        # same value: the output is the lexeme itself or the lexeme minus a prefix of zeros (or "0" for an all-zero lexeme) - by
        # positional notation that is the same number; z3 decides the shape, not the arithmetic (str.to_int makes the query diverge)
        same_value = z3.Or(out == s_in, z3.And(z3.SuffixOf(out, s_in), z3.InRe(z3.SubString(s_in, 0, z3.Length(s_in) - z3.Length(out)), z3.Star(z3.Re("0")))),
                           z3.And(out == z3.StringVal("0"), z3.InRe(s_in, z3.Plus(z3.Re("0")))))
        claim = z3.And(z3.InRe(out, py_int), same_value)
        sol = z3.Solver()
        sol.set("timeout", 60000)
        sol.add(*hyp)
        r0 = sol.check()
        sol.add(z3.Not(claim))
        import time
        t0 = time.time()
        r = sol.check()
        ob.solver_s += time.time() - t0
        ob.queries += 2
        ob.reach = str(r0)
        run.samples.append({"obligation": ob.id, "int_arm_emits": how})
        if r == z3.unsat and r0 == z3.sat:
            ob.discharged(f"unsat: the emitted text ({how}) is a valid Python integer of the same value for every digit string <= 8 digits")
        elif r == z3.sat:
            lex = sol.model().eval(s_in, model_completion=True).as_string()
            bad = []
            for src in (f"def x := {lex}\nprint(x)", f"def x := 1E{lex}\nprint(x)", "def x := 007\nprint(x)", "def x := 1E05\nprint(x)"):
                st, outp = rp.transpile(src)
                if st != "OK":
                    continue
                try:
                    ast.parse(outp)
                except SyntaxError as e:
                    bad.append((src, outp, e.msg))
            if bad:
                ob.violated(f"integer-literal:leading-zero", {"lexeme": lex}, {"src": bad[0][0], "output": bad[0][1]},
                            f"{bad[0][0]!r} is emitted as {bad[0][1].strip()!r}: SyntaxError: {bad[0][2]}")
            else:
                ob.inconclusive(f"solver: lexeme {lex!r} is emitted as an invalid Python integer, but the transpiled programs parse")
        else:
            ob.inconclusive(f"solver answered {r} ({sol.reason_unknown()})")
    except Unsupported as e:
        ob.inconclusive(str(e))


def ob_printer(run, mir, rp):
    ob1 = run.ob("printer-indentation-affine", "E2+z3", "every arm of to_py, newline_if_body and the line closure of newline_delimited: each run of "
                 "spaces the printer emits is exactly 4*(ind+k) spaces for a constant k in {-1,0,1,2}, for every indentation level ind <= 2^20, "
                 "and every other piece is a literal, a string field or the rendering of a named child at level ind+k", ["to_py (every arm)", "newline_if_body", "newline_delimited::{closure}", "indent"])
    ob2 = run.ob("printer-statements-valid-python", "E2+python-ast", "the templates of every MIR path, composed on every statement tree up to the nesting "
                 "bound, give text that Python parses, and parses to the AST the Core tree means (block structure, clause order, which child "
                 "is condition / target / body / handler)", ["to_py (every arm)"])
    try:
        pm = printkern.PrinterModel(run, mir, ALL_KINDS)
        if pm.unknown:
            ob1.inconclusive(f"arms with pieces or conditions outside the text model: {pm.unknown}")
        else:
            ob1.discharged(f"{pm.paths} MIR paths over {len(ALL_KINDS)} node kinds: all pieces classified, indentation offsets proved for all levels", 0, pm.paths)
            ob1.reach = "sat"
        trees = programs(run.tier)
        bad, mism, n = [], [], 0
        for t in trees:
            try:
                text = pm.render(t, 0)
            except Unsupported as e:
                mism.append((t, f"model: {e}"))
                continue
            n += 1
            why = judge(text, t)
            if why:
                bad.append((t, text, why))
        run.paths += n
        # translator validation: the model's text is the real printer's text
        val_n = 0
        sample = trees if run.tier != "quick" else trees[::3] + [b[0] for b in bad[:20]]
        for t in sample:
            st, real = rp.req("core", common.hexs(printkern.to_sexpr(t)))
            val_n += 1
            try:
                mine = pm.render(t, 0)
            except Unsupported:
                continue
            if st != "OK" or real.rstrip("\n") != mine.rstrip("\n"):
                mism.append((t, f"real printer {st}: {real[:120]!r} vs model {mine[:120]!r}"))
        run.validated += val_n
        run.samples.append({"obligation": ob2.id, "trees": n, "paths": pm.paths, "compared_with_real_printer": val_n,
                            "example": pm.render(trees[0], 0)[:200] if trees else ""})
        if mism:
            ob2.inconclusive(f"the printer model disagrees with the real printer on {len(mism)} trees: {mism[0][1][:300]}")
        elif not bad:
            ob2.discharged(f"{n} statement trees: all parse to the Python AST they mean", 0, n)
            ob2.reach = "sat"
        else:
            # replay: the real printer on the same tree
            t, text, why = bad[0]
            st, real = rp.req("core", common.hexs(printkern.to_sexpr(t)))
            rwhy = judge(real + "\n", t) if st == "OK" else f"{st} {real[:100]}"
            if rwhy:
                kinds = sorted({x for x in re.findall(r"'k': '(\w+)'", str(t)) if x in STMT_KINDS})
                ob2.violated(f"printer:{'+'.join(kinds)[:60]}", {"tree": printkern.to_sexpr(t), "failing_trees": len(bad)},
                             {"sexpr": printkern.to_sexpr(t), "real_output": real}, f"Core tree {printkern.to_sexpr(t)[:200]} is printed as {real[:200]!r}: {rwhy}")
            else:
                ob2.inconclusive(f"model text {text[:120]!r} is rejected ({why}) but the real printer's output for the same tree is fine")
    except Unsupported as e:
        for o in (ob1, ob2):
            if o.status == "pending":
                o.inconclusive(str(e))


def ob_empty_bodies(run, mir, rp):
    """The converter never hands the printer an empty body."""
    ob = run.ob("empty-bodies-filled", "E2", "a function without body is given `pass` (convert_def), a class whose body ends up empty is given "
                "`pass` (extract_class) and a synthesised constructor is only built when it has statements (init)",
                ["convert_def (FunDef)", "extract_class", "init"])
    try:
        import convkern
        claims = []
        ex_last = None
        # convert_def: body None -> Pass
        arm = convkern.Arm(run, mir, "convert_def", "src/generate/convert/definition.rs", "FunDef")
        n_fd = 0
        for p in arm.ends:
            if not (p.kind == "return" and isinstance(p.ret, Agg) and p.ret.variant == "Ok" and isinstance(p.ret.fields[0], Agg)):
                continue
            core = p.ret.fields[0]
            if core.variant not in ("FunDef", "FunDefOp"):
                continue
            n_fd += 1
            b = core.fields[list(core.names).index("body")]
            is_pass = isinstance(b, Agg) and b.variant == "Pass"
            has_body = arm.ex.discr(p.state, arm.kids["body"], "Option") == 1
            claims.append((arm.ex, z3.Implies(conj(p.cond), z3.Or(z3.BoolVal(is_pass), has_body))))
        if not n_fd:
            raise Unsupported("convert_def: no FunDef path")
        # init: Some(FunDef) only with statements
        from props import C17
        NODE_RS = printkern.NODE_RS
        fn = e2.find1(mir, file="src/generate/convert/class.rs", name="init")
        ex = Exec(mir, max_paths=20000)
        st = State()
        args = [Ref(ex.new_cell(st, Opq(z3.Const("old_init", Val), "Option<&Core>"))), Ref(ex.new_cell(st, Opq(z3.Const("class_args", Val), "[Core]"))),
                Ref(ex.new_cell(st, Opq(z3.Const("parents", Val), "[Core]")))]
        ends = e2.run_kernel(run, ex, fn, args, st)
        n_some = 0
        for p in ends:
            if p.kind != "return" or not (isinstance(p.ret, Agg) and p.ret.variant == "Ok"):
                continue
            r = p.ret.fields[0]
            if isinstance(r, Agg) and r.variant == "Some":
                n_some += 1
                fd = r.fields[0]
                body = fd.fields[list(fd.names).index("body")]
                stmts = body.fields[0] if isinstance(body, Agg) and body.variant == "Block" else None
                if not isinstance(stmts, Seq):
                    claims.append((ex, z3.BoolVal(False)))
                    continue
                claims.append((ex, z3.Implies(conj(p.cond), stmts.length() != 0)))
        if not n_some:
            raise Unsupported("init: no constructor path")
        # extract_class: the statements of the emitted ClassDef are `[pass]` or a non-empty collection
        fn = e2.find1(mir, file="src/generate/convert/class.rs", name="extract_class")
        ex2 = Exec(mir, max_paths=60000)
        st2 = State()
        a2 = []
        for an, aty in fn.args:
            t = aty.strip()
            a2.append(Ref(ex2.new_cell(st2, Opq(z3.Const(f"x{an}", Val), t.lstrip("&").replace("mut ", "").strip()))) if t.startswith("&") and not t.startswith("&[") else Opq(z3.Const(f"x{an}", Val), t))
        ends2 = e2.run_kernel(run, ex2, fn, a2, st2)
        n_cls = 0
        for p in ends2:
            if p.kind != "return" or not (isinstance(p.ret, Agg) and p.ret.variant == "Ok" and isinstance(p.ret.fields[0], Agg)):
                continue
            cd = p.ret.fields[0]
            if cd.variant != "ClassDef":
                continue
            n_cls += 1
            body = cd.fields[list(cd.names).index("body")]
            stmts = body.fields[0] if isinstance(body, Agg) and body.variant == "Block" else None
            if isinstance(stmts, Seq) and len(stmts.parts) == 1 and stmts.parts[0][0] == "item" and isinstance(stmts.parts[0][1], Agg) and stmts.parts[0][1].variant == "Pass":
                continue
            # otherwise the path condition must say that the collected statements are not empty
            sv = ex2.to_val(p.state, stmts) if stmts is not None else None
            nonempty = False
            if sv is not None:
                for c in p.cond:
                    c = z3.simplify(c)
                    if z3.is_not(c) and z3.is_eq(c.arg(0)) and str(c.arg(0).arg(0).decl().name()) in ("seq:len", "len") and \
                            z3.eq(c.arg(0).arg(0).arg(0), z3.simplify(sv)):
                        nonempty = True
                    if z3.is_not(c) and "is_empty" in str(c.arg(0).decl().name()) and z3.eq(c.arg(0).arg(0), z3.simplify(sv)):
                        nonempty = True
            claims.append((ex2, z3.Implies(conj(p.cond), z3.BoolVal(nonempty))))
        if not n_cls:
            raise Unsupported("extract_class: no ClassDef path")
        bad = 0
        for exx, cl in claims:
            r, m, dt, _ = e2.solve(exx, [z3.Not(cl)])
            ob.solver_s += dt
            ob.queries += 1
            if r != z3.unsat:
                bad += 1
        ob.reach = "sat"
        run.samples.append({"obligation": ob.id, "fundef_paths": n_fd, "constructor_paths": n_some, "classdef_paths": n_cls})
        if not bad:
            ob.discharged(f"unsat for {len(claims)} path claims")
        else:
            progs = ["class A\n", "class A: B\nclass B\n", "type T\n    def f(x: Int) -> Int\n", "class A(def x: Int)\n", "def f(x: Int) -> Int\n"]
            broken = []
            for src in progs:
                stt, out = rp.transpile(src)
                if stt == "OK":
                    try:
                        ast.parse(out)
                    except SyntaxError as e:
                        broken.append((src, out, e.msg))
            if broken:
                ob.violated("empty-body", {"claims_failed": bad}, {"src": broken[0][0], "output": broken[0][1]}, f"{broken[0][0]!r} is emitted as {broken[0][1]!r}: SyntaxError {broken[0][2]}")
            else:
                ob.inconclusive(f"{bad} path claims fail but the programs with empty bodies are emitted as valid Python")
    except Unsupported as e:
        ob.inconclusive(str(e))


def ob_ternary_operands(run, mir, rp):
    ob = run.ob("ternary-operands-are-expressions", "E2", "is_valid_in_ternary(then, el) - the test that lets an if/else be emitted as a Python "
                "conditional expression - is true exactly when neither branch is a block or a raise statement (both would be statements in "
                "expression position)", ["is_valid_in_ternary"])
    try:
        fn = e2.find1(mir, file="src/generate/convert/control_flow.rs", name="is_valid_in_ternary")
        ex = Exec(mir, max_paths=2000)
        st = State()
        import convkern
        kinds = ex.enum_variants("NodeTy")
        dt, de = z3.Int("then.kind"), z3.Int("el.kind")
        mk = lambda tag, d: e2.mk_struct(convkern.AST_RS, "ASTTy", {"pos": Opq(z3.Const(tag + ".pos", Val), "Position"),
                                                                   "node": Opq(z3.Const(tag + ".node", Val), "NodeTy", {("d",): d}),
                                                                   "ty": Opq(z3.Const(tag + ".ty", Val), "Option<Name>")})
        then, el = mk("then", dt), mk("el", de)
        ends = e2.run_kernel(run, ex, fn, [Ref(ex.new_cell(st, then)), Ref(ex.new_cell(st, el))], st)
        stmt = lambda d: z3.Or(d == kinds.index("Block"), d == kinds.index("Raise"))
        claims = []
        for p in ends:
            if p.kind != "return" or not z3.is_bool(p.ret):
                raise Unsupported(f"unexpected path end {p}")
            claims.append(z3.Implies(conj(p.cond), p.ret == z3.And(z3.Not(stmt(dt)), z3.Not(stmt(de)))))
        hyp = [dt >= 0, dt < len(kinds), de >= 0, de < len(kinds)]

        def replay(model):
            progs = ["def f(x: Int) -> Int raise [Exception] => if x < 0 then raise Exception(\"negative\") else x\nprint(f(1))",
                     "def f(x: Int) -> Int raise [Exception] => if x > 0 then x else raise Exception(\"negative\")\nprint(f(1))",
                     "def f(x: Int) -> Int =>\n    if x > 0 then\n        def y := x\n        y\n    else\n        0\nprint(f(1))"]
            bad = []
            for src in progs:
                for ann in (False, True):
                    stt, out = rp.transpile(src, ann)
                    if stt != "OK":
                        continue
                    try:
                        ast.parse(out)
                    except SyntaxError as e:
                        bad.append((src, out, e.msg))
            if bad:
                return {"reproduced": True, "role": "ternary-operand-statement", "detail": f"{bad[0][0]!r} is emitted as {bad[0][1][:160]!r}: SyntaxError {bad[0][2]}"}
            return {"reproduced": False, "detail": f"{len(progs)} programs with statement branches are emitted as valid Python"}
        e2.prove(run, ob, ex, hyp, conj(claims), {"then.kind": dt, "el.kind": de}, replay)
    except Unsupported as e:
        ob.inconclusive(str(e))


INTERPOLATIONS = [
    # (role, Mamba program, stdout the Mamba text means)
    ("mod", "print(\"{5 mod 2}\")", "1"),
    ("sqrt", "def a := 16\nprint(\"{sqrt a}\")", "4.0"),
    ("equality", "def a := 3\nprint(\"{a = 3}\")", "True"),
    ("inequality", "def a := 3\nprint(\"{a /= 3}\")", "False"),
    ("string-literal", "print(\"a {\"b\"}\")", "a b"),
    ("power", "def a := 3\nprint(\"{a ^ 2}\")", "9"),
    ("plain-name", "def a := 3\nprint(\"v={a}\")", "v=3"),
    ("arithmetic", "def a := 3\nprint(\"{a} and {a + 1}\")", "3 and 4"),
    ("index", "def a := [1, 2]\nprint(\"{a[0]}\")", "1"),
    ("not", "def a := True\nprint(\"{not a}\")", "False"),
    ("floor-division", "def a := 7\nprint(\"{a // 2}\")", "3"),
]


def ob_printer_edges(run, mir, rp):
    """Four places where a legal Mamba program used to come out as text Python refuses (found by probing around seeds, round 8)."""
    NODE_RS = printkern.NODE_RS
    fnp = e2.find1(mir, file=printkern.AST_MOD_RS, name="to_py")
    ind = z3.BitVec("ind", 64)

    def text_of(ex, p):
        return printkern.describe(ex, p.state, printkern.as_pieces(ex, p.state, p.ret), ind, {})

    def syntax_replay(what, progs):
        def f(model):
            bad = []
            for role, src, ann in progs:
                st_, out = rp.transpile(src, ann)
                if st_ != "OK":
                    continue            # rejected with diagnostics: not this property's business
                try:
                    compile(out, "<emitted>", "exec")
                except SyntaxError as e:
                    bad.append((role, f"{src!r} (annotate={ann}) is emitted as {out.strip()[:160]!r}, which Python refuses: {e}"))
            if bad:
                return {"reproduced": True, "role": f"{what}:" + "+".join(sorted({b[0] for b in bad})), "detail": bad[0][1]}
            return {"reproduced": False, "detail": f"{len(progs)} programs are emitted as valid Python"}
        return f

    def finish(ob, ex, claim, replay, nprogs):
        e2.prove(run, ob, ex, [z3.ULE(ind, printkern.MAXIND)], claim, {}, replay)
        if ob.status == "discharged":
            r_ = replay({})
            run.validated += nprogs
            if r_["reproduced"]:
                ob.status = "pending"
                ob.inconclusive("still refused by Python although the kernel is as specified: " + r_["detail"][:300])

    # A. a body whose block has no statement (comments only)
    ob = run.ob("empty-block-body-filled", "E2", "newline_if_body (how the printer writes the body of def / if / else / while / for / match arms): a Block WITHOUT statements - the "
                "parser builds one for a body that consists of comments only - is written as an indented `pass`, never as nothing", ["newline_if_body"])
    try:
        fnb = e2.find1(mir, file=printkern.AST_MOD_RS, name="newline_if_body")
        ex = printkern.executor(mir)
        st = State()
        blk = e2.mk_variant(NODE_RS, "Core", "Block", {"statements": Seq()})
        ends = e2.run_kernel(run, ex, fnb, [Ref(ex.new_cell(st, blk)), ind], st, [z3.ULE(ind, printkern.MAXIND)])
        rets = [p for p in ends if p.kind == "return"]
        if not rets:
            raise Unsupported("newline_if_body: no return path for an empty block")
        ok = all(any(pc[0] == "lit" and "pass" in pc[1] for pc in text_of(ex, p)) for p in rets)
        progs = [(f"comment-only-{k}", src, ann) for ann in (False, True) for k, src in (
            ("function-body", "def f() =>\n    # todo\nf()\n"), ("then-branch", "if True then\n    # nothing\nelse\n    print(1)\n"), ("else-branch", "if True then\n    print(1)\nelse\n    # nothing\n"),
            ("while-body", "def c := False\nwhile c do\n    # nothing\n"), ("for-body", "for i in [1] do\n    # nothing\n"), ("method-body", "class A\n    def m(self) =>\n        # todo\n"),
            ("match-arm", "match 1\n    1 =>\n        # nothing\n    _ => print(2)\n"))]
        finish(ob, ex, z3.BoolVal(bool(ok)), syntax_replay("empty-block", progs), len(progs))
    except Unsupported as e:
        ob.inconclusive(str(e))

    # C. a string literal that spans lines
    ob = run.ob("string-literal-single-line", "E2", "to_py, Str and FStr arms: the text between the quotes is the literal with every line break written as the escape `\\n` "
                "(str::replace('\\n', \"\\\\n\")) - a Mamba string may span lines, a Python \"...\" literal may not", ["to_py (Str, FStr)"])
    try:
        okc, ex = True, None
        for kind in ("Str", "FStr"):
            ex = printkern.executor(mir)
            st = State()
            lit = Opq(z3.Const("string", Val), "String")
            core = e2.mk_variant(NODE_RS, "Core", kind, {"string": lit})
            ends = e2.run_kernel(run, ex, fnp, [Ref(ex.new_cell(st, core)), ind], st, [z3.ULE(ind, printkern.MAXIND)])
            rets = [p for p in ends if p.kind == "return"]
            if len(rets) != 1:
                raise Unsupported(f"{kind}: {len(rets)} return paths")
            p = rets[0]
            reps = [e_ for e_ in p.events if e_["name"].split("::")[-1] == "replace" and z3.eq(e_["argvals"][0], ex.to_val(p.state, lit))]
            good = [e_ for e_ in reps if "10" in str(e_["args"][1]) or "\\n" in repr(e_["args"][1]) or "\n" in str(getattr(e_["args"][1], "s", ""))]
            pieces = printkern.as_pieces(ex, p.state, p.ret)
            vals = [pc[1] for pc in pieces if pc[0] == "val"]
            uses = bool(good) and any(z3.eq(ex.to_val(p.state, v), ex.to_val(p.state, good[-1]["ret"])) for v in vals)
            raw = any(z3.eq(ex.to_val(p.state, v), ex.to_val(p.state, lit)) for v in vals)
            okc = okc and uses and not raw
        progs = [("multi-line-string", "def s := \"line one\nline two\"\nprint(s)\n", a) for a in (False, True)] + \
                [("multi-line-interpolated-string", "def n := 2\ndef s := \"line {n}\nline two\"\nprint(s)\n", False), ("single-line-string", "def s := \"one\"\nprint(s)\n", False)]
        finish(ob, ex, z3.BoolVal(bool(okc)), syntax_replay("string-literal", progs), len(progs))
    except Unsupported as e:
        ob.inconclusive(str(e))

    # E. the argument list of a function type without arguments
    ob = run.ob("callable-without-arguments", "E2", "to_py, Type arm: the nameless type with no components - the argument list of `() -> R` - is written `[]` "
                "(Callable[[], R]), not as the empty text (Callable[, R])", ["to_py (Type)"])
    try:
        ex = printkern.executor(mir)
        st = State()
        core = e2.mk_variant(NODE_RS, "Core", "Type", {"lit": StrC(""), "generics": Seq()})
        ends = e2.run_kernel(run, ex, fnp, [Ref(ex.new_cell(st, core)), ind], st, [z3.ULE(ind, printkern.MAXIND)])
        rets = [p for p in ends if p.kind == "return"]
        if not rets:
            raise Unsupported("Type arm: no return path")
        # (the components between the brackets are comma_delimited(generics): nothing for no components)
        oke = all("".join(pc[1] for pc in text_of(ex, p) if pc[0] == "lit") == "[]" and
                  all(pc[0] == "lit" or (pc[0] == "slot" and pc[1] == "comma_delimited") for pc in text_of(ex, p)) for p in rets)
        progs = [("function-type-without-arguments", "def f(g: () -> Int) -> Int => g()\nprint(f(\\ => 3))\n", True), ("function-type-without-arguments-variable", "def g: () -> Int := \\ => 3\nprint(g())\n", True),
                 ("function-type-with-argument", "def f(g: Int -> Int) -> Int => g(1)\n", True)]
        finish(ob, ex, z3.BoolVal(bool(oke)), syntax_replay("callable-arguments", progs), len(progs))
    except Unsupported as e:
        ob.inconclusive(str(e))

    # B. `pass` in tail position
    ob = run.ob("tail-pass-stays-pass", "E2", "append_ret (how the value of a body becomes a return): a `pass` in tail position stays `pass` - `return pass` is not Python", ["append_ret"])
    try:
        fna = e2.find1(mir, file="src/generate/convert/mod.rs", name="append_ret")
        ex = Exec(mir, max_paths=2000, inline=[r"skip_return$", r"skip_assign$"])
        st = State()
        ends = e2.run_kernel(run, ex, fna, [Ref(ex.new_cell(st, Agg("Core", "Pass", [])))], st)
        rets = [p for p in ends if p.kind == "return" and e2.solve(ex, list(p.cond))[0] == z3.sat]
        if not rets:
            raise Unsupported("append_ret(Pass): no feasible return path")
        okb = True
        for p_ in rets:
            r = p_.ret
            r = ex.read_ref(p_.state, r) if isinstance(r, Ref) else r
            okb = okb and isinstance(r, Agg) and r.variant == "Pass"
        progs = [("pass-as-function-value", "def f() -> None => pass\nf()\n", a) for a in (False, True)] + [("pass-as-last-statement", "def f() -> None =>\n    print(1)\n    pass\nf()\n", False)]
        e2.prove(run, ob, ex, [], z3.BoolVal(bool(okb)), {}, syntax_replay("tail-pass", progs))
        if ob.status == "discharged":
            r_ = syntax_replay("tail-pass", progs)({})
            run.validated += len(progs)
            if r_["reproduced"]:
                ob.status = "pending"
                ob.inconclusive("still refused by Python although the kernel is as specified: " + r_["detail"][:300])
    except Unsupported as e:
        ob.inconclusive(str(e))

    # F. a tuple of variables that receives the value of a block-if / match
    ob = run.ob("tuple-target-not-annotated", "E2", "append_assign (how `def target := <if / match / handle in statement form>` pushes the assignment into the branches): when the target "
                "is a tuple of variables the assignment it builds carries NO annotation - `a, b: Tuple[int, int] = ..` is not Python (only single targets can be annotated)", ["append_assign"])
    try:
        fnaa = e2.find1(mir, file="src/generate/convert/mod.rs", name="append_assign")
        okf, ex = True, None
        nf = 0
        for target in ("Tuple", "TupleLiteral"):
            ex = Exec(mir, max_paths=2000, inline=[r"skip_return$", r"skip_assign$"])
            st = State()
            tgt = e2.mk_variant(NODE_RS, "Core", target, {"elements": Opq(z3.Const("elements", Val), "Vec<Core>")})
            value = e2.mk_variant(NODE_RS, "Core", "Id", {"lit": Opq(z3.Const("v", Val), "String")})
            nm = Agg("Option", "Some", [Opq(z3.Const("name", Val), "Name")])
            ends = e2.run_kernel(run, ex, fnaa, [Ref(ex.new_cell(st, value)), Ref(ex.new_cell(st, tgt)), Ref(ex.new_cell(st, nm)), Ref(ex.new_cell(st, Opq(z3.Const("imp", Val), "Imports")))], st)
            for p_ in ends:
                if p_.kind != "return" or e2.solve(ex, list(p_.cond))[0] != z3.sat:
                    continue
                r = p_.ret
                r = ex.read_ref(p_.state, r) if isinstance(r, Ref) else r
                if not (isinstance(r, Agg) and r.variant == "VarDef" and r.names):
                    okf = False
                    continue
                nf += 1
                ty = r.fields[list(r.names).index("ty")]
                okf = okf and isinstance(ty, Agg) and ty.variant == "None"
        if not nf:
            raise Unsupported("append_assign: no VarDef built for a tuple target")
        progs = [("tuple-from-block-if", "def c := True\ndef (a, b) := if c then\n    (1, 2)\nelse\n    (3, 4)\nprint(a)\n", a_) for a_ in (False, True)] + \
                [("tuple-from-match", "def (a, b) := match 1\n    1 => (1, 2)\n    _ => (3, 4)\nprint(b)\n", False), ("single-from-block-if", "def c := True\ndef a := if c then\n    1\nelse\n    3\nprint(a)\n", True)]
        e2.prove(run, ob, ex, [], z3.BoolVal(bool(okf)), {}, syntax_replay("tuple-target", progs))
        if ob.status == "discharged":
            r_ = syntax_replay("tuple-target", progs)({})
            run.validated += len(progs)
            if r_["reproduced"]:
                ob.status = "pending"
                ob.inconclusive("still refused by Python although the kernel is as specified: " + r_["detail"][:300])
    except Unsupported as e:
        ob.inconclusive(str(e))

    # D. constructor parameters: no parameter without default behind one with a default
    ob = run.ob("class-arguments-defaults-ordered", "E2", "GenericClass::try_from (where the class arguments become the parameters of the constructor): a class argument without default "
                "behind one with a default is refused, as the same is for functions - Python does not accept such a parameter list", ["<GenericClass as TryFrom<&AST>>::try_from"])
    try:
        GEN_CL = "src/check/context/clss/generic.rs"
        cands = [f for n, f in mir.fns.items() if f.impl_at and f.impl_at[0].endswith(GEN_CL) and n.split("::")[-1] == "try_from" and "AST" in f.args[0][1]]
        if len(cands) != 1:
            raise Unsupported(f"GenericClass::try_from: {len(cands)} candidates")
        gfa = e2.rust_struct("src/check/context/arg/generic.rs", "GenericFunctionArg")
        idx = gfa.index("has_default")
        # the decision reads the `has_default` flag of an element of the collected argument list and ends in Err: look for it in the MIR of the function
        txt = "\n".join(str(st_) for b in cands[0].blocks.values() for st_ in b.stmts) + "\n".join(str(b.term) for b in cands[0].blocks.values())
        reads = len(re.findall(r"'field', [^\n]{0,200}?, %d, 'bool'" % idx, txt))
        ex = Exec(mir, max_paths=10)
        progs = [("class-argument-without-default-behind-default", "class A(def x: Int := 1, def y: Int)\ndef a := A(1, 2)\n", a_) for a_ in (False, True)] + \
                [("plain-class-argument-without-default-behind-default", "class A(x: Int := 1, y: Int)\n    def s: Int := x + y\n", False), ("class-arguments-ordered", "class A(def y: Int, def x: Int := 1)\ndef a := A(2)\n", False)]
        e2.prove(run, ob, ex, [], z3.BoolVal(reads >= 1), {}, syntax_replay("class-arguments", progs))
        if ob.status == "discharged":
            r_ = syntax_replay("class-arguments", progs)({})
            run.validated += len(progs)
            if r_["reproduced"]:
                ob.status = "pending"
                ob.inconclusive("still refused by Python although the flag is looked at: " + r_["detail"][:300])
        run.samples.append({"obligation": ob.id, "reads_of_has_default": reads})
    except Unsupported as e:
        ob.inconclusive(str(e))


def ob_interpolation(run, mir, rp, mode="syntax"):
    """The expressions inside a string's {..} are Mamba expressions: they have to go through the converter like any other."""
    import convkern
    from props import C01
    ob = run.ob("interpolations-converted", "E2", "convert_node, Str arm with interpolated expressions: the text of the emitted f-string is built from the "
                "conversions of the interpolated expressions (each is handed to convert_node / convert_vec) - not a copy of the Mamba source text "
                "between the braces, which need not be Python (`mod`, `sqrt`, `=`, `/=`, nested quotes) or means something else (`^`)",
                ["convert_node (Str)"])
    try:
        arm = convkern.Arm(run, mir, "convert_node", "src/generate/convert/mod.rs", "Str")
    except Unsupported as e:
        return ob.inconclusive(f"Str arm not encodable: {e}")
    ex = arm.ex
    claims, n = [], 0
    lit = ex.to_val(arm.st, arm.kids["lit"])
    exprs = ex.to_val(arm.st, arm.kids["expressions"])
    copies = 0
    for p in arm.ends:
        if not (p.kind == "return" and isinstance(p.ret, Agg) and p.ret.variant == "Ok"):
            continue
        post = [ev for ev in p.events if ev["name"].split("::")[-1] in ("append_assign", "append_ret")]
        core = p.ret.fields[0]
        if post:
            a0 = post[0]["args"][0]
            core = ex.read_ref(p.state, a0) if isinstance(a0, Ref) else a0
        if not (isinstance(core, Agg) and core.variant == "FStr"):
            continue
        n += 1
        conv = [ev for ev in p.events if ev["name"].split("::")[-1] in ("convert_node", "convert_vec") and
                any(exprs.get_id() in {t.get_id() for t in _subterms(a)} for a in ev["argvals"][:1])]
        is_copy = z3.eq(ex.to_val(p.state, core.fields[0]), lit)
        copies += bool(is_copy)
        claims.append(z3.Implies(conj(p.cond), z3.BoolVal(bool(conv) and not is_copy)))
    if not n:
        return ob.inconclusive("no path of the Str arm builds an f-string")

    def replay(model):
        bad = []
        for role, src, want in INTERPOLATIONS:
            st_, out = rp.transpile(src)
            if st_ != "OK":
                bad.append((role, f"{src!r}: {st_} {out[:80]!r}"))
                continue
            try:
                ast.parse(out)
            except SyntaxError as e:
                bad.append((role, f"{src!r} is emitted as {out.strip()!r}, which Python refuses: {e}"))
                continue
            if mode == "meaning":
                rc, so, se = C01.py_run(out)
                if rc != 0 or so.strip() != want:
                    bad.append((role, f"{src!r} is emitted as {out.strip()!r}, which prints {so.strip()!r} (rc={rc}) instead of {want!r}"))
        if bad:
            return {"reproduced": True, "role": "interpolation-copied-verbatim:" + "+".join(b[0] for b in bad), "detail": bad[0][1], "failing": [b[0] for b in bad]}
        return {"reproduced": False, "detail": f"{len(INTERPOLATIONS)} interpolations are valid Python" + (" with the Mamba meaning" if mode == "meaning" else "")}
    e2.prove(run, ob, ex, [], conj(claims), {}, replay)
    if ob.status == "discharged":
        rep = replay({})
        run.validated += len(INTERPOLATIONS)
        if rep["reproduced"]:
            ob.status = "pending"
            ob.inconclusive("interpolations misbehave although the kernel converts them: " + rep["detail"][:300])
    run.samples.append({"obligation": ob.id, "fstring_paths": n, "paths_that_copy_the_source_text": copies})


def _subterms(t):
    seen, stack = {}, [t]
    while stack:
        x = stack.pop()
        if x.get_id() in seen:
            continue
        seen[x.get_id()] = x
        stack.extend(x.children())
    return list(seen.values())


def run(run):
    mir = e2.load_mir(run)
    rp = common.Replay()
    run.assume("recursive renderings are uninterpreted in each arm and composed by the model; comma_delimited joins the renderings of its items "
               "with ', ' (contract; compared with the real printer on every tree)",
               "blocks are never empty (the parser builds no empty block; the converter's own empty bodies are checked below)",
               "statement trees up to the nesting bound; expression slots hold identifiers (operand delimiting is C10's subject)",
               "outside: what the lexer hands through inside string literals, comprehension / dictionary printing, files and encodings")
    run.trusted += ["rustc nightly MIR dump", "mirsym MIR semantics + text model", "z3", "CPython ast (syntax and meaning oracle)"]
    run.bounds = {"indentation_level": f"<= {printkern.MAXIND} (symbolic)", "nesting": "compound statements nested 2 deep (quick) / 3 deep (thorough)"}

    ob_printer(run, mir, rp)
    ob_empty_bodies(run, mir, rp)
    ob_literals(run, mir, rp)
    ob_ternary_operands(run, mir, rp)
    ob_interpolation(run, mir, rp, "syntax")
    ob_printer_edges(run, mir, rp)
    try:
        # what the lexer lets through inside an interpolated string ends up verbatim in an f-string: braces must balance
        import lexstep

        def brace_replay(what):
            def f(model):
                bad = []
                for src in ("def x := 1\nprint(\"{x} }\")\n", "def x := 1\nprint(\"} {x}\")\n", "def x := 1\nprint(\"{x}}\")\n", "def x := 1\nprint(\"{x} and {x}\")\n", "print(\"plain\")\n"):
                    st_, out = rp.transpile(src)
                    if st_ != "OK":
                        continue
                    try:
                        compile(out, "<emitted>", "exec")
                    except SyntaxError as e:
                        bad.append(f"{src!r} is emitted as {out.strip()[:100]!r}, which Python refuses: {e}")
                if bad:
                    return {"reproduced": True, "role": f"{what}:stray-closing-brace", "detail": bad[0]}
                return {"reproduced": False, "detail": "5 strings with and without stray braces: rejected or valid Python"}
            return f
        lexstep.obligations(run, mir, rp, brace_replay, want=("braces",))
    except Unsupported as e:
        run.ob("string-brace-counter-encoding", "E2", "kernel is encodable").inconclusive(f"unsupported construct: {e}")
    try:
        # a generator flag that leaks into a branch (a pending assignment applied twice) is a syntax error: the structure of the control-flow arms
        from props import C01
        C01.ob_structure(run, mir, rp, only_fns=("convert_cntrl_flow",))
    except Unsupported as e:
        run.ob("structure-convert-cntrl-flow-encoding", "E2", "kernel is encodable").inconclusive(f"unsupported construct: {e}")
    rp.close()
    # an operand that needs delimiting and does not get it can be a syntax error too (`a == not b`): the C10 machinery with
    # "Python refuses the text" as the only failure
    try:
        from props import C10
        C10.run(run, syntax_only=True)
    except Unsupported as e:
        run.ob("operands-delimited-syntax-encoding", "E3+E2", "printer kernels encodable").inconclusive(str(e))
