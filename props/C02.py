"""C02 — emitted files are valid Python: the printer's statement layout, the converter's empty-body kernels and the literal lexemes (E2 + z3)."""
import ast
import itertools
import re
import z3

import common
import e2
import printkern
from e2 import conj, disj
from mirsym import Exec, State, Opq, Agg, Ref, StrC, Seq, Val, Unsupported

LEVEL = "model_checking"
EXPLANATION = ("Every arm of the printer (generate::ast::to_py) and its layout helpers is executed symbolically from MIR with a text model: "
               "format! is decoded from the compiler's own template constant, the indentation level is a symbolic integer. z3 proves that "
               "every indentation piece is exactly 4*(ind+k) spaces for a constant k, for every level up to 2^20; the extracted templates "
               "(one per MIR path, with the path's conditions) are then composed on every statement tree up to a nesting bound and the text "
               "is judged by Python's own parser: it must parse, and to the Python AST the Core statement means. Each composed text is also "
               "compared byte for byte with the real printer. The converter's kernels that fill empty bodies and the lexer's number "
               "lexemes are checked separately.")

STMT_KINDS = ["If", "IfElse", "While", "For", "With", "WithAs", "TryExcept", "Match", "FunDef", "ClassDef"]
ALL_KINDS = ["Id", "Int", "Str", "Pass", "Break", "Continue", "None", "UnderScore", "Block", "Raise", "Return", "Case", "ExceptId", "Except",
             "VarDef", "FunArg", "Import", "Assign", "DocStr"] + STMT_KINDS


def I(name):
    return {"k": "Id", "lit": name}


# ------------------------------------------------------------------------------------------------ trees

def simple_statements():
    return [I("s"), {"k": "Pass"}, {"k": "Return", "expr": I("r")}, {"k": "Raise", "error": I("E")},
            {"k": "Assign", "op": "=", "left": I("x"), "right": I("v")}, {"k": "Assign", "op": "+=", "left": I("x"), "right": I("v")},
            {"k": "VarDef", "var": I("x"), "ty": None, "expr": I("v")}, {"k": "VarDef", "var": I("x"), "ty": I("T"), "expr": None},
            {"k": "VarDef", "var": I("x"), "ty": I("T"), "expr": I("v")}, {"k": "VarDef", "var": I("x"), "ty": None, "expr": None}]


def bodies(depth, wide):
    """Alternatives for a body slot."""
    out = [I("s"), {"k": "Block", "statements": [I("s1"), {"k": "Pass"}]}]
    if depth > 0:
        for c in compounds(depth - 1, False):
            out.append(c)
            out.append({"k": "Block", "statements": [c, I("after")]})
    if wide:
        out += [{"k": "Block", "statements": [s]} for s in simple_statements()[2:6]]
    return out


def compounds(depth, wide):
    B = bodies(depth, wide)
    B1 = B if wide else B[:2] + B[2:4]
    out = []
    for b in B1:
        out.append({"k": "If", "cond": I("c"), "then": b})
        out.append({"k": "While", "cond": I("c"), "body": b})
        out.append({"k": "For", "expr": I("i"), "col": I("xs"), "body": b})
        out.append({"k": "With", "resource": I("res"), "expr": b})
        out.append({"k": "WithAs", "resource": I("res"), "alias": I("h"), "expr": b})
        out.append({"k": "Match", "expr": I("m"), "cases": [{"k": "Case", "expr": {"k": "Int", "int": "1"}, "body": b},
                                                            {"k": "Case", "expr": {"k": "UnderScore"}, "body": I("d")}]})
        for setup in (None, {"k": "VarDef", "var": I("x"), "ty": None, "expr": None}):
            out.append({"k": "TryExcept", "setup": setup, "attempt": b,
                        "except": [{"k": "ExceptId", "id": I("e"), "class": I("E1"), "body": b}, {"k": "Except", "class": I("E2"), "body": I("h")}]})
        for args in ([], [{"k": "FunArg", "vararg": False, "var": I("a"), "ty": None, "default": None}],
                     [{"k": "FunArg", "vararg": False, "var": I("a"), "ty": I("T"), "default": None},
                      {"k": "FunArg", "vararg": False, "var": I("b"), "ty": None, "default": {"k": "Int", "int": "3"}},
                      {"k": "FunArg", "vararg": True, "var": I("rest"), "ty": None, "default": None}]):
            for ty in (None, I("R")):
                out.append({"k": "FunDef", "id": "f", "dec": [], "arg": args, "ty": ty, "body": b})
        for parents in ([], [I("P")], [I("P"), I("Q")]):
            out.append({"k": "ClassDef", "name": I("K"), "parent_names": parents, "body": b})
    for b1, b2 in itertools.product(B1, B1[:3]):
        out.append({"k": "IfElse", "cond": I("c"), "then": b1, "el": b2})
    return out


def programs(tier):
    depth = 1 if tier == "quick" else 2
    out = []
    for c in compounds(depth, True):
        out.append({"k": "Block", "statements": [c]})
        out.append({"k": "Block", "statements": [I("before"), c, I("after")]})
    # decorated method inside a class (the only place a decorator is generated)
    for b in bodies(0, False):
        m = {"k": "FunDef", "id": "m", "dec": ["abstractmethod"], "arg": [{"k": "FunArg", "vararg": False, "var": I("self"), "ty": None, "default": None}],
             "ty": None, "body": {"k": "Pass"}}
        out.append({"k": "Block", "statements": [{"k": "ClassDef", "name": I("K"), "parent_names": [], "body": {"k": "Block", "statements": [m, {"k": "FunDef", "id": "g", "dec": [], "arg": [], "ty": None, "body": b}]}}]})
    for s in simple_statements():
        out.append({"k": "Block", "statements": [s]})
    for frm, imp, al in ((None, [I("math")], []), (I("typing"), [I("Optional"), I("Union")], []), (None, [I("numpy")], [I("np")]), (I("abc"), [I("ABC")], [I("Base")])):
        out.append({"k": "Block", "statements": [{"k": "Import", "from": frm, "import": imp, "alias": al}]})
    return out


# ------------------------------------------------------------------------------------------------ documented meaning (Python AST)

def E(t):
    k = t["k"]
    if k == "Id":
        return ast.Name(id=t["lit"])
    if k == "Int":
        return ast.Constant(value=int(t["int"]))
    if k == "None":
        return ast.Constant(value=None)
    if k == "UnderScore":
        return ast.Name(id="_")
    raise Unsupported(f"expression {k}")


def SS(t):
    return [S(x) for x in t["statements"]] if t["k"] == "Block" else [S(t)]


def flat(xs):
    out = []
    for x in xs:
        out += x if isinstance(x, list) else [x]
    return out


def S(t):
    k = t["k"]
    if k in ("Id", "Int", "None"):
        return ast.Expr(value=E(t))
    if k == "Pass":
        return ast.Pass()
    if k == "Break":
        return ast.Break()
    if k == "Continue":
        return ast.Continue()
    if k == "Return":
        return ast.Return(value=E(t["expr"]))
    if k == "Raise":
        return ast.Raise(exc=E(t["error"]), cause=None)
    if k == "If":
        return ast.If(test=E(t["cond"]), body=flat(SS(t["then"])), orelse=[])
    if k == "IfElse":
        return ast.If(test=E(t["cond"]), body=flat(SS(t["then"])), orelse=flat(SS(t["el"])))
    if k == "While":
        return ast.While(test=E(t["cond"]), body=flat(SS(t["body"])), orelse=[])
    if k == "For":
        return ast.For(target=E(t["expr"]), iter=E(t["col"]), body=flat(SS(t["body"])), orelse=[], type_comment=None)
    if k == "With":
        return ast.With(items=[ast.withitem(context_expr=E(t["resource"]), optional_vars=None)], body=flat(SS(t["expr"])), type_comment=None)
    if k == "WithAs":
        return ast.With(items=[ast.withitem(context_expr=E(t["resource"]), optional_vars=E(t["alias"]))], body=flat(SS(t["expr"])), type_comment=None)
    if k == "Match":
        cases = []
        for c in t["cases"]:
            p = c["expr"]
            pat = ast.MatchAs(pattern=None, name=None) if p["k"] == "UnderScore" else ast.MatchValue(value=E(p))
            cases.append(ast.match_case(pattern=pat, guard=None, body=flat(SS(c["body"]))))
        return ast.Match(subject=E(t["expr"]), cases=cases)
    if k == "TryExcept":
        hs = []
        for h in t["except"]:
            hs.append(ast.ExceptHandler(type=E(h["class"]), name=h["id"]["lit"] if h["k"] == "ExceptId" else None, body=flat(SS(h["body"]))))
        tr = ast.Try(body=flat(SS(t["attempt"])), handlers=hs, orelse=[], finalbody=[])
        return [S(t["setup"]), tr] if t["setup"] is not None else tr
    if k == "VarDef":
        val = E(t["expr"]) if t["expr"] is not None else ast.Constant(value=None)
        if t["ty"] is not None:
            return ast.AnnAssign(target=E(t["var"]), annotation=E(t["ty"]), value=val, simple=1)
        return ast.Assign(targets=[E(t["var"])], value=val, type_comment=None)
    if k == "Assign":
        if t["op"] == "=":
            return ast.Assign(targets=[E(t["left"])], value=E(t["right"]), type_comment=None)
        op = {"+=": ast.Add, "-=": ast.Sub, "*=": ast.Mult, "/=": ast.Div, "**=": ast.Pow, "<<=": ast.LShift, ">>=": ast.RShift}[t["op"]]()
        return ast.AugAssign(target=E(t["left"]), op=op, value=E(t["right"]))
    if k == "FunDef":
        pos, defaults, vararg = [], [], None
        for a in t["arg"]:
            arg = ast.arg(arg=a["var"]["lit"], annotation=E(a["ty"]) if a["ty"] is not None else None, type_comment=None)
            if a["vararg"]:
                vararg = arg
            else:
                pos.append(arg)
                if a["default"] is not None:
                    defaults.append(E(a["default"]))
        args = ast.arguments(posonlyargs=[], args=pos, vararg=vararg, kwonlyargs=[], kw_defaults=[], kwarg=None, defaults=defaults)
        return ast.FunctionDef(name=t["id"], args=args, body=flat(SS(t["body"])), decorator_list=[ast.Name(id=d) for d in t["dec"]],
                               returns=E(t["ty"]) if t["ty"] is not None else None, type_comment=None, type_params=[])
    if k == "ClassDef":
        return ast.ClassDef(name=t["name"]["lit"], bases=[E(p) for p in t["parent_names"]], keywords=[], body=flat(SS(t["body"])), decorator_list=[], type_params=[])
    if k == "Import":
        names = [ast.alias(name=i["lit"], asname=None) for i in t["import"]]
        if t["alias"]:
            if len(t["import"]) != 1 or len(t["alias"]) != 1:
                raise Unsupported("import with several aliases")
            names = [ast.alias(name=t["import"][0]["lit"], asname=t["alias"][0]["lit"])]
        if t["from"] is not None:
            return ast.ImportFrom(module=t["from"]["lit"], names=names, level=0)
        return ast.Import(names=names)
    raise Unsupported(f"statement {k}")


def norm_dump(node):
    d = ast.dump(node)
    d = re.sub(r",? ?ctx=(Load|Store|Del)\(\)", "", d)
    d = re.sub(r",? ?type_params=\[\]", "", d)
    d = re.sub(r",? ?type_comment=None", "", d)
    d = re.sub(r",? ?kind=None", "", d)
    return d.replace("(, ", "(")


def judge(text, tree):
    """None if the text is valid Python that means what the tree says, else a reason."""
    try:
        got = ast.parse(text)
    except SyntaxError as e:
        return f"SyntaxError: {e.msg} (line {e.lineno})"
    want = ast.Module(body=flat([S(x) for x in tree["statements"]]), type_ignores=[])
    g, w = norm_dump(got), norm_dump(want)
    if g != w:
        return f"parses to a different program: {g[:160]} instead of {w[:160]}"
    return None


# ------------------------------------------------------------------------------------------------ check

def ob_literals(run, mir, rp):
    """Integer lexemes are digit strings (lexer); what reaches the output must be a valid Python integer literal of the same value."""
    ob = run.ob("integer-literals-valid-python", "E2+z3(strings)", "the text emitted for an integer literal (and for mantissa / exponent of an "
                "E-notation literal) is a valid Python decimal integer - no leading zero unless it is 0 - denoting the same number as the "
                "Mamba lexeme, for every digit string up to 8 digits", ["convert_node (Int / ENum arms)", "decimal_integer", "into_tokens (number arm: digits only)"])
    try:
        import convkern
        CONV = "src/generate/convert/mod.rs"
        # what the converter puts into Core::Int for the lexeme `lit`
        arm = convkern.Arm(run, mir, "convert_node", CONV, "Int")
        oks = [p for p in arm.ends if p.kind == "return" and isinstance(p.ret, Agg) and p.ret.variant == "Ok"]
        shapes = set()
        for p in oks:
            core = p.ret.fields[0]
            post = [ev for ev in p.events if ev["name"].split("::")[-1] in ("append_assign", "append_ret")]
            if post:
                a0 = post[0]["args"][0]
                core = arm.ex.read_ref(p.state, a0) if isinstance(a0, Ref) else a0
            if not (isinstance(core, Agg) and core.variant == "Int"):
                shapes.add("?")
                continue
            v = z3.simplify(arm.ex.to_val(p.state, core.fields[0]))
            lit = arm.ex.to_val(p.state, arm.kids["lit"])
            if z3.eq(v, z3.simplify(lit)):
                shapes.add("lexeme")
            elif z3.is_app(v) and re.search(r"decimal_integer/1$", v.decl().name()) and z3.eq(v.children()[0], z3.simplify(lit)):
                shapes.add("decimal_integer")
            else:
                shapes.add("?" + str(v)[:60])
        if len(shapes) != 1 or list(shapes)[0].startswith("?"):
            raise Unsupported(f"Int arm emits {shapes}")
        how = shapes.pop()
        # the normaliser itself: trim_start_matches('0'), and "0" when nothing is left
        s_in = z3.String("lexeme")
        digits = z3.Plus(z3.Range("0", "9"))
        py_int = z3.Union(z3.Plus(z3.Re("0")), z3.Concat(z3.Range("1", "9"), z3.Star(z3.Range("0", "9"))))
        hyp = [z3.InRe(s_in, digits), z3.Length(s_in) <= 8]
        if how == "lexeme":
            out = s_in
        else:
            fn = e2.find1(mir, file=CONV, name="decimal_integer")
            exn = Exec(mir, max_paths=200)
            stn = State()
            ends = e2.run_kernel(run, exn, fn, [Opq(z3.Const("lit", Val), "&str")], stn)
            rets = [p for p in ends if p.kind == "return"]
            desc = []
            for p in rets:
                tr = [ev for ev in p.events if ev["name"].split("::")[-1] == "trim_start_matches"]
                emp = [ev for ev in p.events if ev["name"].split("::")[-1] == "is_empty"]
                if len(tr) != 1 or not emp:
                    raise Unsupported("decimal_integer: unexpected shape")
                ch = tr[0]["args"][1]
                is_zero = (z3.is_bv_value(ch) and ch.as_long() == 48) or str(ch) in ("48", "'0'")
                if not is_zero:
                    raise Unsupported(f"decimal_integer trims {ch}")
                r = p.ret
                rv = exn.to_val(p.state, r)
                cond_empty = any(z3.eq(z3.simplify(c), z3.simplify(exn.to_val(p.state, emp[0]["ret"]) if not z3.is_bool(emp[0]["ret"]) else emp[0]["ret"])) for c in p.cond)
                desc.append(("0" if isinstance(r, StrC) and r.s == "0" else "trimmed" if z3.eq(z3.simplify(rv), z3.simplify(exn.to_val(p.state, tr[0]["ret"]))) else "?", cond_empty))
            if sorted(d[0] for d in desc) != ["0", "trimmed"]:
                raise Unsupported(f"decimal_integer returns {desc}")
            # contract of str::trim_start_matches('0'): the longest suffix that does not start with '0'
            zeros, t = z3.String("zeros"), z3.String("trimmed")
            hyp += [s_in == z3.Concat(zeros, t), z3.InRe(zeros, z3.Star(z3.Re("0"))), z3.Not(z3.PrefixOf(z3.StringVal("0"), t))]
            out = z3.If(z3.Length(t) == 0, z3.StringVal("0"), t)
        # same value: the output is the lexeme itself or the lexeme minus a prefix of zeros (or "0" for an all-zero lexeme) - by
        # positional notation that is the same number; z3 decides the shape, not the arithmetic (str.to_int makes the query diverge)
        same_value = z3.Or(out == s_in, z3.And(z3.SuffixOf(out, s_in), z3.InRe(z3.SubString(s_in, 0, z3.Length(s_in) - z3.Length(out)), z3.Star(z3.Re("0")))),
                           z3.And(out == z3.StringVal("0"), z3.InRe(s_in, z3.Plus(z3.Re("0")))))
        claim = z3.And(z3.InRe(out, py_int), same_value)
        sol = z3.Solver()
        sol.set("timeout", 60000)
        sol.add(*hyp)
        r0 = sol.check()
        sol.add(z3.Not(claim))
        import time
        t0 = time.time()
        r = sol.check()
        ob.solver_s += time.time() - t0
        ob.queries += 2
        ob.reach = str(r0)
        run.samples.append({"obligation": ob.id, "int_arm_emits": how})
        if r == z3.unsat and r0 == z3.sat:
            ob.discharged(f"unsat: the emitted text ({how}) is a valid Python integer of the same value for every digit string <= 8 digits")
        elif r == z3.sat:
            lex = sol.model().eval(s_in, model_completion=True).as_string()
            bad = []
            for src in (f"def x := {lex}\nprint(x)", f"def x := 1E{lex}\nprint(x)", "def x := 007\nprint(x)", "def x := 1E05\nprint(x)"):
                st, outp = rp.transpile(src)
                if st != "OK":
                    continue
                try:
                    ast.parse(outp)
                except SyntaxError as e:
                    bad.append((src, outp, e.msg))
            if bad:
                ob.violated(f"integer-literal:leading-zero", {"lexeme": lex}, {"src": bad[0][0], "output": bad[0][1]},
                            f"{bad[0][0]!r} is emitted as {bad[0][1].strip()!r}: SyntaxError: {bad[0][2]}")
            else:
                ob.inconclusive(f"solver: lexeme {lex!r} is emitted as an invalid Python integer, but the transpiled programs parse")
        else:
            ob.inconclusive(f"solver answered {r} ({sol.reason_unknown()})")
    except Unsupported as e:
        ob.inconclusive(str(e))


def ob_printer(run, mir, rp):
    ob1 = run.ob("printer-indentation-affine", "E2+z3", "every arm of to_py, newline_if_body and the line closure of newline_delimited: each run of "
                 "spaces the printer emits is exactly 4*(ind+k) spaces for a constant k in {-1,0,1,2}, for every indentation level ind <= 2^20, "
                 "and every other piece is a literal, a string field or the rendering of a named child at level ind+k", ["to_py (every arm)", "newline_if_body", "newline_delimited::{closure}", "indent"])
    ob2 = run.ob("printer-statements-valid-python", "E2+python-ast", "the templates of every MIR path, composed on every statement tree up to the nesting "
                 "bound, give text that Python parses, and parses to the AST the Core tree means (block structure, clause order, which child "
                 "is condition / target / body / handler)", ["to_py (every arm)"])
    try:
        pm = printkern.PrinterModel(run, mir, ALL_KINDS)
        if pm.unknown:
            ob1.inconclusive(f"arms with pieces or conditions outside the text model: {pm.unknown}")
        else:
            ob1.discharged(f"{pm.paths} MIR paths over {len(ALL_KINDS)} node kinds: all pieces classified, indentation offsets proved for all levels", 0, pm.paths)
            ob1.reach = "sat"
        trees = programs(run.tier)
        bad, mism, n = [], [], 0
        for t in trees:
            try:
                text = pm.render(t, 0)
            except Unsupported as e:
                mism.append((t, f"model: {e}"))
                continue
            n += 1
            why = judge(text, t)
            if why:
                bad.append((t, text, why))
        run.paths += n
        # translator validation: the model's text is the real printer's text
        val_n = 0
        sample = trees if run.tier != "quick" else trees[::3] + [b[0] for b in bad[:20]]
        for t in sample:
            st, real = rp.req("core", common.hexs(printkern.to_sexpr(t)))
            val_n += 1
            try:
                mine = pm.render(t, 0)
            except Unsupported:
                continue
            if st != "OK" or real.rstrip("\n") != mine.rstrip("\n"):
                mism.append((t, f"real printer {st}: {real[:120]!r} vs model {mine[:120]!r}"))
        run.validated += val_n
        run.samples.append({"obligation": ob2.id, "trees": n, "paths": pm.paths, "compared_with_real_printer": val_n,
                            "example": pm.render(trees[0], 0)[:200] if trees else ""})
        if mism:
            ob2.inconclusive(f"the printer model disagrees with the real printer on {len(mism)} trees: {mism[0][1][:300]}")
        elif not bad:
            ob2.discharged(f"{n} statement trees: all parse to the Python AST they mean", 0, n)
            ob2.reach = "sat"
        else:
            # replay: the real printer on the same tree
            t, text, why = bad[0]
            st, real = rp.req("core", common.hexs(printkern.to_sexpr(t)))
            rwhy = judge(real + "\n", t) if st == "OK" else f"{st} {real[:100]}"
            if rwhy:
                kinds = sorted({x for x in re.findall(r"'k': '(\w+)'", str(t)) if x in STMT_KINDS})
                ob2.violated(f"printer:{'+'.join(kinds)[:60]}", {"tree": printkern.to_sexpr(t), "failing_trees": len(bad)},
                             {"sexpr": printkern.to_sexpr(t), "real_output": real}, f"Core tree {printkern.to_sexpr(t)[:200]} is printed as {real[:200]!r}: {rwhy}")
            else:
                ob2.inconclusive(f"model text {text[:120]!r} is rejected ({why}) but the real printer's output for the same tree is fine")
    except Unsupported as e:
        for o in (ob1, ob2):
            if o.status == "pending":
                o.inconclusive(str(e))


def ob_empty_bodies(run, mir, rp):
    """The converter never hands the printer an empty body."""
    ob = run.ob("empty-bodies-filled", "E2", "a function without body is given `pass` (convert_def), a class whose body ends up empty is given "
                "`pass` (extract_class) and a synthesised constructor is only built when it has statements (init)",
                ["convert_def (FunDef)", "extract_class", "init"])
    try:
        import convkern
        claims = []
        ex_last = None
        # convert_def: body None -> Pass
        arm = convkern.Arm(run, mir, "convert_def", "src/generate/convert/definition.rs", "FunDef")
        n_fd = 0
        for p in arm.ends:
            if not (p.kind == "return" and isinstance(p.ret, Agg) and p.ret.variant == "Ok" and isinstance(p.ret.fields[0], Agg)):
                continue
            core = p.ret.fields[0]
            if core.variant not in ("FunDef", "FunDefOp"):
                continue
            n_fd += 1
            b = core.fields[list(core.names).index("body")]
            is_pass = isinstance(b, Agg) and b.variant == "Pass"
            has_body = arm.ex.discr(p.state, arm.kids["body"], "Option") == 1
            claims.append((arm.ex, z3.Implies(conj(p.cond), z3.Or(z3.BoolVal(is_pass), has_body))))
        if not n_fd:
            raise Unsupported("convert_def: no FunDef path")
        # init: Some(FunDef) only with statements
        from props import C17
        NODE_RS = printkern.NODE_RS
        fn = e2.find1(mir, file="src/generate/convert/class.rs", name="init")
        ex = Exec(mir, max_paths=20000)
        st = State()
        args = [Ref(ex.new_cell(st, Opq(z3.Const("old_init", Val), "Option<&Core>"))), Ref(ex.new_cell(st, Opq(z3.Const("class_args", Val), "[Core]"))),
                Ref(ex.new_cell(st, Opq(z3.Const("parents", Val), "[Core]")))]
        ends = e2.run_kernel(run, ex, fn, args, st)
        n_some = 0
        for p in ends:
            if p.kind != "return" or not (isinstance(p.ret, Agg) and p.ret.variant == "Ok"):
                continue
            r = p.ret.fields[0]
            if isinstance(r, Agg) and r.variant == "Some":
                n_some += 1
                fd = r.fields[0]
                body = fd.fields[list(fd.names).index("body")]
                stmts = body.fields[0] if isinstance(body, Agg) and body.variant == "Block" else None
                if not isinstance(stmts, Seq):
                    claims.append((ex, z3.BoolVal(False)))
                    continue
                claims.append((ex, z3.Implies(conj(p.cond), stmts.length() != 0)))
        if not n_some:
            raise Unsupported("init: no constructor path")
        # extract_class: the statements of the emitted ClassDef are `[pass]` or a non-empty collection
        fn = e2.find1(mir, file="src/generate/convert/class.rs", name="extract_class")
        ex2 = Exec(mir, max_paths=60000)
        st2 = State()
        a2 = []
        for an, aty in fn.args:
            t = aty.strip()
            a2.append(Ref(ex2.new_cell(st2, Opq(z3.Const(f"x{an}", Val), t.lstrip("&").replace("mut ", "").strip()))) if t.startswith("&") and not t.startswith("&[") else Opq(z3.Const(f"x{an}", Val), t))
        ends2 = e2.run_kernel(run, ex2, fn, a2, st2)
        n_cls = 0
        for p in ends2:
            if p.kind != "return" or not (isinstance(p.ret, Agg) and p.ret.variant == "Ok" and isinstance(p.ret.fields[0], Agg)):
                continue
            cd = p.ret.fields[0]
            if cd.variant != "ClassDef":
                continue
            n_cls += 1
            body = cd.fields[list(cd.names).index("body")]
            stmts = body.fields[0] if isinstance(body, Agg) and body.variant == "Block" else None
            if isinstance(stmts, Seq) and len(stmts.parts) == 1 and stmts.parts[0][0] == "item" and isinstance(stmts.parts[0][1], Agg) and stmts.parts[0][1].variant == "Pass":
                continue
            # otherwise the path condition must say that the collected statements are not empty
            sv = ex2.to_val(p.state, stmts) if stmts is not None else None
            nonempty = False
            if sv is not None:
                for c in p.cond:
                    c = z3.simplify(c)
                    if z3.is_not(c) and z3.is_eq(c.arg(0)) and str(c.arg(0).arg(0).decl().name()) in ("seq:len", "len") and \
                            z3.eq(c.arg(0).arg(0).arg(0), z3.simplify(sv)):
                        nonempty = True
                    if z3.is_not(c) and "is_empty" in str(c.arg(0).decl().name()) and z3.eq(c.arg(0).arg(0), z3.simplify(sv)):
                        nonempty = True
            claims.append((ex2, z3.Implies(conj(p.cond), z3.BoolVal(nonempty))))
        if not n_cls:
            raise Unsupported("extract_class: no ClassDef path")
        bad = 0
        for exx, cl in claims:
            r, m, dt, _ = e2.solve(exx, [z3.Not(cl)])
            ob.solver_s += dt
            ob.queries += 1
            if r != z3.unsat:
                bad += 1
        ob.reach = "sat"
        run.samples.append({"obligation": ob.id, "fundef_paths": n_fd, "constructor_paths": n_some, "classdef_paths": n_cls})
        if not bad:
            ob.discharged(f"unsat for {len(claims)} path claims")
        else:
            progs = ["class A\n", "class A: B\nclass B\n", "type T\n    def f(x: Int) -> Int\n", "class A(def x: Int)\n", "def f(x: Int) -> Int\n"]
            broken = []
            for src in progs:
                stt, out = rp.transpile(src)
                if stt == "OK":
                    try:
                        ast.parse(out)
                    except SyntaxError as e:
                        broken.append((src, out, e.msg))
            if broken:
                ob.violated("empty-body", {"claims_failed": bad}, {"src": broken[0][0], "output": broken[0][1]}, f"{broken[0][0]!r} is emitted as {broken[0][1]!r}: SyntaxError {broken[0][2]}")
            else:
                ob.inconclusive(f"{bad} path claims fail but the programs with empty bodies are emitted as valid Python")
    except Unsupported as e:
        ob.inconclusive(str(e))


def ob_ternary_operands(run, mir, rp):
    ob = run.ob("ternary-operands-are-expressions", "E2", "is_valid_in_ternary(then, el) - the test that lets an if/else be emitted as a Python "
                "conditional expression - is true exactly when neither branch is a block or a raise statement (both would be statements in "
                "expression position)", ["is_valid_in_ternary"])
    try:
        fn = e2.find1(mir, file="src/generate/convert/control_flow.rs", name="is_valid_in_ternary")
        ex = Exec(mir, max_paths=2000)
        st = State()
        import convkern
        kinds = ex.enum_variants("NodeTy")
        dt, de = z3.Int("then.kind"), z3.Int("el.kind")
        mk = lambda tag, d: e2.mk_struct(convkern.AST_RS, "ASTTy", {"pos": Opq(z3.Const(tag + ".pos", Val), "Position"),
                                                                   "node": Opq(z3.Const(tag + ".node", Val), "NodeTy", {("d",): d}),
                                                                   "ty": Opq(z3.Const(tag + ".ty", Val), "Option<Name>")})
        then, el = mk("then", dt), mk("el", de)
        ends = e2.run_kernel(run, ex, fn, [Ref(ex.new_cell(st, then)), Ref(ex.new_cell(st, el))], st)
        stmt = lambda d: z3.Or(d == kinds.index("Block"), d == kinds.index("Raise"))
        claims = []
        for p in ends:
            if p.kind != "return" or not z3.is_bool(p.ret):
                raise Unsupported(f"unexpected path end {p}")
            claims.append(z3.Implies(conj(p.cond), p.ret == z3.And(z3.Not(stmt(dt)), z3.Not(stmt(de)))))
        hyp = [dt >= 0, dt < len(kinds), de >= 0, de < len(kinds)]

        def replay(model):
            progs = ["def f(x: Int) -> Int raise [Exception] => if x < 0 then raise Exception(\"negative\") else x\nprint(f(1))",
                     "def f(x: Int) -> Int raise [Exception] => if x > 0 then x else raise Exception(\"negative\")\nprint(f(1))",
                     "def f(x: Int) -> Int =>\n    if x > 0 then\n        def y := x\n        y\n    else\n        0\nprint(f(1))"]
            bad = []
            for src in progs:
                for ann in (False, True):
                    stt, out = rp.transpile(src, ann)
                    if stt != "OK":
                        continue
                    try:
                        ast.parse(out)
                    except SyntaxError as e:
                        bad.append((src, out, e.msg))
            if bad:
                return {"reproduced": True, "role": "ternary-operand-statement", "detail": f"{bad[0][0]!r} is emitted as {bad[0][1][:160]!r}: SyntaxError {bad[0][2]}"}
            return {"reproduced": False, "detail": f"{len(progs)} programs with statement branches are emitted as valid Python"}
        e2.prove(run, ob, ex, hyp, conj(claims), {"then.kind": dt, "el.kind": de}, replay)
    except Unsupported as e:
        ob.inconclusive(str(e))


INTERPOLATIONS = [
    # (role, Mamba program, stdout the Mamba text means)
    ("mod", "print(\"{5 mod 2}\")", "1"),
    ("sqrt", "def a := 16\nprint(\"{sqrt a}\")", "4.0"),
    ("equality", "def a := 3\nprint(\"{a = 3}\")", "True"),
    ("inequality", "def a := 3\nprint(\"{a /= 3}\")", "False"),
    ("string-literal", "print(\"a {\"b\"}\")", "a b"),
    ("power", "def a := 3\nprint(\"{a ^ 2}\")", "9"),
    ("plain-name", "def a := 3\nprint(\"v={a}\")", "v=3"),
    ("arithmetic", "def a := 3\nprint(\"{a} and {a + 1}\")", "3 and 4"),
    ("index", "def a := [1, 2]\nprint(\"{a[0]}\")", "1"),
    ("not", "def a := True\nprint(\"{not a}\")", "False"),
    ("floor-division", "def a := 7\nprint(\"{a // 2}\")", "3"),
]


def ob_interpolation(run, mir, rp, mode="syntax"):
    """The expressions inside a string's {..} are Mamba expressions: they have to go through the converter like any other."""
    import convkern
    from props import C01
    ob = run.ob("interpolations-converted", "E2", "convert_node, Str arm with interpolated expressions: the text of the emitted f-string is built from the "
                "conversions of the interpolated expressions (each is handed to convert_node / convert_vec) - not a copy of the Mamba source text "
                "between the braces, which need not be Python (`mod`, `sqrt`, `=`, `/=`, nested quotes) or means something else (`^`)",
                ["convert_node (Str)"])
    try:
        arm = convkern.Arm(run, mir, "convert_node", "src/generate/convert/mod.rs", "Str")
    except Unsupported as e:
        return ob.inconclusive(f"Str arm not encodable: {e}")
    ex = arm.ex
    claims, n = [], 0
    lit = ex.to_val(arm.st, arm.kids["lit"])
    exprs = ex.to_val(arm.st, arm.kids["expressions"])
    copies = 0
    for p in arm.ends:
        if not (p.kind == "return" and isinstance(p.ret, Agg) and p.ret.variant == "Ok"):
            continue
        post = [ev for ev in p.events if ev["name"].split("::")[-1] in ("append_assign", "append_ret")]
        core = p.ret.fields[0]
        if post:
            a0 = post[0]["args"][0]
            core = ex.read_ref(p.state, a0) if isinstance(a0, Ref) else a0
        if not (isinstance(core, Agg) and core.variant == "FStr"):
            continue
        n += 1
        conv = [ev for ev in p.events if ev["name"].split("::")[-1] in ("convert_node", "convert_vec") and
                any(exprs.get_id() in {t.get_id() for t in _subterms(a)} for a in ev["argvals"][:1])]
        is_copy = z3.eq(ex.to_val(p.state, core.fields[0]), lit)
        copies += bool(is_copy)
        claims.append(z3.Implies(conj(p.cond), z3.BoolVal(bool(conv) and not is_copy)))
    if not n:
        return ob.inconclusive("no path of the Str arm builds an f-string")

    def replay(model):
        bad = []
        for role, src, want in INTERPOLATIONS:
            st_, out = rp.transpile(src)
            if st_ != "OK":
                bad.append((role, f"{src!r}: {st_} {out[:80]!r}"))
                continue
            try:
                ast.parse(out)
            except SyntaxError as e:
                bad.append((role, f"{src!r} is emitted as {out.strip()!r}, which Python refuses: {e}"))
                continue
            if mode == "meaning":
                rc, so, se = C01.py_run(out)
                if rc != 0 or so.strip() != want:
                    bad.append((role, f"{src!r} is emitted as {out.strip()!r}, which prints {so.strip()!r} (rc={rc}) instead of {want!r}"))
        if bad:
            return {"reproduced": True, "role": "interpolation-copied-verbatim:" + "+".join(b[0] for b in bad), "detail": bad[0][1], "failing": [b[0] for b in bad]}
        return {"reproduced": False, "detail": f"{len(INTERPOLATIONS)} interpolations are valid Python" + (" with the Mamba meaning" if mode == "meaning" else "")}
    e2.prove(run, ob, ex, [], conj(claims), {}, replay)
    if ob.status == "discharged":
        rep = replay({})
        run.validated += len(INTERPOLATIONS)
        if rep["reproduced"]:
            ob.status = "pending"
            ob.inconclusive("interpolations misbehave although the kernel converts them: " + rep["detail"][:300])
    run.samples.append({"obligation": ob.id, "fstring_paths": n, "paths_that_copy_the_source_text": copies})


def _subterms(t):
    seen, stack = {}, [t]
    while stack:
        x = stack.pop()
        if x.get_id() in seen:
            continue
        seen[x.get_id()] = x
        stack.extend(x.children())
    return list(seen.values())


def run(run):
    mir = e2.load_mir(run)
    rp = common.Replay()
    run.assume("recursive renderings are uninterpreted in each arm and composed by the model; comma_delimited joins the renderings of its items "
               "with ', ' (contract; compared with the real printer on every tree)",
               "blocks are never empty (the parser builds no empty block; the converter's own empty bodies are checked below)",
               "statement trees up to the nesting bound; expression slots hold identifiers (operand delimiting is C10's subject)",
               "outside: what the lexer hands through inside string literals, comprehension / dictionary printing, files and encodings")
    run.trusted += ["rustc nightly MIR dump", "mirsym MIR semantics + text model", "z3", "CPython ast (syntax and meaning oracle)"]
    run.bounds = {"indentation_level": f"<= {printkern.MAXIND} (symbolic)", "nesting": "compound statements nested 2 deep (quick) / 3 deep (thorough)"}

    ob_printer(run, mir, rp)
    ob_empty_bodies(run, mir, rp)
    ob_literals(run, mir, rp)
    ob_ternary_operands(run, mir, rp)
    ob_interpolation(run, mir, rp, "syntax")
    rp.close()
    # an operand that needs delimiting and does not get it can be a syntax error too (`a == not b`): the C10 machinery with
    # "Python refuses the text" as the only failure
    try:
        from props import C10
        C10.run(run, syntax_only=True)
    except Unsupported as e:
        run.ob("operands-delimited-syntax-encoding", "E3+E2", "printer kernels encodable").inconclusive(str(e))
