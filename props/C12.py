"""C12 — determinism, restricted to the two places where the generator iterates over hash-ordered collections (E2 + z3)."""
import re
import z3

import common
import e2
from e2 import conj, disj
from mirsym import Exec, State, Opq, Agg, Ref, StrC, Seq, Val, Unsupported

LEVEL = "model_checking"
EXPLANATION = ("Class bodies are re-ordered through a HashMap keyed by name and then sorted by a recorded position: the output is "
               "independent of the hash seed iff no two statements (and not the synthesised constructor) can get the same position. "
               "The position arithmetic is extracted from the MIR of the closures of extract_class and z3 decides distinctness for "
               "all statement indices below 2^20; a collision is replayed by transpiling a class of that shape in fresh processes "
               "(fresh hash seeds) and comparing the bytes. Union types are rendered from a sorted iteration (term shape of "
               "Name::to_py / StringName::to_py).")

CLASS_RS = "src/generate/convert/class.rs"
NAME_RS = "src/generate/name.rs"
MAXI = 1 << 20
PROCS = 12


def closure_by_sig(mir, outer, argty, ret=None):
    out = []
    for n, f in mir.fns.items():
        if n.startswith(outer + "::{closure#") and n.count("{closure#") == 1 and len(f.args) == 2 and \
                f.args[1][1].replace(" ", "") == argty.replace(" ", "") and (ret is None or f.ret.replace(" ", "") == ret.replace(" ", "")):
            out.append(f)
    if len(out) != 1:
        raise Unsupported(f"closure of {outer} with argument {argty}: {len(out)} candidates")
    return out[0]


def class_program(kinds, with_arg):
    """kinds: list of 'F' | 'V' per body statement."""
    lines = ["class A(def y: Int)" if with_arg else "class A"]
    for k, kd in enumerate(kinds):
        ops = ["+", "-", "*", "/", "//", "^", "mod", ">", "<"]
        lines.append({"F": f"    def f{k}(self) -> Int => {k}", "V": f"    def x{k}: Int := {k}", "D": f'    """doc {k}"""',
                      "O": f"    def {ops[k % len(ops)]} (self, other: A) -> Int => {k}"}[kd])
    lines.append("def a := A(2)" if with_arg else "def a := A()")
    return "\n".join(lines) + "\n"


_BIN = []


def fresh(annotate_src):
    """One transpilation in a fresh process (fresh hash seeds) of the replay server built from the current tree."""
    if not _BIN:
        _BIN.append(common.build_replay())
    rp = common.Replay(_BIN[0])
    try:
        return rp.transpile(*annotate_src)
    finally:
        rp.close()


def outputs_in_fresh_processes(src, n=PROCS):
    return [fresh((src, False)) for _ in range(n)]


def shapes_family(max_len=3):
    import itertools
    fam = []
    for n in range(1, max_len + 1):
        for kinds in itertools.product("FVDO", repeat=n):
            for with_arg in (False, True):
                fam.append(("".join(kinds) + ("+arg" if with_arg else ""), class_program(kinds, with_arg)))
    return fam


def nondeterministic(src, n=PROCS):
    outs = outputs_in_fresh_processes(src, n)
    return len({o for o in outs}) > 1, outs


def run(run):
    mir = e2.load_mir(run)
    run.assume("HashMap iteration order is arbitrary (that is the point): the only protection is the sort by recorded position, and "
               "itertools' sorted_by_key is stable, so equal positions let the hash order through",
               "statement indices < 2^20; statement kinds FunDef / FunDefOp / VarDef / anything else as the closure distinguishes them",
               "outside: duplicate keys in the map (two statements with the same name overwrite each other), hash-ordered iteration "
               "in the checker (diagnostic order, is_temporary / args() on the first element of a set), threads, time")
    run.trusted += ["rustc nightly MIR dump", "mirsym MIR semantics", "z3"]
    run.bounds = {"statement_index": f"< {MAXI}", "replay_processes": PROCS}

    ob = run.ob("class-body-positions-distinct", "E2+z3", "extract_class: the positions recorded for two different body statements, and the "
                "position computed for a synthesised constructor, are never equal (otherwise the stable sort hands the HashMap's "
                "iteration order through to the output)", ["extract_class::{closure} (position of a statement)",
                                                          "extract_class::{closure} (constructor position)", "extract_class"])
    try:
        f_pos = closure_by_sig(mir, "extract_class", "(usize,&Core)")
        f_init = closure_by_sig(mir, "extract_class", "&(usize,Core)", "usize")
        ex = Exec(mir, max_paths=2000)
        core_kinds = ex.enum_variants("Core")

        def pos_fn(tag):
            st = State()
            i = z3.BitVec(f"{tag}.index", 64)
            d = z3.Int(f"{tag}.kind")
            stmt = Opq(z3.Const(f"{tag}.stmt", Val), "Core", {("d",): d})
            env = Ref(ex.new_cell(st, Agg("closure", f_pos.args[0][1], [])))
            arg = Agg("tuple", None, [i, Ref(ex.new_cell(st, stmt))])
            ends = e2.run_kernel(run, ex, f_pos, [env, arg], st)
            term = z3.BitVecVal(0, 64)
            dom = []
            for p in ends:
                if p.kind == "panic":
                    continue            # index + 2 overflow: indices are < 2^20
                if p.kind != "return" or not isinstance(p.ret, Agg) or len(p.ret.fields) != 2 or not isinstance(p.ret.fields[1], Agg):
                    raise Unsupported(f"position closure: unexpected result {p.ret}")
                pos = p.ret.fields[1].fields[0]
                if not z3.is_bv(pos):
                    raise Unsupported(f"position is not an integer term: {pos}")
                term = z3.If(conj(p.cond), pos, term)
                dom.append(conj(p.cond))
            return i, d, term, disj(dom)

        ia, da, pa, doma = pos_fn("a")
        ib, db, pb, domb = pos_fn("b")
        # constructor position = (position of a VarDef) + 1, from the closure that is mapped over the filtered values
        st = State()
        pv = z3.BitVec("var.position", 64)
        envi = Ref(ex.new_cell(st, Agg("closure", f_init.args[0][1], [])))
        ends = e2.run_kernel(run, ex, f_init, [envi, Ref(ex.new_cell(st, Agg("tuple", None, [pv, Opq(z3.Const("var.stmt", Val), "Core")])))], st)
        rets = [p for p in ends if p.kind == "return"]
        if len(rets) != 1 or not z3.is_bv(rets[0].ret):
            raise Unsupported("constructor position closure: unexpected shape")
        init_of = lambda v: z3.substitute(rets[0].ret, (pv, v))
        KF, KO, KV, KD = core_kinds.index("FunDef"), core_kinds.index("FunDefOp"), core_kinds.index("VarDef"), core_kinds.index("DocStr")
        kinds_ok = lambda d: z3.Or(d == KF, d == KV, d == KD, d == KO)
        md = re.search(r"\.max\(\)\s*\.unwrap_or\((\d+)\)", common.read_repo(CLASS_RS))
        if not md:
            raise Unsupported("default constructor position (max().unwrap_or(N)) not found in extract_class")
        default_init = z3.BitVecVal(int(md.group(1)), 64)
        bounds = [z3.ULT(ia, MAXI), z3.ULT(ib, MAXI), doma, domb, kinds_ok(da), kinds_ok(db), ia != ib]
        small = [z3.ULE(ia, 3), z3.ULE(ib, 3)]
        # A: two statements collide;  B: the synthesised constructor (after the last variable `b`) collides with statement `a`;
        # C: without variables the constructor gets the default position, which collides with statement `a`
        qa = bounds + [pa == pb]
        qb = bounds + [db == KV, z3.Or(da != KV, z3.ULT(ia, ib)), pa == init_of(pb)]
        qc = bounds + [da != KV, db != KV, pa == default_init]
        found = None
        for label, q in (("two-statements", qa), ("constructor", qb), ("default-constructor", qc)):
            r0, _m, dt0, _ = e2.solve(ex, bounds)
            r, m, dt, _s = e2.solve(ex, q)
            ob.solver_s += dt0 + dt
            ob.queries += 2
            ob.reach = str(r0)
            if r0 != z3.sat:
                raise Unsupported("vacuous: no two statements within the bounds")
            if r == z3.unsat:
                continue
            if r != z3.sat:
                raise Unsupported(f"solver answered {r}")
            r2, m2, dt2, _ = e2.solve(ex, q + small)
            ob.solver_s += dt2
            ob.queries += 1
            if r2 == z3.sat:
                m = m2
            found = (label, m)
            break
        run.samples.append({"obligation": ob.id, "position(statement a)": str(z3.simplify(pa))[:300], "constructor position": str(rets[0].ret)})
        if found is None:
            ob.discharged("unsat: positions are pairwise distinct for all indices < 2^20 (both queries)")
        else:
            label, m = found
            i_, j_ = m.eval(ia, model_completion=True).as_long(), m.eval(ib, model_completion=True).as_long()
            kname = {KV: "V", KD: "D", KO: "O"}
            ka = kname.get(m.eval(da, model_completion=True).as_long(), "F")
            kb = kname.get(m.eval(db, model_completion=True).as_long(), "F")
            witness = {"query": label, "a": {"index": i_, "kind": ka}, "b": {"index": j_, "kind": kb},
                       "position_a": m.eval(pa, model_completion=True).as_long(), "position_b": m.eval(pb, model_completion=True).as_long()}
            if max(i_, j_) > 8:
                ob.inconclusive(f"collision {witness} needs a class body too long to replay")
            else:
                n = max(i_, j_) + 1
                kinds = ["F"] * n
                kinds[i_], kinds[j_] = ka, kb
                src = class_program(kinds, with_arg=(label != "two-statements"))
                nd, outs = nondeterministic(src)
                if nd:
                    a_, b_ = sorted({o for o in outs})[:2]
                    ob.violated(f"class-body-order:{label}:{''.join(kinds)}", witness, {"src": src, "output_1": a_[1][:600], "output_2": b_[1][:600]},
                                f"class {src!r} is emitted in {len({o for o in outs})} different statement orders over {PROCS} fresh processes")
                else:
                    ob.inconclusive(f"solver found colliding positions {witness} but {PROCS} fresh processes emit identical bytes for {src!r}")
    except Unsupported as e:
        ob.inconclusive(str(e))

    ob2 = run.ob("union-rendered-sorted", "E2", "Name::to_py / StringName::to_py: the members of a union are rendered from `sorted()` "
                 "of the hash set, never from the set's own iteration order", ["Name::to_py", "StringName::to_py"])
    try:
        claims, n_union = [], 0
        for impl, variant_hint in (("impl ToPy for Name", None), ("impl ToPy for StringName", None)):
            fn = e2.find1(mir, file=NAME_RS, impl=impl, name="to_py")
            ex2 = Exec(mir, max_paths=5000)
            st = State()
            selfv = Ref(ex2.new_cell(st, Opq(z3.Const("self", Val), impl.split(" for ")[1])))
            imp = Ref(ex2.new_cell(st, Opq(z3.Const("imp", Val), "Imports")))
            ends = e2.run_kernel(run, ex2, fn, [selfv, imp], st)
            for p in ends:
                if p.kind not in ("return", "panic"):
                    raise Unsupported(f"unexpected path end {p}")
                names = [ev["name"] for ev in p.events]
                consumers = [ev for ev in p.events if ev["name"].split("::")[-1] in ("map", "fold", "collect", "for_each")]
                iters = [ev for ev in p.events if ev["name"].split("::")[-1] == "iter"]
                multi = [ev for ev in consumers if ev["name"].split("::")[-1] in ("map", "fold")]
                if not multi:
                    continue
                n_union += 1
                srt = [ev for ev in p.events if ev["name"].split("::")[-1] == "sorted"]
                ok = False
                for c in multi:
                    a0 = c["argvals"][0]
                    if any(z3.eq(a0, ex2.to_val(p.state, s_["ret"])) for s_ in srt):
                        ok = True
                claims.append(z3.Implies(conj(p.cond), z3.BoolVal(ok)))
        if not n_union:
            raise Unsupported("no path renders several members")

        def replay(model):
            src = "def a := if True then 10 else \"s\"\ndef b := if True then \"s\" else 10\n"
            outs = [fresh((src, True)) for _ in range(PROCS)]
            if len(set(outs)) > 1:
                return {"reproduced": True, "role": "union-order", "detail": f"{src!r} annotated differently over {PROCS} fresh processes: {sorted(set(o[1] for o in outs))[:2]}"}
            return {"reproduced": False, "detail": f"{PROCS} fresh processes emit identical bytes"}
        e2.prove(run, ob2, ex2, [], conj(claims), {}, replay)
    except Unsupported as e:
        ob2.inconclusive(str(e))

    ob3 = run.ob("name-hash-canonical", "E2", "Hash for Name: the members of a union are fed to the hasher in the order of a key that is the "
                 "member's whole variant (class name AND generics) - a coarser key lets equal names hash differently from one hash seed to "
                 "the next, and look-ups of types that contain such a union then miss at random", ["<Name as Hash>::hash", "its sort-key closure"])
    try:
        NAME_MOD = "src/check/name/mod.rs"
        TRUE_RS = "src/check/name/true_name/mod.rs"
        cl = [f for n, f in mir.fns.items() if "::hash::{closure#" in n and f.impl_at and f.impl_at[0].endswith(NAME_MOD) and len(f.args) == 2
              and "TrueName" in f.args[1][1] and f.ret.strip() != "()"]
        if len(cl) != 1:
            raise Unsupported(f"sort-key closure of Hash for Name: {len(cl)} candidates")
        ex3 = Exec(mir, max_paths=200)
        st3 = State()
        tn = e2.rust_struct(TRUE_RS, "TrueName")
        member = e2.mk_struct(TRUE_RS, "TrueName", {f: (z3.Bool("m." + f) if f.startswith("is_") else Opq(z3.Const("m." + f, Val), "StringName")) for f in tn})
        mref = Ref(ex3.new_cell(st3, member))
        env = Ref(ex3.new_cell(st3, Agg("closure", cl[0].args[0][1].lstrip("&").replace("mut ", "").strip(), [])))
        arg = Ref(ex3.new_cell(st3, mref)) if cl[0].args[1][1].strip().startswith("&&") else mref
        ends3 = e2.run_kernel(run, ex3, cl[0], [env, arg], st3)
        rets = [p for p in ends3 if p.kind == "return"]
        if len(rets) != 1:
            raise Unsupported(f"sort-key closure: {len(rets)} return paths")
        key = rets[0].ret
        keyv = ex3.read_ref(rets[0].state, key) if isinstance(key, Ref) else key
        want = member.fields[tn.index("variant")]
        try:
            claim = ex3.to_val(rets[0].state, keyv) == ex3.to_val(rets[0].state, want)
        except Exception:
            claim = z3.BoolVal(False)

        def replay3(model):
            src = "def keep(entry: (Str, {List[Int], List[Str]})) -> (Str, {List[Int], List[Str]}) => entry\n"
            outs = [fresh((src, False))[0] for _ in range(2 * PROCS)]
            if len(set(outs)) > 1:
                return {"reproduced": True, "role": "name-hash:same-class-different-generics",
                        "detail": f"{src!r}: verdicts over {2 * PROCS} fresh processes: { {o: outs.count(o) for o in set(outs)} }"}
            return {"reproduced": False, "detail": f"{2 * PROCS} fresh processes give the same verdict ({outs[0]})"}
        e2.prove(run, ob3, ex3, [], claim, {}, replay3)
    except Unsupported as e:
        ob3.inconclusive(str(e))

    ob4 = run.ob("member-lookup-unique", "E2+z3", "Class::field / Class::fun pick a member with `iter().find(..)` over a hash set, which is order-independent only "
                 "if at most one member matches: Class::inherit (the only place that merges two member sets) keeps a parent's member only when "
                 "`all` own members differ from it in a key, and two members that agree in what `find` compares agree in that key (fields: the name, "
                 "not the whole Field with its type; functions: the bare name)", ["Class::inherit::{closure}s", "Class::field::{closure}", "Class::fun::{closure}"])
    try:
        CLSS = "src/check/context/clss/mod.rs"
        mine = {n: f for n, f in mir.fns.items() if f.impl_at and f.impl_at[0].endswith(CLSS) and "{closure#" in n}
        ex4 = Exec(mir, max_paths=500)
        cls_fields = e2.rust_struct(CLSS, "Class")

        def run_closure(f, captured, item):
            st_ = State()
            envty = f.args[0][1].strip()
            env = Agg("closure", envty.lstrip("&").replace("mut ", "").strip(), [Ref(ex4.new_cell(st_, captured))])
            a1 = f.args[1][1].strip()
            it = Ref(ex4.new_cell(st_, item))
            if a1.startswith("&&"):
                it = Ref(ex4.new_cell(st_, it))
            ends_ = e2.run_kernel(run, ex4, f, [Ref(ex4.new_cell(st_, env)) if envty.startswith("&") else env, it], st_)
            rets_ = [p for p in ends_ if p.kind == "return"]
            if len(rets_) != 1 or len(ends_) != 1:
                raise Unsupported(f"{f.name}: {len(ends_)} path ends")
            return rets_[0]
        class Merged:
            pass

        def run_bool(f, captured, item):
            """boolean closure with several paths -> one term (disjunction of path condition and result) + all events"""
            st_ = State()
            envty = f.args[0][1].strip()
            env = Agg("closure", envty.lstrip("&").replace("mut ", "").strip(), [Ref(ex4.new_cell(st_, captured))])
            it = Ref(ex4.new_cell(st_, item))
            if f.args[1][1].strip().startswith("&&"):
                it = Ref(ex4.new_cell(st_, it))
            ends_ = e2.run_kernel(run, ex4, f, [Ref(ex4.new_cell(st_, env)) if envty.startswith("&") else env, it], st_)
            if any(p.kind != "return" or not z3.is_bool(p.ret) for p in ends_):
                raise Unsupported(f"{f.name}: not a total boolean closure")
            m = Merged()
            m.ret = disj([z3.And(conj(p.cond), p.ret) for p in ends_])
            m.events = [(p, e_) for p in ends_ for e_ in p.events]
            return m
        claims4, n4 = [], 0
        for kind, setname, elemty, finder in (("field", "fields", "Field", "::field::{closure#0}"), ("function", "functions", "Function", "::fun::{closure#0}")):
            outer = [f for n, f in mine.items() if re.search(r"::inherit::\{closure#\d+\}$", n) and elemty in f.args[1][1]]
            find = [f for n, f in mine.items() if n.endswith(finder) and elemty in f.args[1][1]]
            if len(outer) != 1 or len(find) != 1:
                raise Unsupported(f"{kind}: {len(outer)} filter closures in inherit, {len(find)} find closures")
            inner = [f for n, f in mine.items() if n.startswith(outer[0].name + "::{closure#")]
            selfv, cand = Opq(z3.Const("self", Val), "Class"), Opq(z3.Const("candidate", Val), elemty)
            po = run_closure(outer[0], selfv, cand)
            alls = [e_ for e_ in po.events if e_["name"] == "Iterator::all"]
            ok_outer = False
            if len(alls) == 1 and len(inner) == 1:
                it = [e_ for e_ in po.events if e_["name"] == "HashSet::iter" and z3.eq(ex4.to_val(po.state, e_["ret"]), alls[0]["argvals"][0])]
                own_set = ex4.to_val(po.state, ex4.project(po.state, selfv, ("f", cls_fields.index(setname)), "HashSet"))
                clo = alls[0]["args"][1]
                ok_outer = (len(it) == 1 and z3.eq(it[0]["argvals"][0], own_set) and z3.is_expr(po.ret) and z3.eq(z3.simplify(po.ret), z3.simplify(alls[0]["ret"]))
                            and isinstance(clo, Agg) and clo.ty == "closure" and len(clo.fields) == 1
                            and z3.eq(ex4.to_val(po.state, clo.fields[0]), ex4.to_val(po.state, cand)))
            claims4.append(z3.BoolVal(bool(ok_outer)))
            n4 += 1
            if not ok_outer:
                continue
            # keys: inner(own, candidate) <=> key_inherit(own) != key_inherit(candidate); find(item, wanted) <=> key_find(item) == wanted
            a, b = Opq(z3.Const("a", Val), elemty), Opq(z3.Const("b", Val), elemty)
            pi = run_bool(inner[0], b, a)
            differ = pi.ret
            w = Opq(z3.Const("wanted", Val), "?")
            fa, fb = run_bool(find[0], w, a), run_bool(find[0], w, b)
            hit = lambda pp: pp.ret
            # two distinct members that `find` cannot tell apart (both match the same wanted key) are never merged: inherit sees them as equal in its key.
            # derived PartialEq of StringName / Field / Function is structural: eq(x, y) <=> x == y, ne(x, y) <=> x != y
            axioms = []
            for pp in (pi, fa, fb):
                for _p, e_ in pp.events:
                    if e_["name"].endswith("PartialEq::eq") and z3.is_bool(e_["ret"]):
                        axioms.append(e_["ret"] == (e_["argvals"][0] == e_["argvals"][1]))
                    elif e_["name"].endswith("PartialEq::ne") and z3.is_bool(e_["ret"]):
                        axioms.append(e_["ret"] == (e_["argvals"][0] != e_["argvals"][1]))
            claims4.append(z3.Implies(z3.And(hit(fa), hit(fb), *axioms), z3.Not(differ)))
            n4 += 1

        def replay4(model):
            bad = []
            for nm, src in (("field-redefined-with-another-type", "class Base\n    def label: Int := 1\n\nclass Derived: Base\n    def label: Str := \"one\"\n\ndef d := Derived()\ndef s: Str := d.label\n"),
                            ("method-redefined-with-another-result", "class Base\n    def get(self) -> Int => 1\n\nclass Derived: Base\n    def get(self) -> Str => \"one\"\n\ndef d := Derived()\ndef s: Str := d.get()\n")):
                outs = [fresh((src, False))[0] for _ in range(2 * PROCS)]
                if len(set(outs)) > 1:
                    bad.append((nm, f"{src!r}: verdicts over {2 * PROCS} fresh processes: { {o: outs.count(o) for o in set(outs)} }"))
            if bad:
                return {"reproduced": True, "role": "member-lookup:" + bad[0][0], "detail": bad[0][1]}
            return {"reproduced": False, "detail": f"{2 * PROCS} fresh processes give the same verdict for both programs"}
        e2.prove(run, ob4, ex4, [], conj(claims4), {}, replay4)
        run.samples.append({"obligation": ob4.id, "claims": n4})
    except Unsupported as e:
        ob4.inconclusive(str(e))

    ob5 = run.ob("substituted-union-canonical", "E2", "StringName::substitute: when a generic parameter is replaced by a union of several types, the sequence of "
                 "members put into the `Union[..]` name comes from a SORTED iteration of the set - two substitutions of the same union then build equal "
                 "names (each HashSet has its own seed: without the sort List[Union[Int, Str]] and List[Union[Str, Int]] meet in one run, are unequal, and "
                 "the fallback looks up a class `Union`, which is undefined)", ["<StringName as Substitute>::substitute"])
    try:
        fn5 = e2.find1(mir, file="src/check/name/string_name/mod.rs", impl="impl Substitute for StringName", name="substitute")
        ex5 = Exec(mir, max_paths=5000)
        st5 = State()
        ends5 = e2.run_kernel(run, ex5, fn5, [Ref(ex5.new_cell(st5, Opq(z3.Const("self", Val), "StringName"))),
                                              Ref(ex5.new_cell(st5, Opq(z3.Const("generics", Val), "HashMap<Name, Name>"))), Opq(z3.Const("pos", Val), "Position")], st5)
        claims5, n5 = [], 0
        for p in ends5:
            mk = [e_ for e_ in p.events if e_["name"] == "StringName::new"]
            if not mk:
                continue
            n5 += 1
            s_ = p.state
            direct = [e_ for e_ in p.events if e_["name"] == "Name::as_direct"]
            its = [e_ for e_ in p.events if e_["name"].split("::")[-1] in ("iter", "into_iter") and direct and z3.eq(e_["argvals"][0], ex5.to_val(s_, direct[0]["ret"]))]
            srt = [e_ for e_ in p.events if e_["name"].split("::")[-1] in ("sorted", "sorted_unstable")]
            maps = [e_ for e_ in p.events if e_["name"] == "Iterator::map"]
            ok = False
            if len(its) == 1 and len(maps) == 1:
                ok = any(z3.eq(s2["argvals"][0], ex5.to_val(s_, its[0]["ret"])) and z3.eq(maps[0]["argvals"][0], ex5.to_val(s_, s2["ret"])) for s2 in srt)
            claims5.append(z3.Implies(conj(p.cond), z3.BoolVal(bool(ok))))
        if not n5:
            raise Unsupported("no path builds a Union name")

        def replay5(model):
            bad = []
            for nm, src in (("list-of-union-printed", "def a := [1, \"a\"]\nprint(a)\n"), ("set-of-union-printed", "def a := {1, \"a\"}\nprint(a)\n")):
                outs = [fresh((src, False))[0] for _ in range(2 * PROCS)]
                if len(set(outs)) > 1:
                    bad.append((nm, f"{src!r}: verdicts over {2 * PROCS} fresh processes: { {o: outs.count(o) for o in set(outs)} }"))
            if bad:
                return {"reproduced": True, "role": "substituted-union:" + bad[0][0], "detail": bad[0][1]}
            return {"reproduced": False, "detail": f"{2 * PROCS} fresh processes give the same verdict"}
        e2.prove(run, ob5, ex5, [], conj(claims5), {}, replay5)
    except Unsupported as e:
        ob5.inconclusive(str(e))

    if run.clean():
        # translator validation: every class shape up to 3 statements, with and without class arguments, in fresh processes
        bad = []
        fam = shapes_family(2 if run.tier == "quick" else 3)
        for role, src in fam:
            nd, outs = nondeterministic(src, 4 if run.tier == "quick" else PROCS)
            run.validated += len(outs)
            if nd:
                bad.append(role)
        if bad:
            run.ob("family-class-shapes", "native", "class shapes are emitted identically in fresh processes").inconclusive(
                f"shapes {bad[:6]} differ between processes although no obligation has a counterexample")
