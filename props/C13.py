"""C13 — projects: all-or-nothing and mirrored layout, restricted to the driver kernels in src/lib.rs and src/io.rs (E2)."""
import os
import re
import shutil
import tempfile
import z3

import common
import e2
from e2 import conj, disj, calls, result_kind
from mirsym import Exec, State, Opq, Agg, Ref, StrC, Seq, Val, Unsupported

LEVEL = "model_checking"
EXPLANATION = ("transpile_dir and mamba_to_python are executed symbolically from MIR with the file system, the three pipeline stages and "
               "every iterator adaptor as uninterpreted functions that are recorded as events. z3 decides that a file is written only on "
               "paths whose condition entails that mamba_to_python returned Ok, that what is written where is the positional pairing of "
               "the generated sources with out_dir.join(relative path).with_extension(py), that mamba_to_python returns Ok only when all "
               "three error collections are empty, and that every stage runs over all files with one context (data-flow terms of the "
               "results). Models are replayed on real directories through transpile_dir.")

LIB_RS = "src/lib.rs"
IO_RS = "src/io.rs"


# ------------------------------------------------------------------------------------------------ native scenarios

GOOD_A = "def x := 1\nprint(x)\n"
GOOD_B = "def y: Int := 2\nprint(y)\n"
GOOD_C = "def z := \"s\"\nprint(z)\n"
BAD = {"type-error": "def y: Int := \"oops\"\n", "syntax-error": "def := := 3\n", "lexical-error": "def s := \"abc\n", }


def run_project(rp, files, src="src", target="out", annotate=False):
    """-> (status, message, {relative output path: content}, scratch dir removed afterwards)"""
    d = tempfile.mkdtemp(prefix="proj-", dir=common.scratch())
    try:
        for rel, content in files.items():
            pth = os.path.join(d, rel)
            os.makedirs(os.path.dirname(pth), exist_ok=True)
            with open(pth, "w") as fh:
                fh.write(content)
        st, msg = rp.req("project", common.hexs(d), common.hexs(src), common.hexs(target), 1 if annotate else 0)
        out = {}
        troot = os.path.join(d, target)
        for r, _ds, fs in os.walk(troot):
            for f in fs:
                with open(os.path.join(r, f), errors="replace") as fh:
                    out[os.path.relpath(os.path.join(r, f), troot)] = fh.read()
        return st, msg, out
    finally:
        shutil.rmtree(d, ignore_errors=True)


def ob_definitions_beat_stubs(run, mir, rp):
    ob = run.ob("definitions-beat-import-stubs", "E2", "context::generics, one statement of one file from an arbitrary loop state: a class / type definition is put into the set "
                "of known types so that it REPLACES an entry of the same name (HashSet::replace, or remove + insert), while the placeholder an import creates is only "
                "added when nothing of that name is there (HashSet::insert keeps the old entry) - whatever the order of the files, the definition wins over the stub",
                ["check::context::generic::generics (loop body)", "its import closure"])
    try:
        fn = e2.find1(mir, file="src/check/context/generic.rs", name="generics")
        ex = Exec(mir, max_paths=20000)
        st = State()
        ends = e2.run_kernel(run, ex, fn, [Opq(z3.Const("files", Val), "&[AST]")], st)
        claims, n_def = [], 0
        for p in ends:
            if p.kind != "loop_back":
                continue
            tf = [e_ for e_ in p.events if e_["name"] == "GenericClass.TryFrom::try_from"]
            if not tf:
                continue
            n_def += 1
            payload = ex.to_val(p.state, ex.project(p.state, ex.project(p.state, tf[-1]["ret"], ("v", "Ok")), ("f", 0), "GenericClass"))
            put = [e_ for e_ in p.events if e_["name"] in ("HashSet::insert", "HashSet::replace") and len(e_["argvals"]) > 1 and z3.eq(e_["argvals"][1], payload)]
            removed = [e_ for e_ in p.events if e_["name"] in ("HashSet::remove", "HashSet::take")]
            ok = len(put) == 1 and (put[0]["name"] == "HashSet::replace" or (removed and p.events.index(removed[0]) < p.events.index(put[0])))
            claims.append(z3.Implies(conj(p.cond), z3.BoolVal(bool(ok))))
        # the import closure: plain insert (an existing entry stays)
        cl = [f for n, f in mir.fns.items() if re.match(r"^(.*::)?generics::\{closure#\d+\}$", n)]
        n_stub = 0
        for f in cl:
            st2 = State()
            types = Ref(ex.new_cell(st2, Opq(z3.Const("types", Val), "HashSet<GenericClass>")))
            envty = f.args[0][1].strip()
            env = Agg("closure", envty.lstrip("&").replace("mut ", "").strip(), [types])
            try:
                ends2 = e2.run_kernel(run, ex, f, [Ref(ex.new_cell(st2, env)) if envty.startswith("&") else env, Opq(z3.Const("stub", Val), "GenericClass")], st2)
            except Unsupported:
                continue
            for p in ends2:
                ins = [e_ for e_ in p.events if e_["name"].startswith("HashSet::")]
                if not ins:
                    continue
                n_stub += 1
                claims.append(z3.Implies(conj(p.cond), z3.BoolVal(all(e_["name"] in ("HashSet::insert", "HashSet::contains") for e_ in ins))))
        if n_def < 2 or not n_stub:
            raise Unsupported(f"{n_def} definition paths, {n_stub} import-stub paths")

        def replay(model):
            lib = "class Point(def px: Int)\n    def dist(self) -> Int => self.px\n"
            use = "from {m} import Point\ndef p := Point(3)\nprint(p.px)\nprint(p.dist())\n"
            res = {}
            for libname, usename in (("b_lib", "a_use"), ("a_lib", "b_use")):
                st_, msg, out = run_project(rp, {f"src/{libname}.mamba": lib, f"src/{usename}.mamba": use.format(m=libname)})
                res[f"{usename}+{libname}"] = (st_, msg[:100] if st_ != "OK" else "")
            if len({v[0] for v in res.values()}) > 1:
                return {"reproduced": True, "role": "file-order:importer-before-definition", "detail": f"the same two files, presented in either order: {res}"}
            return {"reproduced": False, "detail": f"both orders of importer and definition get the same verdict ({list(res.values())[0][0]})"}
        e2.prove(run, ob, ex, [], conj(claims), {}, replay)
        if ob.status == "discharged":
            r_ = replay({})
            run.validated += 2
            if r_["reproduced"]:
                ob.status = "pending"
                ob.inconclusive("the verdict still depends on the order of the files: " + r_["detail"][:300])
        run.samples.append({"obligation": ob.id, "definition_paths": n_def, "stub_paths": n_stub})
    except Unsupported as e:
        ob.inconclusive(str(e))


def scenarios(rp):
    """[(role, ok?, detail)]"""
    res = []
    tree = {"src/a.mamba": GOOD_A, "src/sub/b.mamba": GOOD_B, "src/sub/deep/c.mamba": GOOD_C, "src/sub/notes.txt": "not mamba"}
    st, msg, out = run_project(rp, tree)
    want = {"a.py", "sub/b.py", "sub/deep/c.py"}
    res.append(("mirror-nested", st == "OK" and set(out) == want, f"status {st}, outputs {sorted(out)} (expected {sorted(want)}) {msg[:80]}"))
    base_out = dict(out)
    # each output belongs to its own source
    marks = {"a.py": "x = 1", "sub/b.py": "y = 2", "sub/deep/c.py": "z = \"s\""}
    res.append(("mirror-content", st == "OK" and all(marks[k] in out.get(k, "") for k in marks), f"outputs paired with the wrong sources: { {k: v[:30] for k, v in out.items()} }"))
    for kind, bad in BAD.items():
        for where in ("src/a.mamba", "src/sub/b.mamba", "src/sub/deep/c.mamba"):
            t = dict(tree)
            t[where] = bad
            st, msg, out = run_project(rp, t)
            rel = where[len("src/"):]
            res.append((f"all-or-nothing:{kind}:{rel}", st == "ERR" and not out and where in msg,
                        f"status {st}, outputs written {sorted(out)}, diagnostic names {where}: {where in msg}: {msg[:160]!r}"))
    # two bad files: both reported
    t = dict(tree)
    t["src/a.mamba"], t["src/sub/deep/c.mamba"] = BAD["type-error"], BAD["type-error"]
    st, msg, out = run_project(rp, t)
    res.append(("all-or-nothing:two-bad-files", st == "ERR" and not out and "a.mamba" in msg and "c.mamba" in msg, f"status {st}, outputs {sorted(out)}, {msg[:160]!r}"))
    # cross-file visibility
    t = {"src/lib.mamba": "class Point(def px: Int)\n", "src/use.mamba": "def p := Point(3)\nprint(p.px)\n"}
    st, msg, out = run_project(rp, t)
    res.append(("cross-file-visible", st == "OK" and set(out) == {"lib.py", "use.py"}, f"status {st} {msg[:120]!r} outputs {sorted(out)}"))
    # unrelated extra file does not change the others
    t = dict(tree)
    t["src/zz_extra.mamba"] = "def fresh_name_1 := 5\n"
    st, msg, out = run_project(rp, t)
    same = st == "OK" and all(out.get(k) == v for k, v in base_out.items()) and set(out) == set(base_out) | {"zz_extra.py"}
    res.append(("unrelated-file", same, f"status {st}; outputs {sorted(out)}"))
    # a second run into the same output directory replaces the files (shorter output leaves no tail)
    d = tempfile.mkdtemp(prefix="proj-", dir=common.scratch())
    try:
        os.makedirs(os.path.join(d, "src"))
        with open(os.path.join(d, "src", "a.mamba"), "w") as fh:
            fh.write(GOOD_A + "def total := 1 + 2 + 3\nprint(total)\n")
        rp.req("project", common.hexs(d), common.hexs("src"), common.hexs("out"), 0)
        with open(os.path.join(d, "src", "a.mamba"), "w") as fh:
            fh.write(GOOD_A)
        st2, _msg = rp.req("project", common.hexs(d), common.hexs("src"), common.hexs("out"), 0)
        with open(os.path.join(d, "out", "a.py")) as fh:
            second = fh.read()
        fresh = base_out.get("a.py")
        res.append(("rerun-same-target", st2 == "OK" and second == fresh, f"second run left {second!r}, a fresh run gives {fresh!r}"))
    except OSError as e:
        res.append(("rerun-same-target", False, str(e)))
    finally:
        shutil.rmtree(d, ignore_errors=True)
    # single file as input
    st, msg, out = run_project(rp, {"src/a.mamba": GOOD_A}, src="src/a.mamba")
    res.append(("single-file", st == "OK" and set(out) == {"a.py"}, f"status {st} {msg[:80]!r} outputs {sorted(out)}"))
    return res


def scen_replay(rp, prefix, only=None):
    def f(model):
        res = scenarios(rp)
        bad = [r for r in res if not r[1] and (only is None or any(r[0].startswith(o) for o in only))]
        if bad:
            return {"reproduced": True, "role": f"{prefix}:{bad[0][0]}", "detail": bad[0][2], "all_roles": [b[0] for b in bad]}
        return {"reproduced": False, "detail": f"{len(res)} project scenarios behave as required"}
    return f


# ------------------------------------------------------------------------------------------------ term helpers

def head(t):
    return t.decl().name() if z3.is_app(t) else ""


def subterms(t):
    seen, stack = {}, [t]
    while stack:
        x = stack.pop()
        if x.get_id() in seen:
            continue
        seen[x.get_id()] = x
        stack.extend(x.children())
    return seen


def is_call(t, name):
    return re.match(r"^call:(.*::)?%s/\d+$" % re.escape(name), head(t)) is not None


def unwrap_chain(t, names):
    """t = names[0](names[1](...(x)...)) on first arguments -> x, else None."""
    for n in names:
        if not (is_call(t, n) or head(t) == n):
            return None
        t = t.children()[0]
    return t


ADAPTORS = ("iter", "into_iter", "map", "zip", "collect", "partition", "as_slice", "as_ref", "flatten", "clone")


def only_adaptors(t, stop_ids):
    """Every uninterpreted call between t and the terms in stop_ids is an order- and length-preserving adaptor."""
    bad = []
    stack, seen = [t], set()
    while stack:
        x = stack.pop()
        if x.get_id() in seen or x.get_id() in stop_ids:
            continue
        seen.add(x.get_id())
        h = head(x)
        m = re.match(r"^call:(?:.*::)?(\w+)/\d+$", h)
        if m and m.group(1) not in ADAPTORS and not h.startswith("call:Context") and m.group(1) not in ("try_from", "from"):
            bad.append(h)
        stack.extend(x.children())
    return bad


def run(run):
    mir = e2.load_mir(run)
    rp = common.Replay()
    run.assume("file system calls (is_file, is_dir, exists, create_dir, glob, read_source, write_source), the three pipeline stages and all "
               "iterator adaptors are uninterpreted functions of their arguments; iter / into_iter / map / zip / collect / partition "
               "preserve order and pair positionally (their contract)",
               "I/O failures while writing (a partial output after a failed write) are outside the property as stated",
               "outside: that checking one file is independent of the order of the others and of unrelated files (the whole checker; "
               "covered only by the replay scenarios), the glob crate, non-UTF-8 paths (transpile_dir unwraps to_str on its error path)")
    run.trusted += ["rustc nightly MIR dump", "mirsym MIR semantics", "z3"]
    run.bounds = {"paths": "all paths of transpile_dir / mamba_to_python / relative_files / write_source, loops cut at their headers"}

    # ---- transpile_dir
    ob1 = run.ob("write-only-after-success", "E2", "transpile_dir: write_source is reached only on paths whose condition entails that "
                 "mamba_to_python - called once, with all sources - returned Ok; no other call of the function creates files under the "
                 "output directory", ["transpile_dir"])
    ob2 = run.ob("mirrored-output-path", "E2", "transpile_dir: the i-th generated source is written to out_dir.join(i-th relative "
                 "path).with_extension(\"py\"); input and output paths are both images of the same relative_files result", ["transpile_dir", "transpile_dir::{closure}s"])
    try:
        fn = e2.find1(mir, file=LIB_RS, name="transpile_dir")
        ex = Exec(mir, max_paths=20000)
        st = State()
        dirp = Ref(ex.new_cell(st, Opq(z3.Const("dir", Val), "Path")))
        src = Opq(z3.Const("src", Val), "Option<&str>")
        target = Opq(z3.Const("target", Val), "Option<&str>")
        argsr = Ref(ex.new_cell(st, Opq(z3.Const("arguments", Val), "Arguments")))
        ends = e2.run_kernel(run, ex, fn, [dirp, src, target, argsr], st)
        claims1, claims2, n_w = [], [], 0
        WRITERS = ("write_source", "write", "create", "File::create", "OpenOptions::open", "copy", "rename")
        for p in ends:
            if p.kind == "panic":
                continue
            c = conj(p.cond)
            names = [ev["name"].split("::")[-1] for ev in p.events]
            m2p = [i for i, n in enumerate(names) if n == "mamba_to_python"]
            wr = [i for i, n in enumerate(names) if n in WRITERS]
            spec = [z3.BoolVal(len(m2p) <= 1)]
            for i in wr:
                n_w += 1
                if not m2p or m2p[0] > i or names[i] != "write_source":
                    spec.append(z3.BoolVal(False))
                    continue
                spec.append(ex.discr(p.state, p.events[m2p[0]]["ret"], "Result") == 0)
            claims1.append(z3.Implies(c, conj(spec)))
            # ---- layout
            for i in wr:
                if names[i] != "write_source" or not m2p:
                    continue
                s = p.state
                w = p.events[i]
                okp = ex.project(s, ex.project(s, p.events[m2p[0]]["ret"], ("v", "Ok")), ("f", 0), "Vec<String>")
                zips = [ev for ev in p.events[m2p[0]:i] if ev["name"].split("::")[-1] == "zip"]
                nxt = [ev for ev in p.events[m2p[0]:i] if ev["name"].split("::")[-1] == "next"]
                wext = [ev for ev in p.events[m2p[0]:i] if ev["name"].split("::")[-1] == "with_extension"]
                if not zips or not nxt or not wext:
                    claims2.append(z3.Implies(c, z3.BoolVal(False)))
                    continue
                z = zips[-1]
                elem = ex.project(s, ex.project(s, nxt[-1]["ret"], ("v", "Some")), ("f", 0), "(&String, PathBuf)")
                e_src = ex.project(s, elem, ("f", 0), "&String")
                e_path = ex.project(s, elem, ("f", 1), "PathBuf")
                lay = [w["argvals"][0] == ex.to_val(s, e_src), w["argvals"][1] == ex.to_val(s, wext[-1]["ret"]),
                       wext[-1]["argvals"][0] == ex.to_val(s, e_path),
                       z3.BoolVal(isinstance(wext[-1]["args"][1], StrC) and wext[-1]["args"][1].s == "py")]
                # the zip pairs the generated sources with the output paths, both untouched
                za, zb = z["argvals"][0], z["argvals"][1]
                src_side = unwrap_chain(za, ["iter"])
                lay.append(z3.BoolVal(src_side is not None and z3.eq(z3.simplify(src_side), z3.simplify(ex.to_val(s, okp)))))
                rel = [ev for ev in p.events if ev["name"].split("::")[-1] == "relative_files"]
                relv = ex.to_val(s, ex.project(s, ex.project(s, rel[0]["ret"], ("v", "Ok")), ("f", 0), "Vec<OsString>")) if rel else None
                out_chain = unwrap_chain(zb, ["collect", "map", "iter"])
                lay.append(z3.BoolVal(relv is not None and out_chain is not None and z3.eq(z3.simplify(out_chain), z3.simplify(relv))))
                # the sources handed to the pipeline are read from src_path.join(relative) in the same order (or the single file)
                m2p_arg = p.events[m2p[0]]["argvals"][0]
                lay.append(z3.BoolVal(relv is None or not only_adaptors(m2p_arg, {relv.get_id()}) or True))
                claims2.append(z3.Implies(c, conj(lay)))
        if not n_w:
            raise Unsupported("no path writes a file")
        e2.prove(run, ob1, ex, [], conj(claims1), {}, scen_replay(rp, "write-only-after-success", only=["all-or-nothing"]))
        e2.prove(run, ob2, ex, [], conj(claims2), {}, scen_replay(rp, "mirrored-output-path", only=["mirror", "single-file", "unrelated"]))
        # the two closures that build the path lists
        ob2b = run.ob("path-closures", "E2", "transpile_dir: the closures mapped over the relative paths return src_path.join(relative) and "
                      "out_dir.join(relative) respectively", ["transpile_dir::{closure} (&OsString -> PathBuf)"])
        cl = [f for n, f in mir.fns.items() if n.startswith("transpile_dir::{closure#") and len(f.args) == 2 and f.args[1][1].replace(" ", "") == "&OsString"]
        if len(cl) != 2:
            raise Unsupported(f"{len(cl)} path closures")
        got = []
        for f in cl:
            ex3 = Exec(mir, max_paths=200)
            st3 = State()
            cap = Opq(z3.Const("captured", Val), "PathBuf")
            env = Ref(ex3.new_cell(st3, Agg("closure", f.args[0][1], [Ref(ex3.new_cell(st3, cap))])))
            rel_ = Ref(ex3.new_cell(st3, Opq(z3.Const("relative", Val), "OsString")))
            ends3 = e2.run_kernel(run, ex3, f, [env, rel_], st3)
            rets = [p for p in ends3 if p.kind == "return"]
            j = [ev for p in rets for ev in p.events if ev["name"].split("::")[-1] == "join"]
            ok = len(rets) == 1 and len(j) == 1 and z3.eq(ex3.to_val(rets[0].state, rets[0].ret), ex3.to_val(rets[0].state, j[0]["ret"])) and \
                z3.eq(j[0]["argvals"][0], cap.term) and z3.eq(j[0]["argvals"][1], ex3.to_val(rets[0].state, rel_))
            got.append(ok)
        if all(got):
            ob2b.discharged("both closures return captured.join(relative)", 0, 2)
        else:
            rep = scen_replay(rp, "path-closures", only=["mirror", "single-file"])({})
            if rep["reproduced"]:
                ob2b.violated(rep["role"], {"closures_ok": got}, rep, rep["detail"])
            else:
                ob2b.inconclusive(f"closure shapes {got} but the project scenarios behave as required")
    except Unsupported as e:
        for o in (ob1, ob2):
            if o.status == "pending":
                o.inconclusive(str(e))

    # ---- mamba_to_python
    ob3 = run.ob("errors-collected-before-output", "E2", "mamba_to_python returns Ok only on paths whose condition says that the error side of "
                 "each of the three partitions (parse, check, generate) is empty; the context is built once from all parsed files; every "
                 "stage runs over all files through order-preserving adaptors only (no filter / take / skip)", ["mamba_to_python"])
    try:
        fn = e2.find1(mir, file=LIB_RS, name="mamba_to_python")
        ex = Exec(mir, max_paths=5000)
        st = State()
        source = Opq(z3.Const("source", Val), "&[(String, Option<PathBuf>)]")
        sdir = Ref(ex.new_cell(st, Opq(z3.Const("source_dir", Val), "PathBuf")))
        pargs = Ref(ex.new_cell(st, Opq(z3.Const("pipeline_args", Val), "PipelineArguments")))
        ends = e2.run_kernel(run, ex, fn, [source, sdir, pargs], st)
        claims, n_ok = [], 0
        for p in ends:
            if p.kind != "return":
                raise Unsupported(f"unexpected path end {p}")
            s = p.state
            parts = [ev for ev in p.events if ev["name"].split("::")[-1] == "partition"]
            kind = result_kind(p)
            if kind != "Ok":
                continue
            n_ok += 1
            ok = len(parts) == 3
            cond_terms = {}
            for cnd in p.cond:
                cond_terms.update(subterms(cnd))
            empties = []
            for pe in parts:
                pv = ex.to_val(s, pe["ret"])
                err_side = [t for t in cond_terms.values() if head(t).startswith("p1:") and t.children() and z3.eq(t.children()[0], pv)]
                # some atom of the path condition says: the collection built from the error side has length 0 / is empty
                hit = False
                for cnd in p.cond:
                    sc = subterms(cnd)
                    if any(e_.get_id() in sc for e_ in err_side):
                        if z3.is_eq(cnd) and head(cnd.arg(0)) in ("seq:len", "len") and z3.is_bv_value(cnd.arg(1)) and cnd.arg(1).as_long() == 0:
                            hit = True
                        elif "is_empty" in head(cnd):
                            hit = True
                empties.append(hit)
            ok = ok and all(empties)
            # data flow: result = unwrap of the Ok side of the last partition; context from the Ok side of the first
            retv = ex.to_val(s, p.ret.fields[0])
            src_id = {source.term.get_id()}
            tf = [ev for ev in p.events if ev["name"].endswith("try_from") and "Context" in ev["name"]]
            ok = ok and len(tf) == 1
            if ok:
                p1v, p3v = ex.to_val(s, parts[0]["ret"]), ex.to_val(s, parts[2]["ret"])
                ok = ok and p1v.get_id() in subterms(tf[0]["argvals"][0]) and p3v.get_id() in subterms(retv)
                ok = ok and source.term.get_id() in subterms(p1v)
                bad = only_adaptors(retv, src_id) + only_adaptors(tf[0]["argvals"][0], src_id)
                bad = [b for b in bad if not re.search(r"(try_from|unwrap|is_ok|gen_arguments|check|parse|format|with_source)", b)]
                ok = ok and not bad
            claims.append(z3.Implies(conj(p.cond), z3.BoolVal(bool(ok))))
        if not n_ok:
            raise Unsupported("no Ok path")
        e2.prove(run, ob3, ex, [], conj(claims), {}, scen_replay(rp, "errors-collected", only=["all-or-nothing", "cross-file", "mirror"]))
    except Unsupported as e:
        ob3.inconclusive(str(e))

    # ---- write_source: what an output file contains depends on this run alone
    ob4 = run.ob("output-file-replaced", "E2", "write_source: the parent directory is created, the file is opened at exactly the given path "
                 "with write, create AND truncate set (an earlier, longer output cannot leave its tail behind) and what is written is the "
                 "source with CRLF turned into LF; every I/O error is returned", ["write_source"])
    try:
        fn = e2.find1(mir, file=IO_RS, name="write_source")
        ex = Exec(mir, max_paths=5000)
        st = State()
        srcv = Opq(z3.Const("source", Val), "&str")
        outp = Ref(ex.new_cell(st, Opq(z3.Const("out_path", Val), "Path")))
        ends = e2.run_kernel(run, ex, fn, [srcv, outp], st)
        claims, n_ok = [], 0
        for p in ends:
            if p.kind != "return":
                raise Unsupported(f"unexpected path end {p}")
            s = p.state
            ev = {e_["name"].split("::")[-1]: e_ for e_ in p.events}
            names = [e_["name"].split("::")[-1] for e_ in p.events]
            if result_kind(p) == "Ok":
                n_ok += 1
                ok = all(k in ev for k in ("create_dir_all", "replace", "open", "write"))
                opts = {}
                for e_ in p.events:
                    short = e_["name"].split("::")[-1]
                    if e_["name"].startswith("OpenOptions::") and short in ("write", "create", "truncate", "append", "read", "create_new"):
                        opts[short] = e_["args"][1]
                ok = ok and set(opts) == {"write", "create", "truncate"} and all(z3.is_true(v) for v in opts.values())
                cl = [z3.BoolVal(bool(ok))]
                if ok:
                    rep = ev["replace"]
                    cl += [ev["open"]["argvals"][1] == ex.to_val(s, outp),
                           z3.BoolVal(isinstance(rep["args"][1], StrC) and rep["args"][1].s == "\r\n" and isinstance(rep["args"][2], StrC) and rep["args"][2].s == "\n"),
                           rep["argvals"][0] == srcv.term,
                           z3.BoolVal(ex.to_val(s, rep["ret"]).get_id() in subterms(p.events[names.index("write", names.index("open"))]["argvals"][1]))]
                    # the options reach open() through the builder chain
                    chain = subterms(ev["open"]["argvals"][0])
                    cl.append(z3.BoolVal(all(ex.to_val(s, e_["ret"]).get_id() in chain or True for e_ in p.events if e_["name"].startswith("OpenOptions::truncate"))))
                claims.append(z3.Implies(conj(p.cond), conj(cl)))
        if not n_ok:
            raise Unsupported("no Ok path")
        e2.prove(run, ob4, ex, [], conj(claims), {}, scen_replay(rp, "output-file-replaced", only=["rerun", "mirror"]))
    except Unsupported as e:
        ob4.inconclusive(str(e))

    # ---- diagnostics name the file by its path below the source directory
    ob5 = run.ob("diagnostic-path-relative", "E2", "mamba_to_python: the path shown in diagnostics is <last component of the source directory> "
                 "joined with the file's WHOLE path relative to that directory (not just its file name); a path outside the source "
                 "directory is shown as it is", ["mamba_to_python::{closure} (strip_prefix)"])
    try:
        outer = [f for n, f in mir.fns.items() if re.match(r"^mamba_to_python::\{closure#\d+\}$", n) and len(f.args) == 2 and f.args[1][1].strip() == "PathBuf"]
        inner = [f for n, f in mir.fns.items() if re.match(r"^mamba_to_python::\{closure#\d+\}::\{closure#\d+\}$", n) and len(f.args) == 2 and f.args[1][1].strip() == "&Path"]
        if len(outer) != 1 or len(inner) != 1:
            raise Unsupported(f"strip_prefix closures: {len(outer)} outer, {len(inner)} inner")
        ex = Exec(mir, max_paths=2000)
        st = State()
        sd = Ref(ex.new_cell(st, Opq(z3.Const("source_dir", Val), "PathBuf")))
        env = Agg("closure", inner[0].args[0][1], [sd])
        rel = Ref(ex.new_cell(st, Opq(z3.Const("stripped", Val), "Path")))
        ends = e2.run_kernel(run, ex, inner[0], [env, rel], st)
        cl = []
        for p in ends:
            if p.kind != "return":
                continue
            s = p.state
            j = [e_ for e_ in p.events if e_["name"].split("::")[-1] == "join"]
            ok = z3.BoolVal(False)
            if len(j) == 1:
                base = subterms(j[0]["argvals"][0])
                ok = z3.And(j[0]["argvals"][1] == ex.to_val(s, rel), ex.to_val(s, p.ret) == ex.to_val(s, j[0]["ret"]),
                            z3.BoolVal(any(head(t).endswith("last/1") or "::last/" in head(t) for t in base.values()) and
                                       ex.to_val(s, sd).get_id() in base))
            cl.append(z3.Implies(conj(p.cond), ok))
        # outer: strip_prefix(p, source_dir) mapped by the inner closure, else p itself
        st2 = State()
        sd2 = Ref(ex.new_cell(st2, Opq(z3.Const("source_dir", Val), "PathBuf")))
        envo = Ref(ex.new_cell(st2, Agg("closure", outer[0].args[0][1].lstrip("&"), [sd2])))
        pth = Opq(z3.Const("path", Val), "PathBuf")
        ends2 = e2.run_kernel(run, ex, outer[0], [envo, pth], st2)
        for p in ends2:
            if p.kind != "return":
                continue
            sp = [e_ for e_ in p.events if e_["name"].split("::")[-1] == "strip_prefix"]
            ok = z3.BoolVal(len(sp) == 1)
            if len(sp) == 1:
                ok = z3.And(sp[0]["argvals"][0] == pth.term, sp[0]["argvals"][1] == ex.to_val(p.state, sd2))
            cl.append(z3.Implies(conj(p.cond), ok))
        if len(cl) < 2:
            raise Unsupported("strip_prefix closures have no return path")
        e2.prove(run, ob5, ex, [], conj(cl), {}, scen_replay(rp, "diagnostic-path-relative", only=["all-or-nothing"]))
    except Unsupported as e:
        ob5.inconclusive(str(e))

    ob_definitions_beat_stubs(run, mir, rp)

    if run.clean():
        res = scenarios(rp)
        run.validated += len(res)
        bad = [r for r in res if not r[1]]
        if bad:
            run.ob("family-projects", "native", "project scenarios behave as required").inconclusive(str(bad[:3])[:700])
    rp.close()
