"""C09 — definite assignment: look-up decision and which environment flows on (E2, MIR -> z3)."""
import re
import z3

import ckern
import common
import e2
from e2 import conj, disj, opq, sym_option, mk_struct, mk_variant, calls, result_kind
from mirsym import Exec, State, Opq, Agg, Ref, StrC, Seq, SymColl, Val, Unsupported, Fork

LEVEL = "model_checking"
EXPLANATION = ("match_id (identifier look-up), gen_vec (statement sequencing, loop body from a havocked loop state), the "
               "IfElse / While / For arms of gen_flow, Environment::union / intersection and the self-field access of "
               "property_call are executed symbolically from MIR; z3 decides that an unknown name is an error, that "
               "statement i+1 is generated in the environment returned by statement i, that branches and loop bodies are "
               "generated from the incoming environment and never hand their definitions on, and that an unassigned self "
               "field cannot be read.")

EXPR_RS = ckern.GEN + "expression.rs"
MOD_RS = ckern.GEN + "mod.rs"
FLOW_RS = ckern.GEN + "control_flow.rs"
CALL_RS = ckern.GEN + "call.rs"


def family(rp):
    f = e2.Family(rp)
    f.add("never-defined", "print(x)", "reject")
    f.add("defined-later", "print(x)\ndef x := 1", "reject")
    f.add("defined-before", "def x := 1\nprint(x)", "accept")
    f.add("one-branch-only", "if True then\n    def x := 1\nprint(x)", "reject")
    f.add("else-branch-only", "if True then\n    print(1)\nelse\n    def x := 2\nprint(x)", "reject")
    f.add("defined-in-while", "while True do\n    def x := 1\nprint(x)", "reject")
    f.add("defined-in-for", "for i in 0 .. 3 do\n    def x := 1\nprint(x)", "reject")
    f.add("loop-variable-after", "for i in 0 .. 3 do\n    print(i)\nprint(i)", "reject")
    f.add("loop-variable-inside", "for i in 0 .. 3 do\n    print(i)", "accept")
    f.add("match-arm-variable-outside", "def a := 1\nmatch a\n    1 => def y := 2\n    _ => def y := 3\nprint(y)", "reject")
    f.add("shadowing", "def x := 1\ndef x := \"s\"\nprint(x)", "accept")
    meter = "class Meter\n    def scale(self, factor: Float) -> Float => factor * 2.0\n\n"
    f.add("shadow-closed-function-scope-str-into-float", meter + "def x: Str := \"wide\"\n\ndef half(x: Float) -> Float => x / 2.0\n\ndef m := Meter()\nm.scale(x)\n", "reject")
    f.add("shadow-closed-loop-scope-float-into-float", meter + "def run(m: Meter, x: Float) -> Float =>\n    for x in [\"a\", \"b\"] do\n        print(x)\n    m.scale(x)\n", "accept")
    f.add("shadow-later-definition-wins", "def x := 1\ndef x := \"s\"\ndef y: Str := x", "accept")
    f.add("shadow-earlier-definition-gone", "def x := 1\ndef x := \"s\"\ndef y: Int := x", "reject")
    f.add("undefined-in-function", "def f(a: Int) -> Int => a + b", "reject")
    f.add("later-global-in-function", "def f() -> Int => g\ndef g := 1", "reject")
    f.add("block-after-def", "def f() -> Int =>\n    def y := 1\n    y", "accept")
    f.add("block-before-def", "def f() -> Int =>\n    def z := y\n    def y := 1\n    z", "reject")
    f.add("block-in-loop-after-def", "for i in 0 .. 3 do\n    def y := i\n    print(y)", "accept")
    f.add("block-in-branch-after-def", "if True then\n    def y := 1\n    print(y)", "accept")
    f.add("use-inside-branch-after-def", "def x := 1\nif True then\n    print(x)", "accept")
    f.add("one-branch-with-else-used-after", "if True then\n    def x := 1\nelse\n    def y := 2\nprint(x)", "reject")
    f.add("undefined-in-for-body", "for i in 0 .. 3 do print(zz)", "reject")
    f.add("undefined-in-while-body", "while True do print(zz)", "reject")
    f.add("comprehension-variable-in-own-iterable", "def limit := 4\ndef squares := [n * n | n in (0 .. n)]\n", "reject")
    f.add("comprehension-variable-escapes", "def squares := [n * n | n in (0 .. 4)]\nprint(n)\n", "reject")
    f.add("comprehension-statement-variable-escapes", "[n * n | n in (0 .. 4)]\nprint(n)\n", "reject")
    f.add("comprehension-variable-in-element", "def squares := [n * n | n in (0 .. 4)]\n", "accept")
    f.add("comprehension-variable-in-condition", "def squares := [n * n | n in (0 .. 4), n > 1]\n", "accept")
    f.add("comprehension-set-variable-in-own-iterable", "def s := {m + 1 | m in (0 .. m)}\n", "reject")
    f.add("comprehension-outer-name-in-iterable", "def limit := 4\ndef squares := [n * n | n in (0 .. limit)]\n", "accept")
    f.add("field-assigned-one-branch-only", "class X\n    def z: Int\n\n    def __init__(self) =>\n        if True then\n            self.z := 1\n        else\n            print(1)\n", "reject")
    f.add("field-assigned-both-branches", "class X\n    def z: Int\n\n    def __init__(self) =>\n        if True then\n            self.z := 1\n        else\n            self.z := 2\n", "accept")
    f.add("field-read-in-loop-before-assign", "class X\n    def z: Int\n\n    def __init__(self) =>\n        for i in 0 .. 2 do\n            print(self.z)\n        self.z := 1\n", "reject")
    f.add("field-assigned-through-nested-only", "class A\n    def b: Int := 0\n\nclass X\n    def a: A\n\n    def __init__(self) =>\n        self.a.b := 1\n", "reject")
    f.add("if-without-else-def-used-after", "def c := False\nif c then\n    def x := 10\n\nprint(x)", "reject")
    f.add("field-assigned-in-if-without-else", "class X\n    def z: Int\n\n    def __init__(self, c: Bool) =>\n        if c then\n            self.z := 10\n        print(self.z + 1)\n", "reject")
    f.add("field-read-before-assign", "class X\n    def z: Int\n\n    def __init__(self) =>\n        self.z\n", "reject")
    f.add("field-assigned-in-init", "class X\n    def z: Int\n\n    def __init__(self) =>\n        self.z := 1\n", "accept")
    f.add("field-not-assigned-in-init", "class X\n    def z: Int\n\n    def __init__(self) =>\n        print(1)\n", "reject")
    return f


def ob_lookup(run, mir, rp, fam):
    ob = run.ob("identifier-lookup", "E2", "match_id on an identifier that is not None/True/False outside definition and "
                "destructuring mode: Err iff the environment look-up finds nothing; found => Ok(the same environment)",
                ["match_id"])
    fn = e2.find1(mir, file=EXPR_RS, name="match_id")
    found = z3.Bool("get_var.is_some")

    def m_get_var(ex, st, fr, callee, args, argtys, dty):
        st.events.append({"callee": callee, "name": "Environment::get_var", "args": args, "argvals": [ex.to_val(st, a) for a in args],
                          "ret": None, "in": ex.canon_item(fr.fn), "depth": len(st.frames), "ncond": len(st.cond)})
        return Fork([(found, Agg("Option", "Some", [opq("entries", "HashSet")])), (z3.Not(found), Agg("Option", "None", []))])
    ex = Exec(mir, models=[(r"^Environment::get_var$", m_get_var)], max_paths=20000)
    st = State()
    lit = opq("lit", "String")
    ast, pos = ckern.mk_ast("ast", ckern.mk_node("Id", {"lit": lit}))
    ty, _ = sym_option("ty", opq("ty.v", "Box<AST>"), "Option<Box<AST>>")
    mutable = z3.Bool("mutable")
    env, ev = ckern.sym_env(ex, st)
    ctx = Ref(ex.new_cell(st, opq("ctx", "Context")))
    cfields = {"var_mapping": opq("constr.var_mapping", "HashMap")}
    constr = Ref(ex.new_cell(st, opq("constr", "ConstrBuilder")))
    ends = e2.run_kernel(run, ex, fn, [Ref(ex.new_cell(st, ast)), Ref(ex.new_cell(st, ty)), mutable, env, ctx, constr], st)
    lv = ex.to_val(st, lit)
    special = z3.Or(lv == ex.strc("None"), lv == ex.strc("True"), lv == ex.strc("False"))
    plain = z3.And(z3.Not(special), z3.Not(ev["is_def_mode"]), z3.Not(ev["is_destruct_mode"]))
    claims = [disj([conj(p.cond) for p in ends if p.kind == "return"])]
    for p in ends:
        c = conj(p.cond)
        s = p.state
        kind = result_kind(p)
        if kind is None:
            # tail calls (gen_primitive for True/False, id_from_var in definition mode): not a plain look-up
            claims.append(z3.Implies(c, z3.Not(plain)))
            continue
        gv = calls(p, "Environment::get_var")
        spec = [z3.Implies(z3.And(plain, z3.Not(found)), z3.BoolVal(kind == "Err"))]
        if kind == "Ok":
            same_env = ex.to_val(s, p.ret.fields[0]) == ex.to_val(s, env)
            spec.append(z3.Implies(plain, z3.And(found, same_env, z3.BoolVal(bool(gv)))))
            if gv:
                spec.append(z3.Implies(plain, z3.And(gv[0]["argvals"][0] == ex.to_val(s, env), gv[0]["argvals"][1] == lv)))
        else:
            spec.append(z3.Implies(z3.And(plain, found), z3.BoolVal(False)))
        claims.append(z3.Implies(c, conj(spec)))
    e2.prove(run, ob, ex, [], conj(claims), {"get_var.is_some": found, "env.is_def_mode": ev["is_def_mode"],
                                              "env.is_destruct_mode": ev["is_destruct_mode"], "lit_is_special": special},
             fam.as_replay("lookup:", only=["never-", "defined-", "undefined-", "later-", "block-"]))


def ob_sequencing(run, mir, rp, fam):
    ob = run.ob("statement-sequencing", "E2", "gen_vec: every statement is generated in the environment returned by its "
                "predecessor when carry_env is set (the caller's otherwise), errors abort, and the environment returned is "
                "the last one (the caller's without carry_env)", ["gen_vec"])
    fn = e2.find1(mir, file=MOD_RS, name="gen_vec")
    ex = Exec(mir, max_paths=20000)
    st = State()
    asts = opq("asts", "&[AST]")
    carry = z3.Bool("carry_env")
    env, ctx, constr = ckern.refs(ex, st, "env", "ctx", "constr")
    ends = e2.run_kernel(run, ex, fn, [asts, env, carry, ctx, constr], st)
    claims, n_gen = [], 0
    dbg = fn.debug.get("inner_env")
    if not dbg or not re.fullmatch(r"_\d+", dbg):
        raise Unsupported("local inner_env not found in debug info")
    carried_pat = re.compile(r"^h\d+_%s_\d+$" % dbg[1:])
    for p in ends:
        c = conj(p.cond)
        s = p.state
        gens = calls(p, "generate")
        kind = result_kind(p)
        spec = []
        # environment in force at the loop header on this path = the havocked loop variable
        prev = None
        for i, g in enumerate(gens):
            n_gen += 1
            used = g["argvals"][1]
            d = ex.discr(s, g["ret"], "Result<Environment, Vec<TypeErr>>")
            okv = ex.to_val(s, ex.project(s, ex.project(s, g["ret"], ("v", "Ok")), ("f", 0), "Environment"))
            spec.append(z3.Implies(z3.Not(carry), used == ex.to_val(s, env)))
            if prev is not None:
                spec.append(z3.Implies(carry, used == prev))
            else:
                # first generate on this path: with carry it must be the loop-carried environment, i.e. the
                # havocked value of the local `inner_env` at the loop header
                spec.append(z3.Implies(carry, z3.BoolVal(bool(carried_pat.match(str(used))))))
            if i == len(gens) - 1 and kind == "Err":
                spec.append(d == 1)
            prev = okv
        if kind == "Ok":
            rv = ex.to_val(s, p.ret.fields[0])
            spec.append(z3.Implies(z3.Not(carry), rv == ex.to_val(s, env)))
            if gens:
                spec.append(z3.Implies(carry, rv == prev))
        elif p.kind == "loop_back" and gens:
            # the loop variable for the next iteration is the environment just returned
            fr0 = s.frames[0]
            cell = fr0.locals.get(int(dbg[1:]))
            nxt = ex.to_val(s, s.cells[cell]) if cell is not None else None
            spec.append(z3.BoolVal(False) if nxt is None else nxt == prev)
        claims.append(z3.Implies(c, conj(spec)))
    if n_gen < 2:
        raise Unsupported("generate call sites not reached")
    e2.prove(run, ob, ex, [], conj(claims), {"carry_env": carry}, fam.as_replay("sequencing:", only=["defined-", "block-", "shadowing"]))


def ob_flow(run, mir, rp, fam):
    fn = e2.find1(mir, file=FLOW_RS, name="gen_flow")
    for shape in ("if-else", "if", "while", "for"):
        ob = run.ob(f"flow-{shape}", "E2", {
            "if-else": "IfElse with else: condition, then and else are generated from the incoming environment; the result is "
                       "incoming.intersection(then.union(else)) — definitions of a branch never flow on",
            "if": "IfElse without else: body generated from the incoming environment, the incoming environment is returned",
            "while": "While: body generated from incoming.in_loop(), the incoming environment is returned",
            "for": "For: the loop variable's environment is only passed to the body, the incoming environment is returned",
        }[shape], ["gen_flow"])
        try:
            ex = Exec(mir, max_paths=20000, inline=[r"Environment::in_loop$"])
            st = State()
            mk = lambda n: Ref(ex.new_cell(st, ckern.mk_ast(n, opq(n + ".node", "Node"))[0]))
            cond, then, el, body, expr, col = (mk(n) for n in ("cond", "then", "el", "body", "expr", "col"))
            if shape == "if-else":
                node = ckern.mk_node("IfElse", {"cond": cond, "then": then, "el": Agg("Option", "Some", [el])})
            elif shape == "if":
                node = ckern.mk_node("IfElse", {"cond": cond, "then": then, "el": Agg("Option", "None", [])})
            elif shape == "while":
                node = ckern.mk_node("While", {"cond": cond, "body": body})
            else:
                node = ckern.mk_node("For", {"expr": expr, "col": col, "body": body})
            ast, _ = ckern.mk_ast("ast", node)
            env, ev = ckern.sym_env(ex, st)
            ctx, constr = ckern.refs(ex, st, "ctx", "constr")
            ends = e2.run_kernel(run, ex, fn, [Ref(ex.new_cell(st, ast)), env, ctx, constr], st)
            claims, n_ok = [], 0
            envv = ex.to_val(st, env)
            for p in ends:
                c = conj(p.cond)
                s = p.state
                if result_kind(p) == "Err" or p.kind != "return":
                    continue
                n_ok += 1
                gens = calls(p, "generate")
                by = {}
                for g in gens:
                    for nme, r_ in (("cond", cond), ("then", then), ("el", el), ("body", body), ("expr", expr), ("col", col)):
                        if z3.eq(g["argvals"][0], ex.to_val(s, r_)):
                            by[nme] = g
                if result_kind(p) == "Ok":
                    rv = ex.to_val(s, p.ret.fields[0])
                else:
                    # the result is handed on from a callee (tail call): its Ok payload must still be the expected environment
                    rv = ex.to_val(s, ex.project(s, ex.project(s, p.ret, ("v", "Ok")), ("f", 0), "Environment"))
                okenv = lambda g: ex.to_val(s, ex.project(s, ex.project(s, g["ret"], ("v", "Ok")), ("f", 0), "Environment"))
                if shape == "if-else":
                    if not all(k in by for k in ("cond", "then", "el")):
                        claims.append(z3.Not(c))
                        continue
                    u = ex.app("Environment::union", [okenv(by["then"]), okenv(by["el"])], "Environment", s)
                    want = ex.app("Environment::intersection", [env, u], "Environment", s)
                    claims.append(z3.Implies(c, z3.And(by["cond"]["argvals"][1] == envv, by["then"]["argvals"][1] == envv,
                                                       by["el"]["argvals"][1] == envv, rv == ex.to_val(s, want))))
                elif shape == "if":
                    if not all(k in by for k in ("cond", "then")):
                        claims.append(z3.Not(c))
                        continue
                    claims.append(z3.Implies(c, z3.And(by["cond"]["argvals"][1] == envv, by["then"]["argvals"][1] == envv, rv == envv)))
                elif shape == "while":
                    if not all(k in by for k in ("cond", "body")):
                        claims.append(z3.Not(c))
                        continue
                    fields = e2.rust_struct(ckern.ENV_RS, "Environment")
                    benv = by["body"]["args"][1]
                    benv = ex.read_ref(s, benv) if isinstance(benv, Ref) else benv
                    same = z3.BoolVal(False)
                    if isinstance(benv, Agg) and benv.names == fields:
                        same = conj([ex.to_val(s, v) == ex.to_val(s, ev[f]) for f, v in zip(fields, benv.fields) if f != "in_loop"] +
                                    [benv.fields[fields.index("in_loop")] == z3.BoolVal(True)])
                    claims.append(z3.Implies(c, z3.And(by["cond"]["argvals"][1] == envv, same, rv == envv)))
                else:
                    if not all(k in by for k in ("col", "expr", "body")):
                        claims.append(z3.Not(c))
                        continue
                    claims.append(z3.Implies(c, z3.And(by["col"]["argvals"][1] == envv, rv == envv)))
            if not n_ok:
                raise Unsupported("no Ok path")
            e2.prove(run, ob, ex, [], conj(claims), {"env.is_expr": ev["is_expr"]},
                     fam.as_replay(f"flow-{shape}:", only=["one-branch", "else-branch", "defined-in-", "loop-variable", "use-inside", "undefined-in-", "field-assigned"]))
        except Unsupported as e:
            ob.inconclusive(f"unsupported: {e}")


def ob_env_ops(run, mir, rp, fam):
    for op in ("union", "intersection"):
        ob = run.ob(f"environment-{op}", "E2", f"Environment::{op} keeps every field of the receiver (in particular the "
                    f"defined variables) and only combines the unassigned sets", [f"Environment::{op}"])
        try:
            fn = e2.find1(mir, file=ckern.ENV_RS, impl="impl Environment", name=op)
            ex = Exec(mir)
            st = State()
            a, av = ckern.sym_env(ex, st, "self")
            b, bv = ckern.sym_env(ex, st, "other")
            ends = e2.run_kernel(run, ex, fn, [a, b], st)
            fields = e2.rust_struct(ckern.ENV_RS, "Environment")
            claims = []
            for p in ends:
                c = conj(p.cond)
                s = p.state
                if p.kind != "return" or not (isinstance(p.ret, Agg) and p.ret.names == fields):
                    claims.append(z3.Not(c))
                    continue
                rd = dict(zip(fields, p.ret.fields))
                keep = conj([ex.to_val(s, rd[f]) == ex.to_val(s, av[f]) for f in fields if f != "unassigned"])
                comb = ex.to_val(s, rd["unassigned"]) == ex.to_val(s, ex.app("Iterator::collect", [ex.app("Iterator::cloned", [
                    ex.app("HashSet::" + op, [av["unassigned"], bv["unassigned"]], "It", s)], "Cloned", s)], "HashSet<String>", s))
                claims.append(z3.Implies(c, z3.And(keep, comb)))
            e2.prove(run, ob, ex, [], conj(claims), {}, fam.as_replay(f"environment-{op}:", only=["one-branch", "else-branch", "field-"]))
        except Unsupported as e:
            ob.inconclusive(f"unsupported: {e}")


def ob_self_field(run, mir, rp, fam):
    ob = run.ob("unassigned-self-field", "E2", "property_call: reading self.<field> while <field> is in the unassigned set "
                "is an error", ["property_call"])
    fn = e2.find1(mir, file=CALL_RS, name="property_call")
    contains = z3.Bool("unassigned.contains(field)")

    def m_contains(ex, st, fr, callee, args, argtys, dty):
        st.events.append({"callee": callee, "name": "HashSet::contains", "args": args, "argvals": [ex.to_val(st, a) for a in args],
                          "ret": contains, "in": ex.canon_item(fr.fn), "depth": len(st.frames), "ncond": len(st.cond)})
        return contains
    ex = Exec(mir, models=[(r"^HashSet::<std::string::String>::contains::<", m_contains)], max_paths=20000)
    st = State()
    inst_lit, fld = opq("instance.lit", "String"), opq("field", "String")
    inst, _ = ckern.mk_ast("instance", ckern.mk_node("Id", {"lit": inst_lit}))
    prop, _ = ckern.mk_ast("property", ckern.mk_node("Id", {"lit": fld}))
    vec = Ref(ex.new_cell(st, Seq([("item", inst)])))
    env, ev = ckern.sym_env(ex, st)
    ctx, constr = ckern.refs(ex, st, "ctx", "constr")

    def m_last(ex_, st_, fr, callee, args, argtys, dty):
        return Agg("Option", "Some", [Ref(ex_.new_cell(st_, inst))])
    ex.models.append((r"^core::slice::<impl \[AST\]>::last$", m_last))
    ends = e2.run_kernel(run, ex, fn, [vec, Ref(ex.new_cell(st, prop)), env, ctx, constr], st)
    is_self = ex.to_val(st, inst_lit) == ex.strc("self")
    claims = []
    for p in ends:
        c = conj(p.cond)
        s = p.state
        kind = result_kind(p)
        if kind is None:
            continue
        cs = calls(p, "HashSet::contains")
        arg_ok = z3.BoolVal(True)
        if cs:
            arg_ok = z3.And(cs[0]["argvals"][0] == ex.to_val(s, ev["unassigned"]), cs[0]["argvals"][1] == ex.to_val(s, fld))
        claims.append(z3.Implies(z3.And(c, is_self, contains), z3.BoolVal(kind == "Err")))
        claims.append(z3.Implies(z3.And(c, is_self), z3.And(z3.BoolVal(bool(cs)), arg_ok)))
    e2.prove(run, ob, ex, [], conj(claims), {"instance_is_self": is_self, "unassigned.contains(field)": contains},
             fam.as_replay("self-field:", only=["field-"]))


def ob_assigned_detection(run, mir, rp, fam):
    ob = run.ob("assigned-field-detection", "E2", "gen_call Reassign: among the parts of the assigned identifier (self "
                "stripped) only a directly assigned name (IdentiCall::Iden) is marked as assigned; an assignment through "
                "a field (self.a.b := ..) marks nothing", ["gen_call::{closure#1}", "gen_call::{closure#2}"])
    IDENT_RS = "src/check/ident.rs"
    c1 = e2.find1(mir, file=CALL_RS, name="gen_call", closure=["{closure#1}"])
    ex = Exec(mir, max_paths=2000)
    claims = []
    lay = e2.rust_enum(IDENT_RS, "IdentiCall")
    for variant in lay:
        st = State()
        var = opq("var", "String")
        if variant == "Iden":
            val = Agg("IdentiCall", "Iden", [var])
        else:
            arity = lay[variant] if isinstance(lay[variant], int) else len(lay[variant] or [])
            val = Agg("IdentiCall", variant, [opq(f"part{i}", "Box<IdentiCall>") for i in range(arity)])
        env_arg = []
        for n, ty in c1.args[:1]:
            t = ty.strip()
            cl = Agg("closure", "{closure@gen_call#1}", [Ref(ex.new_cell(st, opq("left.pos", "Position")))])
            env_arg.append(Ref(ex.new_cell(st, cl)) if t.startswith("&") else cl)
        ends = e2.run_kernel(run, ex, c1, env_arg + [val], st)
        for p in ends:
            c = conj(p.cond)
            s = p.state
            if p.kind != "return":
                claims.append(z3.Not(c))
                continue
            head = c1.ret.strip()
            r = p.ret
            if isinstance(r, Agg) and r.ty in ("Option", "Result"):
                yields = r.variant in ("Some", "Ok")
                payload = r.fields[0] if yields else None
                if variant == "Iden":
                    claims.append(z3.Implies(c, z3.And(z3.BoolVal(yields), ex.to_val(s, payload) == ex.to_val(s, var)) if yields else z3.BoolVal(False)))
                else:
                    claims.append(z3.Implies(c, z3.BoolVal(not yields)))
            else:
                good = 1 if "Option" in head else 0
                d = ex.discr(s, r, head)
                if variant == "Iden":
                    pl = ex.project(s, ex.project(s, r, ("v", "Some" if "Option" in head else "Ok")), ("f", 0), "String")
                    claims.append(z3.Implies(c, z3.And(d == good, ex.to_val(s, pl) == ex.to_val(s, var))))
                else:
                    claims.append(z3.Implies(c, d != good))
    e2.prove(run, ob, ex, [], conj(claims), {}, fam.as_replay("assigned-detection:", only=["field-"]))


def ob_assignment_value_first(run, mir, rp, fam):
    ob = run.ob("assignment-value-read-first", "E2", "gen_call Reassign with `:=`: the assigned value is generated in the incoming environment - where the target "
                "field still counts as unassigned, so `self.z := self.z + 1` as first assignment of z reads an unassigned field - and only the target and what "
                "follows see the field as assigned", ["gen_call (Reassign, :=)"])
    fn = e2.find1(mir, file=CALL_RS, name="gen_call")
    ex = Exec(mir, max_paths=20000)
    st = State()
    left, lpos = ckern.mk_ast("left", opq("left.node", "Node"))
    right, _ = ckern.mk_ast("right", opq("right.node", "Node"))
    lbox, rbox = Ref(ex.new_cell(st, left)), Ref(ex.new_cell(st, right))
    node = ckern.mk_node("Reassign", {"left": lbox, "right": rbox, "op": Agg("NodeOp", "Assign", [])})
    ast, _ = ckern.mk_ast("ast", node)
    env, ctx, constr = ckern.refs(ex, st, "env", "ctx", "constr")
    ends = e2.run_kernel(run, ex, fn, [Ref(ex.new_cell(st, ast)), env, ctx, constr], st)
    claims, n_ok = [], 0
    for p in ends:
        if result_kind(p) != "Ok":
            continue
        n_ok += 1
        s = p.state
        gens = calls(p, "generate")
        gr = [g for g in gens if z3.eq(g["argvals"][0], ex.to_val(s, rbox))]
        gl = [g for g in gens if z3.eq(g["argvals"][0], ex.to_val(s, lbox))]
        if len(gr) != 1 or len(gl) != 1 or calls(p, "reassign_op"):
            claims.append(z3.Not(conj(p.cond)))
            continue
        order = gens.index(gr[0]) < gens.index(gl[0])
        claims.append(z3.Implies(conj(p.cond), z3.And(gr[0]["argvals"][1] == ex.to_val(s, env), z3.BoolVal(order),
                                                      ex.to_val(s, ex.project(s, p.ret, ("v", "Ok")).fields[0]) == gl[0]["argvals"][1])))
    if not n_ok:
        raise Unsupported("no Ok path")
    f = e2.Family(rp)
    cls = "class X\n    def z: Int\n\n    def __init__(self, start: Int) =>\n"
    f.add("field-read-in-own-first-assignment", cls + "        self.z := self.z + start\n", "reject")
    f.add("field-compound-before-first-assignment", cls + "        self.z += start\n        self.z := 1\n", "reject")
    f.add("field-read-in-second-assignment", cls + "        self.z := start\n        self.z := self.z + 1\n", "accept")
    f.add("field-compound-after-first-assignment", cls + "        self.z := start\n        self.z += 1\n", "accept")
    f.add("other-field-read-in-assignment", "class X\n    def z: Int\n    def w: Int\n\n    def __init__(self, start: Int) =>\n        self.w := start\n        self.z := self.w + 1\n", "accept")
    f.add("other-unassigned-field-read-in-assignment", "class X\n    def z: Int\n    def w: Int\n\n    def __init__(self, start: Int) =>\n        self.z := self.w + 1\n        self.w := start\n", "reject")
    e2.prove(run, ob, ex, [], conj(claims), {}, f.as_replay("assignment-value:"))
    if ob.status == "discharged":
        k, bad = f.run()
        run.validated += k
        if bad:
            ob.status = "pending"
            ob.inconclusive(f"assignment family disagrees although the kernel is as specified: {bad[:2]}")
    run.samples.append({"obligation": ob.id, "ok_paths": n_ok})


def ob_lambda_body(run, mir, rp, fam):
    ob = run.ob("lambda-body-in-use-mode", "E2", "gen_expr, the AnonFun arm: the body of an anonymous function is generated in the environment its parameters "
                "were added to, with definition mode as it was outside (off in an expression) - so an identifier in the body is looked up, and an unknown one "
                "is an error instead of being taken for a new definition", ["gen_expr (AnonFun)", "Environment setters (inlined)"])
    fn = e2.find1(mir, file=ckern.GEN + "expression.rs", name="gen_expr")
    ex = Exec(mir, max_paths=20000, inline=[ckern.ENV_SETTERS])
    st = State()
    body, _ = ckern.mk_ast("body", opq("body.node", "Node"))
    bodyr = Ref(ex.new_cell(st, body))
    ast, _ = ckern.mk_ast("ast", ckern.mk_node("AnonFun", {"args": opq("args", "Vec<AST>"), "body": bodyr}))
    env, ev = ckern.sym_env(ex, st)
    ctx, constr = ckern.refs(ex, st, "ctx", "constr")
    ends = e2.run_kernel(run, ex, fn, [Ref(ex.new_cell(st, ast)), env, ctx, constr], st)
    fields = e2.rust_struct(ckern.ENV_RS, "Environment")
    claims, n_ok = [], 0
    for p in ends:
        if result_kind(p) != "Ok":
            continue
        n_ok += 1
        s = p.state
        gens = [g for g in calls(p, "generate") if z3.eq(g["argvals"][0], ex.to_val(s, bodyr))]
        ca = calls(p, "constrain_args")
        if len(gens) != 1 or len(ca) != 1:
            claims.append(z3.Not(conj(p.cond)))
            continue
        benv = gens[0]["args"][1]
        benv = ex.read_ref(s, benv) if isinstance(benv, Ref) else benv
        ok = z3.BoolVal(False)
        if isinstance(benv, Agg) and benv.names == fields:
            dm = benv.fields[fields.index("is_def_mode")]
            if z3.is_bool(dm):
                ok = dm == ev["is_def_mode"]
        claims.append(z3.Implies(conj(p.cond), ok))
    if not n_ok:
        raise Unsupported("no Ok path in the AnonFun arm")
    f = e2.Family(rp)
    f.add("lambda-undefined-name-in-body", "def g := \\x: Int => x + zz\n", "reject")
    f.add("lambda-later-name-in-body", "def g := \\x: Int => x + later\ndef later := 1\n", "reject")
    f.add("lambda-undefined-name-in-argument-position", "def h(f: Int -> Int) -> Int => f(1)\nprint(h(\\x: Int => x + zz))\n", "reject")
    f.add("lambda-parameter-in-body", "def g := \\x: Int => x + 1\n", "accept")
    f.add("lambda-outer-name-in-body", "def k := 2\ndef g := \\x: Int => x + k\n", "accept")
    f.add("lambda-parameter-not-outside", "def g := \\x: Int => x + 1\nprint(x)\n", "reject")
    e2.prove(run, ob, ex, [], conj(claims), {"definition mode outside": ev["is_def_mode"]}, f.as_replay("lambda-body:"))
    if ob.status == "discharged":
        k, bad = f.run()
        run.validated += k
        if bad:
            ob.status = "pending"
            ob.inconclusive(f"lambda family disagrees although the kernel is as specified: {bad[:2]}")
    run.samples.append({"obligation": ob.id, "ok_paths": n_ok})


COL_RS = ckern.GEN + "collection.rs"


def ob_comprehension(run, mir, rp, fam):
    ob = run.ob("flow-comprehension", "E2", "gen_builder (list / set / dict comprehension): the iterable of `x in col` is generated from the incoming "
                "environment (the comprehension variable is not yet defined there), the element, the value of a dict pair and every further condition "
                "are generated from the environment that defines the variable, and outside define-mode the incoming environment is returned "
                "(the variable does not escape)", ["gen_builder"])
    fn = e2.find1(mir, file=COL_RS, name="gen_builder")
    mk_exec = lambda: Exec(mir, max_paths=20000, inline=[r"Environment::is_def_mode$"])
    claims, n_ok = [], 0
    ex = None
    for with_pair in (False, True):
        ex = mk_exec()
        st = State()
        mk = lambda n: Ref(ex.new_cell(st, ckern.mk_ast(n, opq(n + ".node", "Node"))[0]))
        left, right, item, pair, ast = (mk(n) for n in ("left", "right", "item", "pair", "ast"))
        cond_ast, _ = ckern.mk_ast("cond", ckern.mk_node("In", {"left": left, "right": right}))
        condr = Ref(ex.new_cell(st, cond_ast))
        conds = Ref(ex.new_cell(st, opq("conditions", "[AST]")))
        ex.models.append((r"^core::slice::<impl \[AST\]>::first$", lambda ex_, st_, fr, callee, a, at, dty: Agg("Option", "Some", [condr])))
        env, ev = ckern.sym_env(ex, st)
        ctx, constr = ckern.refs(ex, st, "ctx", "constr")
        ends = e2.run_kernel(run, ex, fn, [ast, item, Agg("Option", "Some", [pair]) if with_pair else Agg("Option", "None", []), conds, env, ctx, constr], st)
        envv = ex.to_val(st, env)
        for p in ends:
            c = conj(p.cond)
            s = p.state
            if p.kind == "loop_back":
                # conditions after the first: generated inside the loop from the defining environment
                continue
            if result_kind(p) != "Ok":
                continue
            n_ok += 1
            gens = calls(p, "generate")
            by = {}
            for g in gens:
                for nme, r_ in (("left", left), ("right", right), ("item", item), ("pair", pair)):
                    if z3.eq(g["argvals"][0], ex.to_val(s, r_)):
                        by.setdefault(nme, g)
            look = calls(p, "constr_col_lookup")
            if not all(k in by for k in ("left", "right", "item")) or len(look) != 1 or (with_pair and "pair" not in by):
                claims.append(z3.Not(c))
                continue
            cenv = ex.to_val(s, ex.project(s, ex.project(s, look[0]["ret"], ("v", "Ok")), ("f", 0), "Environment"))
            cl = [by["right"]["argvals"][1] == envv, by["item"]["argvals"][1] == cenv]
            # the variable is defined by generating `left` in define mode from the incoming environment, before the element is looked at
            lenv = by["left"]["args"][1]
            lenv = ex.read_ref(s, lenv) if isinstance(lenv, Ref) else lenv
            fields = e2.rust_struct(ckern.ENV_RS, "Environment")
            if isinstance(lenv, Agg) and lenv.names == fields:
                cl += [ex.to_val(s, v) == ex.to_val(s, ev[f]) for f, v in zip(fields, lenv.fields) if f != "is_def_mode"]
                cl.append(lenv.fields[fields.index("is_def_mode")] == z3.BoolVal(True))
            else:
                cl.append(z3.BoolVal(False))
            order = [g["name"] + str(id(g)) for g in p.events]
            pos = {id(g): i for i, g in enumerate(p.events)}
            cl.append(z3.BoolVal(pos[id(by["right"])] < pos[id(by["left"])] < pos[id(by["item"])]))
            if with_pair:
                cl.append(by["pair"]["argvals"][1] == cenv)
            if result_kind(p) == "Ok":
                rv = ex.to_val(s, p.ret.fields[0])
                cl.append(z3.If(ev["is_def_mode"], rv == cenv, rv == envv))
            claims.append(z3.Implies(c, conj(cl)))
        # further conditions: inside the loop every generate call gets the defining environment
        for p in ends:
            if p.kind != "loop_back":
                continue
            s = p.state
            look = calls(p, "constr_col_lookup")
            known = [ex.to_val(s, r_) for r_ in (left, right, item, pair)]
            extra = [g for g in calls(p, "generate") if not any(z3.eq(g["argvals"][0], k) for k in known)]
            tr = calls(p, "ConstrBuilder::add_constr")
            if len(look) != 1 or len(extra) != 1 or len(tr) != 1:
                claims.append(z3.Not(conj(p.cond)))
                continue
            cenv = ex.to_val(s, ex.project(s, ex.project(s, look[0]["ret"], ("v", "Ok")), ("f", 0), "Environment"))
            n_ok += 1
            claims.append(z3.Implies(conj(p.cond), z3.And(extra[0]["argvals"][1] == cenv, tr[0]["argvals"][2] == cenv)))
    if n_ok < 4:
        raise Unsupported(f"only {n_ok} comprehension paths")
    e2.prove(run, ob, ex, [], conj(claims), {}, fam.as_replay("flow-comprehension:", only=["comprehension-"]))
    run.samples.append({"obligation": ob.id, "paths": n_ok})


def ob_env_setters(run, mir, rp, fam):
    """Frame conditions of the Environment: every setter changes its own field and nothing else; shadow offsets."""
    ob = run.ob("environment-setters", "E2", "no Environment method that returns a modified copy changes the defined variables, the shadow table or the unassigned set "
                "unless it is the method for that field (with_unassigned, assigned_to, remove_var, override_mapping, insert_var), and those "
                "build the new value from the old one and their argument; insert_var gives a name that is already mapped locally a strictly "
                "larger offset (else the global one, else 0), records that offset and stores the variable under format_var_map(name, offset); "
                "get_var looks the name up under the local offset first, then the global one, then bare",
                ["Environment::{in_class, in_fun, is_def_mode, is_destruct_mode, is_expr, in_loop, return_type, with_unassigned, raises_caught, "
                 "assigned_to, remove_var, override_mapping, insert_var, get_var}"])
    fields = e2.rust_struct(ckern.ENV_RS, "Environment")
    direct = {"in_fun": ("in_fun", "arg"), "is_def_mode": ("is_def_mode", "arg"), "is_destruct_mode": ("is_destruct_mode", "arg"),
              "is_expr": ("is_expr", "arg"), "in_loop": ("in_loop", True), "return_type": ("return_type", "some-arg"),
              "in_class": ("class", "some-arg"), "with_unassigned": ("unassigned", "arg"), "raises_caught": ("raises_caught", "op:union"),
              "assigned_to": ("unassigned", "op:remove"), "remove_var": ("vars", "op:remove"), "override_mapping": ("var_mapping", "op:insert")}
    relevant = ("vars", "var_mapping", "unassigned")     # what definite assignment is decided from
    claims = []
    n = 0
    for meth, (target, how) in direct.items():
        fn = e2.find1(mir, file=ckern.ENV_RS, impl="impl Environment", name=meth)
        ex = Exec(mir, max_paths=500)
        st = State()
        env, evs = ckern.sym_env(ex, st)
        args = [env]
        argv = []
        for an, aty in fn.args[1:]:
            t = aty.strip()
            if t == "bool":
                v = z3.Bool(f"{meth}.arg{an}")
            elif t == "usize":
                v = z3.BitVec(f"{meth}.arg{an}", 64)
            elif t.startswith("&") and t != "&str":
                v = Ref(ex.new_cell(st, opq(f"{meth}.arg{an}", t.lstrip("&"))))
            else:
                v = opq(f"{meth}.arg{an}", t)
            args.append(v)
            argv.append(v)
        ends = e2.run_kernel(run, ex, fn, args, st)
        rets = [p for p in ends if p.kind == "return"]
        if not rets:
            raise Unsupported(f"Environment::{meth}: no return path")
        for p in rets:
            n += 1
            r = p.ret
            s_ = p.state
            if not (isinstance(r, Agg) and list(r.names or []) == fields):
                claims.append(z3.Implies(conj(p.cond), z3.BoolVal(False)))
                continue
            cl = []
            for f, v in zip(fields, r.fields):
                old = evs[f]
                if f not in relevant:
                    continue
                if f != target:
                    try:
                        cl.append(ex.to_val(s_, v) == ex.to_val(s_, old) if not (z3.is_expr(v) and z3.is_expr(old) and v.sort() == old.sort()) else v == old)
                    except Unsupported:
                        cl.append(z3.BoolVal(False))
                    continue
                a0 = argv[0] if argv else None
                if how == "arg":
                    av = ex.read_ref(s_, a0) if isinstance(a0, Ref) else a0
                    cl.append(v == av if (z3.is_expr(v) and z3.is_expr(av) and v.sort() == av.sort()) else ex.to_val(s_, v) == ex.to_val(s_, av))
                elif how is True:
                    cl.append(v == z3.BoolVal(True) if z3.is_bool(v) else z3.BoolVal(False))
                elif how == "some-arg":
                    good = isinstance(v, Agg) and v.variant == "Some"
                    cl.append(z3.BoolVal(good))
                    if good:
                        cl.append(ex.to_val(s_, v.fields[0]) == ex.to_val(s_, a0))
                else:
                    op = how.split(":")[1]
                    t = ex.to_val(s_, v)
                    sub = {}
                    stack = [t]
                    while stack:
                        x = stack.pop()
                        if x.get_id() in sub:
                            continue
                        sub[x.get_id()] = x
                        stack.extend(x.children())
                    heads = " ".join(x.decl().name() for x in sub.values() if z3.is_app(x))
                    has_old = ex.to_val(s_, old).get_id() in sub
                    has_arg = any(ex.to_val(s_, a).get_id() in sub for a in argv)
                    evs_ = [e_ for e_ in p.events if e_["name"].split("::")[-1] == op]
                    cl.append(z3.BoolVal(bool(has_old and (op in heads or evs_) and (has_arg or evs_))))
            claims.append(z3.Implies(conj(p.cond), conj(cl)))
    # insert_var / get_var: the shadow offset rule
    def m_get(ex_, st_, fr, callee, args, argtys, dty):
        k = len(st_.events)
        off = z3.BitVec(f"mapped{k}", 64)
        r = Opq(z3.Const(f"get{k}", Val), "Option<&usize>", {("v", "Some"): Agg("Option", "Some", [Ref(ex_.new_cell(st_, off))])})
        st_.events.append({"callee": callee, "name": "HashMap::get", "args": args, "argvals": [ex_.to_val(st_, a) for a in args],
                           "ret": r, "off": off, "in": ex_.canon_item(fr.fn), "depth": len(st_.frames), "ncond": len(st_.cond)})
        return r
    get_model = [(r"^HashMap::<std::string::String, usize>::get::<str>$", m_get)]
    fn = e2.find1(mir, file=ckern.ENV_RS, impl="impl Environment", name="insert_var")
    ex = Exec(mir, models=list(get_model), max_paths=2000)
    st = State()
    env, evs = ckern.sym_env(ex, st)
    var = opq("var", "&str")
    gmap = Ref(ex.new_cell(st, opq("global_mapping", "VarMapping")))
    ends = e2.run_kernel(run, ex, fn, [env, z3.Bool("mutable"), var, Ref(ex.new_cell(st, opq("expect", "Expected"))), gmap], st)
    for p in ends:
        if p.kind == "panic":
            continue          # offset + 1 at usize::MAX
        n += 1
        s_ = p.state
        gets = [e_ for e_ in p.events if e_["name"].endswith("HashMap::get")]
        fmt = [e_ for e_ in p.events if e_["name"].endswith("format_var_map")]
        ins = [e_ for e_ in p.events if e_["name"].endswith("HashMap::insert")]
        ok = len(fmt) == 1 and len(ins) == 2 and 1 <= len(gets) <= 2
        cl = [z3.BoolVal(ok)]
        if ok:
            off = fmt[0]["args"][1]
            off = ex.read_ref(s_, off) if isinstance(off, Ref) else off
            d0 = ex.discr(s_, gets[0]["ret"], "Option")
            local_first = gets[0]["argvals"][0] == ex.to_val(s_, evs["var_mapping"])
            cl.append(local_first)
            pay0 = gets[0]["off"]
            if len(gets) == 1:
                cl.append(z3.And(d0 == 1, z3.UGT(off, pay0)) if z3.is_bv(off) and z3.is_bv(pay0) else z3.BoolVal(False))
            else:
                d1 = ex.discr(s_, gets[1]["ret"], "Option")
                pay1 = gets[1]["off"]
                cl.append(z3.And(d0 == 0, gets[1]["argvals"][0] == ex.to_val(s_, gmap)))
                if z3.is_bv(off) and z3.is_bv(pay1):
                    cl.append(z3.If(d1 == 1, off == pay1, off == 0))
                else:
                    cl.append(z3.BoolVal(False))
            # the mapping records the offset, the variable is stored under the formatted name
            map_ins = [e_ for e_ in ins if z3.is_bv(e_["args"][2]) or "usize" in str(e_["callee"])]
            key_ins = [e_ for e_ in ins if z3.eq(e_["argvals"][1], ex.to_val(s_, fmt[0]["ret"]))]
            cl.append(z3.BoolVal(len(key_ins) == 1))
            other = [e_ for e_ in ins if e_ not in key_ins]
            if len(other) == 1 and z3.is_bv(other[0]["args"][2]) and z3.is_bv(off):
                cl.append(other[0]["args"][2] == off)
            else:
                cl.append(z3.BoolVal(False))
        claims.append(z3.Implies(conj(p.cond), conj(cl)))
    fn = e2.find1(mir, file=ckern.ENV_RS, impl="impl Environment", name="get_var")
    exg = Exec(mir, models=list(get_model), max_paths=2000)
    st = State()
    env, evs = ckern.sym_env(exg, st)
    gmap = Ref(exg.new_cell(st, opq("global_mapping", "VarMapping")))
    var = opq("var", "&str")
    ends = e2.run_kernel(run, exg, fn, [env, var, gmap], st)
    claims_g = []
    for p in ends:
        if p.kind != "return":
            continue
        n += 1
        s_ = p.state
        gets = [e_ for e_ in p.events if e_["name"].endswith("HashMap::get")]
        fmt = [e_ for e_ in p.events if e_["name"].endswith("format_var_map")]
        ok = 2 <= len(gets) <= 3
        cl = [z3.BoolVal(ok)]
        if ok:
            cl.append(gets[0]["argvals"][0] == exg.to_val(s_, evs["var_mapping"]))
            d0 = exg.discr(s_, gets[0]["ret"], "Option")
            last = gets[-1]
            cl.append(last["argvals"][0] == exg.to_val(s_, evs["vars"]))
            if len(gets) == 2:
                cl.append(z3.And(d0 == 1, z3.BoolVal(len(fmt) == 1)))
            else:
                cl.append(z3.And(d0 == 0, gets[1]["argvals"][0] == exg.to_val(s_, gmap)))
            if fmt:
                key = last["args"][1]
                key = exg.read_ref(s_, key) if isinstance(key, Ref) else key
                cl.append(exg.to_val(s_, key) == exg.to_val(s_, fmt[0]["ret"]))
        claims_g.append(z3.Implies(conj(p.cond), conj(cl)))
    if n < 15:
        raise Unsupported(f"only {n} setter paths")
    e2.prove(run, ob, ex, [], conj(claims), {},
             fam.as_replay("environment-setters:", only=["shadow", "defined-", "one-branch", "loop-variable", "block-", "field-"]))
    if ob.status == "discharged":
        ob.status = "pending"
        e2.prove(run, ob, exg, [], conj(claims_g), {}, fam.as_replay("environment-setters:", only=["shadow", "defined-", "block-"]))
    run.samples.append({"obligation": ob.id, "paths": n})


def ob_class_field_scope(run, mir, rp, fam):
    ob = run.ob("class-fields-not-in-method-scope", "E2", "constrain_class_body: the statements of a class body are not all generated in ONE carried environment - a field "
                "defined at class level may be visible to the initialisers of later fields, but not as a bare name inside a method body (in the emitted Python a class "
                "attribute is only reachable through self / the class: a bare name is a NameError, or silently a global of the same name)",
                ["constrain_class_body"])
    fn = e2.find1(mir, file=ckern.GEN + "class.rs", name="constrain_class_body")
    ex = Exec(mir, max_paths=5000, inline=[ckern.ENV_SETTERS])
    st = State()
    stmts = opq("statements", "&[AST]")
    ty, _ = ckern.mk_ast("ty", opq("ty.node", "Node"))
    env, _ev = ckern.sym_env(ex, st)
    ctx, constr = ckern.refs(ex, st, "ctx", "constr")
    ends = e2.run_kernel(run, ex, fn, [stmts, Ref(ex.new_cell(st, ty)), env, ctx, constr], st)
    claims, n = [], 0
    sv = ex.to_val(st, stmts)
    for p in ends:
        if result_kind(p) != "Ok":
            continue
        n += 1
        whole = [g for g in calls(p, "gen_vec") if z3.eq(g["argvals"][0], sv)]
        carried = [g for g in whole if not (z3.is_expr(g["args"][2]) and z3.is_false(z3.simplify(g["args"][2])))]
        claims.append(z3.Implies(conj(p.cond), z3.BoolVal(not carried)))
    if not n:
        raise Unsupported("no Ok path")
    f = e2.Family(rp)
    f.add("bare-field-in-method", "class A\n    def v: Int := 1\n    def m(self) -> Int => v", "reject")
    f.add("bare-field-shadows-global-in-method", "def v := \"g\"\nclass A\n    def v: Int := 1\n    def m(self) -> Int => v", "reject")
    f.add("field-through-self-in-method", "class A\n    def v: Int := 1\n    def m(self) -> Int => self.v", "accept")
    f.add("global-in-method", "def g := 2\nclass A\n    def v: Int := 1\n    def m(self) -> Int => g", "accept")

    def replay(model):
        k_, bad = f.run()
        if bad:
            roles = sorted(b["role"] for b in bad)
            return {"reproduced": True, "role": "class-field-visible-in-methods:" + "+".join(roles), "failing_programs": roles,
                    "detail": f"program {bad[0]['src']!r}: expected {bad[0]['expected']}, real verdict {bad[0]['got']}"}
        return {"reproduced": False, "detail": f"all {k_} programs behave as required"}
    e2.prove(run, ob, ex, [], conj(claims), {}, replay)
    if ob.status == "discharged":
        r_ = replay({})
        run.validated += len(f.items)
        if r_["reproduced"]:
            ob.status = "pending"
            ob.inconclusive("family disagrees although the kernel is as specified: " + r_["detail"])


def run(run):
    mir = e2.load_mir(run)
    rp = common.Replay()
    fam = family(rp)
    run.assume("generate, Environment::get_var / insert_var, HashSet operations are uninterpreted (or free) functions",
               "loop bodies from a havocked loop state; the loops' fixed points are outside",
               "outside: forward references between top-level definitions, comprehension variables, class scopes, match arms (constrain_cases loop)")
    run.trusted += ["rustc nightly MIR dump", "mirsym MIR semantics", "z3"]
    run.bounds = {"paths": "all paths, loops cut at headers"}
    for f in (ob_lookup, ob_sequencing, ob_flow, ob_comprehension, ob_env_ops, ob_env_setters, ob_class_field_scope, ob_self_field, ob_assigned_detection, ob_assignment_value_first, ob_lambda_body):
        try:
            f(run, mir, rp, fam)
        except Unsupported as e:
            run.ob(f.__name__[3:] + "-encoding", "E2", "kernel is encodable").inconclusive(f"unsupported construct: {e}")
    try:
        # shadowing: later uses see the new definition - identifiers are renamed to their current shadow (shared with C05)
        from props import C05
        C05.ob_shadow_mapping(run, mir, rp, fam)
    except Unsupported as e:
        run.ob("shadow-mapping-encoding", "E2", "kernel is encodable").inconclusive(f"unsupported construct: {e}")
    try:
        # every operand of a range / slice is visited, the optional step included: a name that is not defined there is seen (shared with C05)
        C05.ob_range_operands(run, mir, rp, fam)
    except Unsupported as e:
        run.ob("range-operands-encoding", "E2", "kernel is encodable").inconclusive(f"unsupported construct: {e}")
    if run.clean():
        e2.validate_family(run, fam, "definite-assignment")
    rp.close()
