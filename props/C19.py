"""C19 — diagnostics are well-formed: the rendering kernel (E2, MIR -> z3)."""
import re
import z3

import common
import e2
import poskern
from e2 import conj, disj, result_kind
from mirsym import Exec, State, Opq, Agg, Ref, StrC, Val, Unsupported
from poskern import MAXC, MAXL, valid_pos, sym_pos

LEVEL = "model_checking"
EXPLANATION = ("format_location (with its three closures, Position::get_width, Position::invisible inlined), "
               "format_err, LexErr::fmt and Position::union are executed symbolically from MIR with the "
               "position, the offset and the number of source lines free; assertions: no reachable panic, "
               "the quoted line is line pos.start.line and is printed with that number, caret run = "
               "get_width() >= 1 starting at column pos.start.pos, union contains both operands.")

SRC = ["alpha beta", "  gamma := delta", "", "epsilon", "zeta eta theta"]


def render_expect(rp, sl, sp, el, ep, lines):
    """Replays one rendering natively and checks it against the *property* (not the code)."""
    st, out = rp.req("render", sl, sp, el, ep, 0, 0, 0, common.hexs("\n".join(lines)))
    if st != "OK":
        return {"ok": False, "why": f"{st}: {out[:120]}", "status": st}
    if not (1 <= sl <= len(lines)) or lines[sl - 1] == "":
        return {"ok": True, "why": "no line to quote"}
    want = f"{sl:4} | {lines[sl - 1]}"
    ol = out.split("\n")
    hit = [i for i, l in enumerate(ol) if l == want]
    if not hit:
        return {"ok": False, "why": f"quoted line {want!r} not in output {out!r}"}
    caret = ol[hit[0] + 1] if hit[0] + 1 < len(ol) else ""
    width = max(1, abs(ep - sp))
    wantc = " " * 7 + " " * (sp - 1) + "^" * width
    if caret.rstrip("\n") != wantc:
        return {"ok": False, "why": f"caret line {caret!r}, expected {wantc!r}"}
    # no other numbered line may claim number sl with another text
    for l in ol:
        m = re.match(r"^\s*(\d+) \| (.*)$", l)
        if m and 1 <= int(m.group(1)) <= len(lines) and lines[int(m.group(1)) - 1] != m.group(2):
            return {"ok": False, "why": f"line {m.group(1)} quoted as {m.group(2)!r}"}
    return {"ok": True, "why": ""}


def render_family(rp):
    bad, n = [], 0
    for sl in range(1, len(SRC) + 1):
        for sp in (1, 3, 7):
            for w in (0, 1, 4):
                n += 1
                r = render_expect(rp, sl, sp, sl, sp + w, SRC)
                if not r["ok"]:
                    bad.append({"role": f"render:line{sl}", "pos": [sl, sp, sl, sp + w], "why": r["why"]})
    for pos in ((0, 0, 0, 0), (6, 1, 6, 2), (1, 1, 3, 1), (5, 14, 5, 15)):
        n += 1
        r = render_expect(rp, *pos, SRC)
        if not r["ok"]:
            bad.append({"role": "render:edge", "pos": list(pos), "why": r["why"]})
    return n, bad


def replay_render(rp, what, panic_only=False):
    def f(model):
        # 1. the model's own position, if it is small enough to build a source for
        try:
            sl, sp, el, ep = (int(model.get(k, 0)) for k in
                              ("pos.start.line", "pos.start.pos", "pos.end.line", "pos.end.pos"))
            L = int(model.get("linecount", 5))
            if 0 <= L <= 5000 and all(0 <= x <= MAXC for x in (sl, sp, el, ep)) and sp <= 100000:
                lines = [f"line{i}" for i in range(1, L + 1)]
                r = render_expect(rp, sl, sp, el, ep, lines)
                if not r["ok"] and (not panic_only or r.get("status") in ("PANIC", "CRASH")):
                    return {"reproduced": True, "role": f"{what}:model", "detail":
                            f"render of pos ({sl},{sp})-({el},{ep}) over {L} lines: {r['why']}",
                            "pos": [sl, sp, el, ep], "lines": L}
        except Exception as e:   # pragma: no cover
            pass
        n, bad = render_family(rp)
        if panic_only:
            bad = [b for b in bad if b["why"].startswith(("PANIC", "CRASH"))]
        if bad:
            return {"reproduced": True, "role": f"{what}:{bad[0]['role']}", "detail": str(bad[0]), "all": bad[:5]}
        return {"reproduced": False, "detail": f"model position and {n} family renderings are all well-formed"}
    return f


def ob_sources_attached(run, mir, rp):
    """Each error is given the text and the path of the file it was raised for."""
    ob = run.ob("diagnostics-carry-their-file", "E2", "mamba_to_python: in each of the three stages the closure that turns an error into a "
                "diagnostic calls with_source with Some(source text) and the path of the SAME (source, path) pair the stage was run on; "
                "unify_type_message puts the message at the child's position and the cause at the parent's",
                ["mamba_to_python::{closure}s (parse, check, generate)", "unify_type_message"])
    try:
        claims, n = [], 0
        ex = Exec(mir, max_paths=2000)
        # inner closures: (captures ..., err) -> err.with_source(&Some(src.clone()), &path.clone())
        inner = [(nme, f) for nme, f in mir.fns.items() if re.match(r"^mamba_to_python::\{closure#\d+\}(::\{closure#\d+\})+$", nme)]
        for nme, f in inner:
            st = State()
            src, path = Opq(z3.Const("src", Val), "String"), Opq(z3.Const("path", Val), "Option<PathBuf>")
            srcr, pathr = Ref(ex.new_cell(st, src)), Ref(ex.new_cell(st, path))
            envty = f.args[0][1]
            env = Agg("closure", envty.lstrip("&").replace("mut ", "").strip(), [srcr, pathr])
            args = [Ref(ex.new_cell(st, env)) if envty.strip().startswith("&") else env]
            for an, aty in f.args[1:]:
                t = aty.strip()
                args.append(Ref(ex.new_cell(st, Opq(z3.Const(f"err{an}", Val), t.lstrip("&")))) if t.startswith("&") else Opq(z3.Const(f"err{an}", Val), t))
            try:
                ends = e2.run_kernel(run, ex, f, args, st)
            except Unsupported:
                continue          # a closure with other captures (not a with_source closure)
            for p in ends:
                ws = [e_ for e_ in p.events if e_["name"].endswith("with_source")]
                if not ws:
                    continue
                n += 1
                s_ = p.state
                a_src = ws[-1]["args"][1]
                a_src = ex.read_ref(s_, a_src) if isinstance(a_src, Ref) else a_src
                a_path = ws[-1]["argvals"][2]
                ok_src = isinstance(a_src, Agg) and a_src.variant == "Some"
                cl = [z3.BoolVal(ok_src), a_path == ex.to_val(s_, path)]
                if ok_src:
                    cl.append(ex.to_val(s_, a_src.fields[0]) == ex.to_val(s_, src))
                claims.append(z3.Implies(conj(p.cond), conj(cl)))
        if n < 3:
            raise Unsupported(f"only {n} with_source sites found")
        # unify_type_message
        fn = e2.find1(mir, file="src/check/constrain/unify/ty.rs", name="unify_type_message")
        st = State()
        EXP_RS = "src/check/constrain/constraint/expected.rs"
        mk = lambda tag: e2.mk_struct(EXP_RS, "Expected", {"pos": Opq(z3.Const(tag + ".pos", Val), "Position"), "expect": Opq(z3.Const(tag + ".expect", Val), "Expect"), "an_or_a": z3.Bool(tag + ".an")})
        sup, child = mk("sup"), mk("child")
        ends = e2.run_kernel(run, ex, fn, [Opq(z3.Const("prepend", Val), "&str"), Opq(z3.Const("cause_msg", Val), "&str"),
                                           Ref(ex.new_cell(st, sup)), Ref(ex.new_cell(st, child))], st)
        fields = e2.rust_struct(EXP_RS, "Expected")
        for p in ends:
            if p.kind != "return":
                continue
            new = [e_ for e_ in p.events if e_["name"].endswith("TypeErr::new")]
            wc = [e_ for e_ in p.events if e_["name"].endswith("with_cause")]
            ok = len(new) == 1 and len(wc) == 1
            cl = [z3.BoolVal(ok)]
            if ok:
                cl += [new[0]["argvals"][0] == ex.to_val(p.state, child.fields[fields.index("pos")]),
                       wc[0]["argvals"][2] == ex.to_val(p.state, sup.fields[fields.index("pos")]),
                       wc[0]["argvals"][0] == ex.to_val(p.state, new[0]["ret"])]
            claims.append(z3.Implies(conj(p.cond), conj(cl)))

        def replay(model):
            bad = []
            progs = [("def x: Int := \"s\"", 1), ("def a := 1\ndef x: Int := \"s\"", 2), ("def a := 1\n\nprint(zz)", 3), ("def f(x: Int) -> Int =>\n    x +\n", 2),
                     ("def s := \"abc", 1), ("def a := 1\ndef b := 2\ndef y: Str := a", 3)]
            for src, line in progs:
                stt, out = rp.transpile(src)
                if stt != "ERR":
                    bad.append(f"{src!r}: {stt}")
                    continue
                quoted = src.split("\n")[line - 1]
                if f":{line}:" not in out or (quoted.strip() and quoted not in out):
                    bad.append(f"{src!r}: diagnostic does not show line {line} {quoted!r}: {out[:160]!r}")
            if bad:
                return {"reproduced": True, "role": "diagnostic-source", "detail": "; ".join(bad[:2])}
            return {"reproduced": False, "detail": f"{len(progs)} diagnostics quote their own file's line"}
        e2.prove(run, ob, ex, [], conj(claims), {}, replay)
        run.samples.append({"obligation": ob.id, "with_source_sites": n})
    except Unsupported as e:
        ob.inconclusive(str(e))


def ob_errors_paired(run, mir, rp):
    """The error that is decorated with a (source, path) pair was produced from the item paired with it."""
    ob = run.ob("errors-paired-with-their-file", "E2", "mamba_to_python: every closure that decorates errors with a (source text, path) pair runs the stage "
                "(parse / check / gen_arguments) itself, on the item it received together with that pair, and decorates exactly the errors that "
                "call returned - the pairing of an error with a file is never made after results of several files were filtered or collected",
                ["mamba_to_python::{closure}s (parse, check, generate) incl. nested closures"])
    import mirsym
    PAIR = "&(std::string::String, Option<PathBuf>)"
    try:
        claims, n_sites, n_closures = [], 0, 0
        ex = Exec(mir, max_paths=2000)
        outer = [(n, f) for n, f in mir.fns.items() if re.match(r"^mamba_to_python::\{closure#\d+\}$", n)]
        for n, f in outer:
            st = State()
            src, path = Opq(z3.Const("src", Val), "String"), Opq(z3.Const("path", Val), "Option<PathBuf>")
            pair = Ref(ex.new_cell(st, Agg("tuple", None, [src, path])))
            pty = f.args[1][1].strip()
            items = []

            def mkc(t, i):
                t = t.strip()
                if t == PAIR:
                    return pair
                v = Opq(z3.Const(f"item{i}", Val), t.lstrip("&"))
                items.append(v)
                return Ref(ex.new_cell(st, v)) if t.startswith("&") else v
            if pty.startswith("("):
                param = Agg("tuple", None, [mkc(t, i) for i, t in enumerate(mirsym.split_top(pty[1:-1]))])
            else:
                param = mkc(pty, 0)
            if PAIR not in pty:
                continue                    # not a per-file closure
            envty = f.args[0][1].strip()
            env = Agg("closure", envty.lstrip("&").replace("mut ", "").strip(), [Ref(ex.new_cell(st, Opq(z3.Const(f"cap{i}", Val), "?"))) for i in range(4)])
            ends = e2.run_kernel(run, ex, f, [Ref(ex.new_cell(st, env)) if envty.startswith("&") else env, param], st)
            n_closures += 1
            for p in ends:
                s_ = p.state
                ws = [e_ for e_ in p.events if e_["name"].endswith("with_source")]
                maps = [e_ for e_ in p.events if e_["name"] == "Iterator::map" and isinstance(e_["args"][1], Agg) and e_["args"][1].ty == "closure"
                        and (mirsym.fn_of_value(ex, e_["args"][1]) is not None)
                        and any("with_source" in str(st_) for st_ in _fn_text(mirsym.fn_of_value(ex, e_["args"][1])))]
                if not ws and not maps:
                    continue
                n_sites += 1
                stage = [e_ for e_ in p.events if e_["name"].split("::")[-1] in ("parse", "check", "gen_arguments")]
                if len(stage) != 1:
                    claims.append(z3.Not(conj(p.cond)))      # errors decorated here were not produced here
                    continue
                sg = stage[0]
                own = ex.to_val(s_, src) if sg["name"].split("::")[-1] == "parse" else (ex.to_val(s_, items[0]) if items else None)
                if own is None:
                    claims.append(z3.Not(conj(p.cond)))
                    continue
                errp = ex.to_val(s_, ex.project(s_, ex.project(s_, sg["ret"], ("v", "Err")), ("f", 0), "?"))
                cl = [sg["argvals"][0] == own]
                for w in ws:
                    a_src = w["args"][1]
                    a_src = ex.read_ref(s_, a_src) if isinstance(a_src, Ref) else a_src
                    ok_src = isinstance(a_src, Agg) and a_src.variant == "Some"
                    cl += [z3.BoolVal(ok_src), w["argvals"][2] == ex.to_val(s_, path), w["argvals"][0] == errp]
                    if ok_src:
                        cl.append(ex.to_val(s_, a_src.fields[0]) == ex.to_val(s_, src))
                for m_ in maps:
                    caps = [ex.read_ref(s_, c) if isinstance(c, Ref) else c for c in m_["args"][1].fields]
                    its = [e_ for e_ in p.events if e_["name"].split("::")[-1] in ("iter", "into_iter") and z3.eq(ex.to_val(s_, e_["ret"]), m_["argvals"][0])]
                    cl.append(z3.BoolVal(len(caps) == 2 and len(its) == 1))
                    if len(caps) == 2 and len(its) == 1:
                        cl += [ex.to_val(s_, caps[0]) == ex.to_val(s_, src), ex.to_val(s_, caps[1]) == ex.to_val(s_, path), its[0]["argvals"][0] == errp]
                claims.append(z3.Implies(conj(p.cond), conj(cl)))
        if n_sites < 3 or n_closures < 3:
            raise Unsupported(f"{n_sites} decorating paths in {n_closures} per-file closures")

        def replay(model):
            from props import C13
            bad = []
            good = "def x := 1\nprint(x)\n"
            faulty = {"type-error": ("def ok := 1\n\n\ndef y: Int := \"oops\"\n", 4), "undefined-name": ("def ok := 1\nprint(zz)\n", 2)}
            for kind, (txt, line) in faulty.items():
                for files in ({"src/a.mamba": good, "src/b.mamba": txt}, {"src/a.mamba": good, "src/b.mamba": good, "src/c.mamba": txt},
                              {"src/a.mamba": txt, "src/b.mamba": good}):
                    where = [k for k, v in files.items() if v == txt][0]
                    stt, msg, _out = C13.run_project(rp, files)
                    quoted = txt.split("\n")[line - 1]
                    if stt != "ERR" or f"{where}:{line}:" not in msg or quoted not in msg:
                        bad.append(f"{kind} in {where} of {sorted(files)}: status {stt}, diagnostic {msg[:200]!r}")
            if bad:
                return {"reproduced": True, "role": "diagnostic-names-another-file", "detail": "; ".join(bad[:2])}
            return {"reproduced": False, "detail": "6 multi-file projects: every diagnostic names and quotes the faulty file"}
        e2.prove(run, ob, ex, [], conj(claims), {}, replay)
        run.samples.append({"obligation": ob.id, "decorating_paths": n_sites, "per_file_closures": n_closures})
    except Unsupported as e:
        ob.inconclusive(str(e))


def ob_eof_position(run, mir, rp):
    """The end-of-file token (where `unexpected end of file` errors point) lies inside the text."""
    ob = run.ob("eof-position", "E2", "tokenize, from an arbitrary state at the exit of the character loop: the token vector handed to the doc-string pass is "
                "(tokens so far ++ pending dedents) followed by one Eof token; Eof is placed one column after the END of the last token of that "
                "vector (CaretPos::start() when there is none) - never at the lexer's cursor, which has already moved past trailing newlines",
                ["tokenize (after the loop)"])
    try:
        fn = e2.find1(mir, file="src/parse/lex/mod.rs", name="tokenize")
        ex = Exec(mir, max_paths=2000)
        st = State()
        ends = e2.run_kernel(run, ex, fn, [Opq(z3.Const("input", Val), "&str")], st)
        lexf = e2.rust_struct("src/parse/lex/token.rs", "Lex")
        posf = e2.rust_struct("src/common/position.rs", "Position")
        claims, n = [], 0
        for p in ends:
            if result_kind(p) != "Ok":
                continue
            n += 1
            s_ = p.state
            ev = {k: [e_ for e_ in p.events if e_["name"] == k] for k in ("last", "CaretPos::offset_pos", "CaretPos::start", "Lex::new", "pass", "State::flush_indents")}
            if not (len(ev["last"]) == 1 and len(ev["Lex::new"]) == 1 and len(ev["pass"]) == 1 and len(ev["State::flush_indents"]) == 1):
                claims.append(z3.Not(conj(p.cond)))
                continue
            last, new, pas = ev["last"][0], ev["Lex::new"][0], ev["pass"][0]
            vec = pas["argvals"][0]
            shape = z3.is_app(vec) and vec.decl().name() == "seq:snoc" and z3.eq(vec.arg(0), last["argvals"][0]) and z3.eq(vec.arg(1), ex.to_val(s_, new["ret"]))
            t0 = last["argvals"][0]
            shape = shape and z3.is_app(t0) and t0.decl().name() == "seq:cat" and z3.eq(t0.arg(1), ex.to_val(s_, ev["State::flush_indents"][0]["ret"]))
            cl = [z3.BoolVal(bool(shape)), ex.to_val(s_, p.ret.fields[0]) == ex.to_val(s_, pas["ret"]),
                  new["argvals"][1] == ex.to_val(s_, Agg("Token", "Eof", []))]
            d = ex.discr(s_, last["ret"], "Option<&Lex>")
            lx = ex.project(s_, ex.project(s_, last["ret"], ("v", "Some")), ("f", 0), "&Lex")
            end = ex.project(s_, ex.project(s_, lx, ("f", lexf.index("pos")), "Position"), ("f", posf.index("end")), "CaretPos")
            if ev["CaretPos::offset_pos"]:
                o = ev["CaretPos::offset_pos"][0]
                cl += [d == 1, new["argvals"][0] == ex.to_val(s_, o["ret"]), o["argvals"][0] == ex.to_val(s_, end),
                       o["args"][1] == z3.BitVecVal(1, 64) if z3.is_bv(o["args"][1]) else z3.BoolVal(False)]
            elif ev["CaretPos::start"]:
                cl += [d == 0, new["argvals"][0] == ex.to_val(s_, ev["CaretPos::start"][0]["ret"])]
            else:
                cl.append(z3.BoolVal(False))
            claims.append(z3.Implies(conj(p.cond), conj(cl)))
        if n < 2:
            raise Unsupported(f"{n} Ok paths")

        def replay(model):
            bad = []
            for src in ("def a := 1\ndef b := (2 + 3\n", "def a := 1\ndef b := (2 + 3\n\n\n", "def a := 1\ndef b := (2 + 3", "print(1\n", "def f(x: Int) -> Int =>\n    x +\n"):
                stt, out = rp.transpile(src)
                nlines = len(src.rstrip("\n").split("\n"))
                m = re.search(r":(\d+):(\d+)", out)
                if stt != "ERR" or not m or int(m.group(1)) > nlines or "<unknown>" in out.split("\n", 2)[-1][:40]:
                    bad.append(f"{src!r}: {stt} {out[:120]!r}")
            if bad:
                return {"reproduced": True, "role": "eof-outside-text", "detail": "; ".join(bad[:2])}
            return {"reproduced": False, "detail": "5 truncated programs are reported on an existing line"}
        e2.prove(run, ob, ex, [], conj(claims), {}, replay)
    except Unsupported as e:
        ob.inconclusive(str(e))


def _fn_text(fn):
    """Names of everything the MIR function calls (for "does this closure decorate errors")."""
    out = []
    for b in fn.blocks.values() if isinstance(fn.blocks, dict) else fn.blocks:
        t = getattr(b, "term", None)
        out.append(str(t))
    return out


def run(run):
    mir = e2.load_mir(run)
    rp = common.Replay()
    run.assume("0 <= line, column <= 2^31-2 and positions are either invisible() or have all four coordinates >= 1 (documented 1-indexing)",
               "offset in {0,1} (the only values format_err passes)",
               "str::lines().nth(i) is Some(line i+1) iff i < number of lines (documented contract); number of lines <= 2^20",
               "String::from_utf8 of a vector built by vec![ascii; n] is Ok",
               "formatting machinery (fmt::Arguments, write_fmt, format) is uninterpreted",
               "unwind edges are not followed")
    run.trusted += ["rustc nightly MIR dump", "mirsym MIR semantics", "z3"]
    run.bounds = {"coordinates": f"<= {MAXC}", "source_lines": f"<= {MAXL}", "offset": "<= 1",
                  "outside": "that every error path attaches the right file; that a fault on line L is "
                             "reported on line L (whole checker on symbolic programs)"}
    try:
        ex, st, ends, inp = poskern.run_format_location(run, mir)
    except Unsupported as e:
        run.ob("format-location-encoding", "E2", "format_location is encodable").inconclusive(str(e))
        rp.close()
        return
    sl, sp, el, ep = inp["pos"]
    lines = poskern.lines_term(ex, st, inp["srcs"])
    L = ex.uf("linecount", Val, z3.BitVecSort(64))(ex.to_val(st, lines))
    pre = [valid_pos(inp["pos"]), z3.ULE(inp["offset"], 1), z3.ULE(L, MAXL)]
    names = {"pos.start.line": sl, "pos.start.pos": sp, "pos.end.line": el, "pos.end.pos": ep,
             "offset": inp["offset"], "linecount": L, "source.is_some": inp["src_some"]}
    rets = [p for p in ends if p.kind == "return"]
    panics = [p for p in ends if p.kind == "panic"]
    others = [p for p in ends if p.kind not in ("return", "panic")]
    if others:
        run.ob("format-location-encoding", "E2", "format_location is encodable").inconclusive(
            f"unexpected path ends {others[:2]}")

    # (a) no panic
    ob = run.ob("render-no-panic", "E2", "format_location, its closures and get_width cannot panic "
                "(overflow checks, unwrap, casts) for any valid position", ["format_location", "format_location::{closure#0..2}", "Position::get_width"])
    e2.prove(run, ob, ex, pre, z3.Not(disj([conj(p.cond) for p in panics])), names, replay_render(rp, "no-panic"))
    ob.detail += f"; {len(panics)} panic sites/paths, {len(rets)} return paths"
    run.samples.append({"obligation": ob.id, "panic_path_example": panics[0].detail if panics else None,
                        "paths": len(ends)})

    # coverage: every valid input reaches some return path
    ob = run.ob("render-total", "E2", "for every valid input some encoded path returns (no value falls between the paths)")
    e2.prove(run, ob, ex, pre, disj([conj(p.cond) for p in rets]), names, replay_render(rp, "total"))

    # (b) quoted line
    ob = run.ob("quoted-line", "E2", "when 1 <= pos.start.line <= #lines and that line is non-empty, the quoted line is "
                "line_at(source, pos.start.line - 1) and the number printed with it is pos.start.line",
                ["format_location", "format_location::{closure#1}"])
    quoted = ex.uf("line_at", Val, z3.BitVecSort(64), Val)(ex.to_val(st, lines), sl - 1)
    nonempty = z3.Not(ex.app("is_empty", [quoted], "bool", st))
    hyp = pre + [inp["src_some"], z3.UGE(sl, 1), z3.ULE(sl, L), nonempty]
    cl = []
    cl1 = None
    for fn_ in mir.find(file=poskern.RESULT_RS, name="format_location", closure=["{closure#1}"]):
        cl1 = ex.canon_item(fn_)
    if cl1 is None:
        raise Unsupported("closure#1 of format_location not found")
    for p in rets:
        disp = [ev for ev in p.events if ev["name"] == "Argument::new_display" and ev["in"] == cl1]
        num = disj([ev["argvals"][0] == ex.to_val(st, sl) for ev in disp])
        txt = disj([ev["argvals"][0] == quoted for ev in disp])
        cl.append(z3.Implies(conj(p.cond), z3.And(num, txt)))
    e2.prove(run, ob, ex, hyp, conj(cl), names, replay_render(rp, "quoted-line"))

    # (c) caret run
    ob = run.ob("caret-run", "E2", "the caret run has length max(1, |end.pos - start.pos|) = get_width() and is "
                "preceded by offset*4 + start.pos - 1 spaces", ["format_location", "Position::get_width"])
    width = z3.If(z3.UGE(ep, sp), ep - sp, sp - ep)
    width = z3.If(width == 0, z3.BitVecVal(1, 64), width)
    indent = inp["offset"] * 4 + sp - 1
    visible = z3.Not(z3.And(sl == 0, sp == 0, el == 0, ep == 0))
    cl = []
    for p in rets:
        fe = [ev for ev in p.events if ev["name"] == "from_elem"]
        carets = disj([z3.And(ev["argvals"][0] == ex.to_val(st, z3.BitVecVal(94, 8)),
                              ev["argvals"][1] == ex.to_val(st, width)) for ev in fe])
        spaces = disj([z3.And(ev["argvals"][0] == ex.to_val(st, z3.BitVecVal(32, 8)),
                              ev["argvals"][1] == ex.to_val(st, indent)) for ev in fe])
        cl.append(z3.Implies(conj(p.cond), z3.And(carets, spaces)))
    e2.prove(run, ob, ex, pre + [visible], conj(cl), names, replay_render(rp, "caret-run"))

    # (d) union
    try:
        ob = run.ob("union-contains", "E2", "Position::union of two valid positions is valid and contains both",
                    ["Position::union"])
        fn = e2.find1(mir, file=poskern.POSITION_RS, impl="impl Position", name="union")
        ex2 = Exec(mir, inline=poskern.POS_INLINE)
        st2 = State()
        a, av = sym_pos("a")
        b, bv = sym_pos("b")
        ar = Ref(ex2.new_cell(st2, a))
        ends2 = e2.run_kernel(run, ex2, fn, [ar, b], st2)
        cl = []
        rng = lambda v: z3.And(*[z3.And(z3.UGE(x, 1), z3.ULE(x, MAXC)) for x in v])
        for p in ends2:
            if p.kind != "return":
                cl.append(z3.Not(conj(p.cond)))
                continue
            r = p.ret
            rs, re_ = r.fields[0].fields, r.fields[1].fields
            contains = z3.And(*[z3.And(z3.ULE(rs[0], v[0]), z3.ULE(rs[1], v[1]), z3.UGE(re_[0], v[2]),
                                       z3.UGE(re_[1], v[3])) for v in (av, bv)])
            tight = z3.And(z3.Or(rs[0] == av[0], rs[0] == bv[0]), z3.Or(rs[1] == av[1], rs[1] == bv[1]),
                           z3.Or(re_[0] == av[2], re_[0] == bv[2]), z3.Or(re_[1] == av[3], re_[1] == bv[3]))
            cl.append(z3.Implies(conj(p.cond), z3.And(contains, tight, rng(list(rs) + list(re_)))))
        nm = {f"a.{i}": x for i, x in enumerate(av)}
        nm.update({f"b.{i}": x for i, x in enumerate(bv)})

        def rp_union(model):
            a_ = [int(model[f"a.{i}"]) for i in range(4)]
            b_ = [int(model[f"b.{i}"]) for i in range(4)]
            stt, out = rp.req("union", *a_, *b_)
            if stt != "OK":
                return {"reproduced": True, "role": "union:panic", "detail": f"union({a_},{b_}): {stt} {out[:80]}"}
            u = [int(x) for x in out.split()]
            ok = all(u[0] <= v[0] and u[1] <= v[1] and u[2] >= v[2] and u[3] >= v[3] for v in (a_, b_)) and \
                all(u[i] in (a_[i], b_[i]) for i in range(4))
            if not ok:
                return {"reproduced": True, "role": "union:containment", "detail": f"union({a_},{b_}) = {u}"}
            return {"reproduced": False, "detail": f"union({a_},{b_}) = {u} is fine"}
        e2.prove(run, ob, ex2, [rng(av), rng(bv)], conj(cl), nm, rp_union)
    except Unsupported as e:
        ob.inconclusive(f"unsupported: {e}")

    # (e) LexErr::fmt
    try:
        ob = run.ob("lexerr-render", "E2", "LexErr::fmt cannot panic and quotes line pos.line - 1 of the source",
                    ["LexErr::fmt"])
        fn = e2.find1(mir, file=poskern.LEXRESULT_RS, impl="impl Display for LexErr", name="fmt")
        ex3 = Exec(mir, inline=poskern.POS_INLINE, models=poskern.POS_MODELS)
        st3 = State()
        ln, ps = z3.BitVec("pos.line", 64), z3.BitVec("pos.pos", 64)
        srcs = Opq(z3.Const("source.text", Val), "String")
        some = z3.Bool("source.is_some")
        srcv = Opq(z3.Const("source", Val), "Option<String>", {("d",): z3.If(some, z3.IntVal(1), z3.IntVal(0)),
                                                               ("v", "Some"): Agg("Option", "Some", [srcs])})
        tok = Opq(z3.Const("token", Val), "Option<Token>")
        err = Agg("LexErr", None, [Agg("CaretPos", None, [ln, ps]), tok,
                                   Opq(z3.Const("msg", Val), "String"), srcv,
                                   Opq(z3.Const("path", Val), "Option<PathBuf>")])
        # field order from the source
        order = re.search(r"pub struct LexErr \{(.*?)\}", common.read_repo(poskern.LEXRESULT_RS), re.S)
        names_ = re.findall(r"pub (\w+):", order.group(1)) if order else []
        byname = {"pos": Agg("CaretPos", None, [ln, ps]), "token": tok, "msg": Opq(z3.Const("msg", Val), "String"),
                  "source": srcv, "path": Opq(z3.Const("path", Val), "Option<PathBuf>")}
        if sorted(names_) != sorted(byname):
            raise Unsupported(f"LexErr fields changed: {names_}")
        err = Agg("LexErr", None, [byname[n] for n in names_], names_)
        f = Ref(ex3.new_cell(st3, Opq(z3.Const("f", Val), "Formatter")))
        ends3 = e2.run_kernel(run, ex3, fn, [Ref(ex3.new_cell(st3, err)), f], st3)
        pre3 = [z3.ULE(ln, MAXC), z3.ULE(ps, MAXC)]
        pan = [p for p in ends3 if p.kind == "panic"]
        # width() of the token is uninterpreted: from_elem sizes are unconstrained, so only
        # arithmetic panics are meaningful here
        lines3 = ex3.app("lines", [srcs], "Lines", st3)
        cl = [z3.Not(disj([conj(p.cond) for p in pan]))]
        for p in ends3:
            if p.kind != "return":
                continue
            nth = [ev for ev in p.events if ev["name"] == "Iterator::nth"]
            cl.append(z3.Implies(z3.And(conj(p.cond), some, z3.UGE(ln, 1)),
                                 disj([z3.And(ev["idx"] == ln - 1, ev["lines"] == ex3.to_val(st3, lines3)) for ev in nth])))

        def rp_lex(model):
            l, c = int(model.get("pos.line", 1)), int(model.get("pos.pos", 1))
            if l > 5000 or c > 100000:
                return {"reproduced": False, "detail": "model too large to replay"}
            stt, out = rp.req("lexerr", l, c, common.hexs("\n".join(SRC)))
            if stt != "OK":
                return {"reproduced": True, "role": "lexerr:panic", "detail": f"LexErr at {l}:{c}: {stt} {out[:100]}"}
            if 1 <= l <= len(SRC) and SRC[l - 1] not in out:
                return {"reproduced": True, "role": "lexerr:line", "detail": f"line {l} not quoted: {out!r}"}
            return {"reproduced": False, "detail": "renders fine"}
        e2.prove(run, ob, ex3, pre3, conj(cl), {"pos.line": ln, "pos.pos": ps, "source.is_some": some}, rp_lex)
    except Unsupported as e:
        ob.inconclusive(f"unsupported: {e}")

    # positions of re-lexed interpolation tokens are re-based with CaretPos::offset: a diagnostic inside "{expr}" points
    # into the right line only if that arithmetic is exact
    try:
        from props import C18
        C18.ob_caret(run, mir, rp)
    except Unsupported as e:
        run.ob("caret-arith-encoding", "E2", "CaretPos kernels encodable").inconclusive(str(e))

    # translator validation: the same renderings, natively
    if all(o.status == "discharged" for o in run.obs):
        n, bad = render_family(rp)
        run.validated += n
        if bad:
            run.ob("family-render", "native", "concrete renderings agree with discharged obligations").inconclusive(str(bad[:2]))
    ob_sources_attached(run, mir, rp)
    ob_errors_paired(run, mir, rp)
    ob_eof_position(run, mir, rp)
    rp.close()
