"""C15 — renaming commutes with transpilation: the name tables and the generator's special cases (E1 + E2)."""
import os
import re
import z3

import common
import e2
from e2 import conj, disj, opq, sym_option, mk_struct, mk_variant, calls, result_kind
from mirsym import Exec, State, Opq, Agg, Ref, StrC, Seq, SymColl, Val, Unsupported, Fork

LEVEL = "model_checking"
EXPLANATION = ("Kani decides the two spelling tables (concrete_to_python, as_op_or_id) over every ASCII identifier up to the "
               "stated length against the documented lists; the FunDef arm of convert_def and the Id arm of convert_node are "
               "executed symbolically from MIR with the identifier free: z3 decides that a function keeps its name unless it is "
               "the documented constructor name or an operator name, and that an identifier is only changed by the name table.")

DEF_RS = "src/generate/convert/definition.rs"
POOL = ["foo", "size", "init", "super", "math", "typing", "Optional", "ABC", "range", "abstractmethod", "x1"]


def rename_family(rp):
    """Rename the function `foo` to each name of the pool: verdict unchanged, output = renamed output."""
    bad, n = [], 0
    tmpl = "def {f}(a: Int) -> Int => a + 1\ndef r := {f}(2)\nprint(r)"
    tmpl2 = "class A\n    def v: Int := 1\n    def {f}(self) -> Int => self.v\ndef z := A()\nprint(z.{f}())"
    for t_i, t in enumerate((tmpl, tmpl2)):
        s0, o0 = rp.transpile(t.format(f="foo"))
        for name in POOL[1:]:
            n += 1
            s1, o1 = rp.transpile(t.format(f=name))
            if s0 != s1:
                bad.append({"role": f"name:{name}", "src": t.format(f=name), "why": f"verdict {s0} -> {s1}: {o1[:80]}"})
                continue
            if s0 == "OK" and re.sub(r"\bfoo\b", name, o0) != o1:
                bad.append({"role": f"name:{name}", "src": t.format(f=name), "why": f"output is not the renamed output: {o1.strip()!r}"})
    return n, bad


def fam_replay(rp, what):
    def f(model):
        n, bad = rename_family(rp)
        if bad:
            return {"reproduced": True, "role": f"{what}:{bad[0]['role']}", "detail": f"{bad[0]['src']!r}: {bad[0]['why']}",
                    "all_roles": sorted({b["role"] for b in bad})}
        return {"reproduced": False, "detail": f"{n} renamings commute"}
    return f


def ob_fundef_name(run, mir, rp):
    fn = e2.find1(mir, file=DEF_RS, name="convert_def")
    ex = Exec(mir, max_paths=50000)
    st = State()
    lay = e2.rust_enum("src/check/ast/mod.rs", "NodeTy")["FunDef"]
    idn = opq("id", "Box<ASTTy>")
    vals = {"id": idn, "args": opq("args", "Vec<ASTTy>"), "ret": opq("ret", "Option<Box<ASTTy>>"), "raises": opq("raises", "Vec<ASTTy>"),
            "body": opq("body", "Option<Box<ASTTy>>"), "pure": z3.Bool("pure")}
    if sorted(vals) != sorted(lay):
        raise Unsupported(f"NodeTy::FunDef fields changed: {lay}")
    node = Agg("NodeTy", "FunDef", [vals[k] for k in lay], lay)
    names_ = e2.rust_struct("src/check/ast/mod.rs", "ASTTy")
    by = {"pos": opq("pos", "Position"), "node": node, "ty": opq("ty", "Option<Name>")}
    astv = Agg("ASTTy", None, [by[n] for n in names_], names_)
    imp, state, ctx = (Ref(ex.new_cell(st, opq(n, n))) for n in ("Imports", "State", "Context"))
    ends = e2.run_kernel(run, ex, fn, [Ref(ex.new_cell(st, astv)), imp, state, ctx], st)
    # group the FunDef-producing paths by the spelling they single out
    by_const = {}
    n_fd = 0
    for p in ends:
        if result_kind(p) != "Ok":
            continue
        core = p.ret.fields[0]
        if not (isinstance(core, Agg) and core.variant == "FunDef"):
            continue
        n_fd += 1
        s = p.state
        out_id = core.fields[core.names.index("id")]
        conv = [ev for ev in calls(p, "convert_node") if z3.eq(ev["argvals"][0], ex.to_val(s, idn))]
        if not conv:
            by_const.setdefault("?", []).append((p, None))
            continue
        cid = ex.project(s, ex.project(s, conv[-1]["ret"], ("v", "Ok")), ("f", 0), "Core")
        lit = ex.project(s, ex.project(s, cid, ("v", "Id")), ("f", 0), "std::string::String")
        same = ex.to_val(s, out_id) == ex.to_val(s, lit)
        consts = sorted({m for cnd in p.cond for m in re.findall(r"str:([A-Za-z_][A-Za-z0-9_]*)", str(cnd)) if "== str:" in str(cnd) or True})
        by_const.setdefault(out_id.s if isinstance(out_id, StrC) else "=", []).append((p, same, lit))
    if not n_fd:
        raise Unsupported("no FunDef-producing path")
    init_const = None
    m = re.search(r'pub const INIT: &str = "([^"]+)"', common.read_repo("src/check/context/function/mod.rs") + common.read_repo("src/check/context/function/python.rs"))
    documented = {"__init__": "the constructor (documented: init)"}
    first = True
    for key, items in sorted(by_const.items()):
        ob = run.ob("function-name-preserved", "E2", "convert_def FunDef arm: the emitted function keeps the name its identifier "
                    "converted to, unless the name is the documented constructor name (operator names take the FunDefOp "
                    "branch)", ["convert_def (FunDef)"])
        if key == "?":
            ob.inconclusive("identifier conversion not found on a FunDef path")
            continue
        claims = []
        for it in items:
            p, same, lit = it
            if key == "=":
                claims.append(z3.Implies(conj(p.cond), same))
            elif key in documented:
                # the documented constructor name is kept as it is: nothing ELSE may be turned into it
                claims.append(z3.Implies(conj(p.cond), same))
            else:
                # a special-cased spelling that the documentation does not mention: the output differs from the input name
                claims.append(z3.Implies(conj(p.cond), same))
        role_hint = key

        def rp_names(model, role_hint=role_hint):
            n, bad = rename_family(rp)
            hit = [b for b in bad if role_hint.strip("_") in b["role"]] or bad
            if hit:
                return {"reproduced": True, "role": f"special-cased-function-name:{hit[0]['role'].split(':')[1]}",
                        "detail": f"{hit[0]['src']!r}: {hit[0]['why']}"}
            return {"reproduced": False, "detail": f"{n} renamings commute"}
        e2.prove_each(run, ob, ex, [], claims, {}, rp_names)
        ob.detail += f"; emitted name: {'the converted identifier' if key == '=' else repr(key)}"


def ob_id_table(run, mir, rp):
    ob = run.ob("identifier-through-name-table", "E2", "convert_node Id arm: the emitted identifier is concrete_to_python of "
                "the source identifier and nothing else", ["convert_node (Id)"])
    fn = e2.find1(mir, file="src/generate/convert/mod.rs", name="convert_node")
    ex = Exec(mir, max_paths=50000)
    st = State()
    lit = opq("lit", "String")
    node = Agg("NodeTy", "Id", [lit], ["lit"])
    names_ = e2.rust_struct("src/check/ast/mod.rs", "ASTTy")
    by = {"pos": opq("pos", "Position"), "node": node, "ty": opq("ty", "Option<Name>")}
    astv = Agg("ASTTy", None, [by[n] for n in names_], names_)
    imp, state, ctx = (Ref(ex.new_cell(st, opq(n, n))) for n in ("Imports", "State", "Context"))
    ends = e2.run_kernel(run, ex, fn, [Ref(ex.new_cell(st, astv)), imp, state, ctx], st)
    claims, n = [], 0
    for p in ends:
        if result_kind(p) != "Ok" or any(ev["name"] in ("append_ret", "append_assign") for ev in p.events):
            continue
        core = p.ret.fields[0]
        n += 1
        s = p.state
        want = ex.app("concrete_to_python", [lit], "String", s)
        ok = isinstance(core, Agg) and core.variant == "Id"
        claims.append(z3.Implies(conj(p.cond), z3.And(z3.BoolVal(bool(ok)), ex.to_val(s, core.fields[0]) == ex.to_val(s, want)) if ok else z3.BoolVal(False)))
    if not n:
        raise Unsupported("Id arm not reached")
    e2.prove_each(run, ob, ex, [], claims, {}, fam_replay(rp, "identifier"))


def run(run):
    mir = e2.load_mir(run)
    rp = common.Replay()
    run.assume("identifiers: ASCII [A-Za-z0-9_], length <= 10 (concrete_to_python) / <= 6 (as_op_or_id) in the Kani tables",
               "documented special names: self, init/__init__ (constructor), operator method names, the Mamba type names of the name table",
               "outside: commutation of the whole pipeline with renaming (unbounded names, x@1 shadow encoding)")
    run.trusted += ["Kani 0.68 / CBMC 6.11", "rustc nightly MIR dump", "mirsym MIR semantics", "z3"]
    run.bounds = {"identifier_length": "<= 10 / <= 6"}
    for f in (ob_fundef_name, ob_id_table):
        try:
            f(run, mir, rp)
        except Unsupported as e:
            run.ob(f.__name__[3:] + "-encoding", "E2", "kernel is encodable").inconclusive(f"unsupported construct: {e}")
    try:
        # a user function keeps its name unless it is one of the documented operator method names: the name -> operator table
        from props import C17
        C17.ob_operator_table(run, mir, rp)
    except Unsupported as e:
        run.ob("operator-dunder-table-encoding", "E2", "kernel is encodable").inconclusive(f"unsupported construct: {e}")
    try:
        # an identifier is one token whatever letters, digits and underscores it is made of (renaming x1 -> x0 keeps it one name)
        import lexstep

        def munch_replay(what):
            def f(model):
                bad = []
                for word, kind in (("x0", "Id"), ("a10", "Id"), ("v_2", "Id"), ("x1y", "Id"), ("Z9_", "Id"), ("_0", "Id"), ("q00", "Id"),
                                   ("1000", "Int"), ("90", "Int"), ("12345678", "Int"), ("7", "Int")):
                    st, toks = rp.tokens(word)
                    if st != "OK":
                        bad.append(f"{word!r}: {st} {toks}")
                        continue
                    real = [t for t in toks if t["tok"] not in ("Eof", "NL")]
                    if len(real) != 1 or not real[0]["tok"].startswith(kind) or real[0]["text"] != word:
                        bad.append(f"{word!r} lexes as {[t['tok'] for t in real]}")
                if bad:
                    return {"reproduced": True, "role": f"{what}:{bad[0].split(':')[0]}", "detail": "; ".join(bad[:4])}
                return {"reproduced": False, "detail": "identifiers and numbers of the family lex as single tokens"}
            return f
        lexstep.obligations(run, mir, rp, munch_replay, want=("munch",))
    except Unsupported as e:
        run.ob("scan-loop-maximal-munch-encoding", "E2", "kernel is encodable").inconclusive(f"unsupported construct: {e}")
    if os.environ.get("VERIF_NO_KANI") != "1":
        import e1
        names = ["table_concrete_to_python", "table_long_names"] + (["table_as_op_or_id"] if run.tier == "thorough" else [])
        e1.run(run, names, lambda n: "spelling table against the documented list: identity / Id unless the spelling is a documented "
               "type name or keyword", None)
    rp.close()
