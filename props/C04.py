"""C04 — accepted programs do not go wrong, restricted to the typing kernels the property is anchored in (E2)."""
import subprocess
import z3

import common
import e2
from mirsym import Unsupported
from props import C05, C09

LEVEL = "model_checking"
EXPLANATION = ("The kernels that make an ill-typed use a compile-time error are executed symbolically from MIR (shared with C05 / C09): operators "
               "are typed as the documented method of the left operand, method and field accesses constrain result and arguments in the "
               "documented direction, two concrete types unify by the superset test with parent and child in the documented order, and an "
               "identifier that is not defined is an error. z3 decides each; models are replayed with programs whose emitted Python is "
               "executed: a program that Python stops with TypeError / AttributeError / NameError must have been rejected.")


def py_error(code):
    try:
        p = subprocess.run(["python3", "-c", code], capture_output=True, text=True, timeout=20)
    except Exception as e:   # pragma: no cover
        return f"python: {e}"
    if p.returncode != 0:
        last = p.stderr.strip().split("\n")[-1] if p.stderr.strip() else ""
        for k in ("TypeError", "AttributeError", "NameError", "UnboundLocalError"):
            if last.startswith(k):
                return last
    return None


def family(rp):
    """Programs with the verdict the property demands: `reject` for the ones Python would stop, and accepted programs must run clean."""
    f = e2.Family(rp)
    V = "class V(def x: Int)\n    def - (self, other: V) -> Int => self.x - other.x\n    def name(self) -> Str => \"v\"\n"

    def clean(verdict, out):
        return verdict == "accept" and py_error(out) is None
    f.add("operator-defined-by-class", V + "print(V(3) - V(1))", clean)
    f.add("operator-not-defined-by-class", V + "print(V(3) + V(1))", "reject")
    f.add("operator-right-operand-wrong-class", V + "print(V(3) - 1)", "reject")
    f.add("operator-int-plus-str", "print(1 + \"a\")", "reject")
    f.add("operator-str-minus-int", "def s := \"a\" - 1", "reject")
    f.add("operator-mod-on-str", "def r := \"a\" mod 2", "reject")
    f.add("method-call-missing-method", V + "print(V(1).size())", "reject")
    f.add("method-call-existing-method", V + "print(V(1).name())", clean)
    f.add("method-call-wrong-argument", "class A\n    def m(self, a: Int) -> Int => a + 1\nprint(A().m(\"s\"))", "reject")
    f.add("method-call-missing-argument", "class A\n    def m(self, a: Int) -> Int => a + 1\nprint(A().m())", "reject")
    f.add("method-call-surplus-argument", "class A\n    def m(self, a: Int) -> Int => a + 1\nprint(A().m(1, 2))", "reject")
    f.add("method-result-used-as-other-type", "class A\n    def m(self) -> Str => \"s\"\ndef r: Int := A().m()\nprint(r + 1)", "reject")
    f.add("field-missing", V + "print(V(1).y)", "reject")
    f.add("field-existing", V + "print(V(1).x)", clean)
    f.add("field-used-as-other-type", V + "def s: Str := V(1).x", "reject")
    f.add("method-call-tuple-argument", "class Acc\n    def total: Int := 0\n    def add(self, amount: Int) -> Int => self.total + amount\ndef a := Acc()\nprint(a.add((5, 6)))", "reject")
    f.add("operator-tuple-operand", "def x: Int := 3\ndef pair := (1, 2)\nprint(x - pair)", "reject")
    f.add("one-branch-only-in-function", "def f(c: Bool) -> Int =>\n    if c then\n        def y := 1\n    y + 1\nprint(f(False))", "reject")
    f.add("else-branch-only", "if True then\n    print(1)\nelse\n    def x := 2\nprint(x)", "reject")
    f.add("defined-in-while", "while False do\n    def x := 1\nprint(x)", "reject")
    f.add("loop-variable-after", "for i in [1] do\n    print(i)\nprint(i)", "reject")
    f.add("call-wrong-argument-type", "def f(a: Int) -> Int => a + 1\nprint(f(\"s\"))", "reject")
    f.add("call-conforming", "def f(a: Int) -> Int => a + 1\nprint(f(2))", clean)
    f.add("call-missing-argument", "def f(a: Int) -> Int => a + 1\nprint(f())", "reject")
    f.add("call-surplus-argument", "def f(a: Int) -> Int => a + 1\nprint(f(1, 2))", "reject")
    f.add("call-undefined-function", "print(g(1))", "reject")
    f.add("never-defined", "print(zz)", "reject")
    f.add("one-branch-only", "if True then\n    def x := 1\nprint(x)", "reject")
    f.add("defined-before", "def x := 1\nprint(x)", clean)
    f.add("initialiser-wrong-type", "def x: Int := \"s\"\nprint(x + 1)", "reject")
    f.add("return-wrong-type", "def h(a: Int) -> Int =>\n    return \"s\"\nprint(h(1) + 1)", "reject")
    f.add("literal-real-into-int", "def r: Int := 2.5", "reject")
    # a field that is only reached through, never assigned, stays the class-level None: AttributeError / TypeError at run time
    f.add("field-assigned-through-nested-only", "class A\n    def b: Int := 0\n\nclass X\n    def a: A\n\n    def __init__(self) =>\n        self.a.b := 1\n\ndef o := X()\nprint(o.a.b)", "reject")
    f.add("field-read-in-own-first-assignment", "class X\n    def z: Int\n\n    def __init__(self, start: Int) =>\n        self.z := self.z + start\n\nprint(X(1).z)", "reject")
    f.add("field-assigned-in-init", "class X\n    def z: Int\n\n    def __init__(self) =>\n        self.z := 1\n\nprint(X().z + 1)", clean)
    return f


def run(run):
    mir = e2.load_mir(run)
    rp = common.Replay()
    fam = family(rp)
    run.assume("the encoded kernels are the anchored mechanisms: operator typing (gen_op / gen_magic), method and field access (function_access, "
               "field_access, unify_fun_arg), type-vs-type unification (unify_type), call arity (call_parameters) and identifier look-up",
               "loops are cut at their headers (one-step semantics); callees are uninterpreted functions of their arguments",
               "outside: the whole-program guarantee itself (soundness of the constraint solver as a whole), signatures of built-ins loaded from "
               "Python stub files at run time, collections and comprehensions")
    run.trusted += ["rustc nightly MIR dump", "mirsym MIR semantics", "z3", "python3 (replay)"]
    run.bounds = {"paths": "all paths of each kernel with loops cut at their headers"}
    for f in (C05.ob_operator_typing, C05.ob_range_operands, C05.ob_bitwise_typed, C05.ob_compound_assignment, C05.ob_method_parameters, C05.ob_access_direction, C05.ob_unify_type, C05.ob_call_parameters):
        try:
            f(run, mir, rp, fam)
        except Unsupported as e:
            run.ob(f.__name__[3:] + "-encoding", "E2", "kernel is encodable").inconclusive(f"unsupported construct: {e}")
    try:
        # a tuple / dict with a wrong component must not pass as a subtype (generic arguments are compared one by one, all of them)
        from props import C20
        C20.ob_generics(run, mir, rp, C20.family(rp))
    except Unsupported as e:
        run.ob("generics-encoding", "E2", "kernel is encodable").inconclusive(f"unsupported construct: {e}")
    for f in (C09.ob_lookup, C09.ob_flow, C09.ob_assigned_detection, C09.ob_assignment_value_first):
        try:
            f(run, mir, rp, fam)
        except Unsupported as e:
            run.ob(f.__name__[3:] + "-encoding", "E2", "kernel is encodable").inconclusive(f"unsupported construct: {e}")
    if run.clean():
        e2.validate_family(run, fam, "runtime-errors")
    rp.close()
